"""Registry: property -> units, plus what is not covered and what is assumed (goes to evidence)."""

COMMON_TRUST = [
    "Verus 0.2026.09.13 + Z3; Kani 0.68 + CBMC 6.11; rustc front ends",
    "the extractor p2x and the rewrite rules R0-R10 (every application is in the ledger)",
    "vstd specifications of Vec, slices, HashMap, Option, Result",
    "usize is 64 bit; integer arithmetic checked for overflow (debug/test profile)",
]

PROPS = {}

PROPS["C14"] = dict(
    units=[("verus", "bytecode"), ("kani", "codec")],
    explanation="make/read_operands/DEFINITIONS/Opcode::from verified mutually inverse for every opcode and every "
                "operand value that fits its width (lemma_roundtrip), and an operand that does not fit is never "
                "recovered (lemma_unfit_not_recovered), so silent truncation is a decode mismatch.",
    not_covered=["that each compile_* call site passes the operand count of its opcode to emit",
                 "the VM's inline operand decoding (vmarms unit, when built)"],
    assumptions=["lazy_static evaluates the DEFINITIONS initializer exactly once and DEFINITIONS.get is HashMap::get on it (R6)",
                 "byteorder::WriteBytesExt::write_u16::<BigEndian>/write_u8 append the big-endian bytes (shim contracts)",
                 "derived Hash/Eq of the field-less enum Opcode obey the HashMap key model"],
    trusted=COMMON_TRUST,
)

# every property not claimed above, with the reason (kept current; see DESIGN.md §6)
NOT_APPLICABLE = {
    "C01": "not built yet (scanner/parser units pending)",
    "C02": "whole-compiler simulation theorem over ~60 mutually recursive emitters and VM::run; no contract within reach of Verus/Kani expresses it (DESIGN.md §6)",
    "C03": "not built yet",
    "C04": "not built yet",
    "C05": "control flow is decided by jump emission inside compile_*; only matches_type is a free-standing function (DESIGN.md §6)",
    "C06": "not built yet",
    "C07": "needs an abstract stack-height invariant through the whole expression compiler (DESIGN.md §6)",
    "C08": "not built yet",
    "C09": "not built yet",
    "C10": "not built yet",
    "C11": "not built yet",
    "C12": "not built yet",
    "C13": "not built yet",
    "C15": "not built yet",
    "C16": "not built yet",
    "C17": "not built yet",
    "C18": "not built yet",
    "C19": "not built yet",
    "C20": "not built yet",
    "C21": "not built yet",
    "C22": "not built yet",
    "C23": "not built yet",
    "C24": "argv construction is clap's derive-generated parser and the observable is process-level stdout of three invocation modes (DESIGN.md §6)",
}
