"""Registry: property -> units, plus what is not covered and what is assumed (goes to evidence)."""

COMMON_TRUST = [
    "Verus 0.2026.09.13 + Z3; Kani 0.68 + CBMC 6.11; rustc front ends",
    "the extractor p2x and the rewrite rules R0-R10 (every application is in the ledger)",
    "vstd specifications of Vec, slices, HashMap, Option, Result",
    "usize is 64 bit; integer arithmetic checked for overflow (debug/test profile)",
]

PROPS = {}

PROPS["C14"] = dict(
    units=[("verus", "bytecode"), ("kani", "codec"), ("verus", "emitter"), ("verus", "vmcore"), ("verus", "cgen")],
    explanation="make/read_operands/DEFINITIONS/Opcode::from verified mutually inverse for every opcode and every "
                "operand value that fits its width (lemma_roundtrip), and an operand that does not fit is never "
                "recovered (lemma_unfit_not_recovered), so silent truncation is a decode mismatch. emit/change_operand/patch_jump record "
                "a compile error for every operand that does not fit its width (operands_fit == the spec predicate), and compile() "
                "returns Err whenever one was recorded. Code generator (cgen unit, real bodies): every emit call in compile_statement / compile_expression / compile_if_expression / compile_logical_and / compile_logical_or / "
                "compile_function_literal / compile_match_expression / compile_filter_statement / emit_action_stmt / load_symbol / save_symbol / compile_index / compile_prop / compile_infix passes at least as many operands as its opcode encodes (emit's precondition, discharged at each call site), "
                "patch_jump / change_operand are only applied to the start of a one-operand instruction, and the bytes they leave are the big-endian encoding of the new operand (lemma_patched_jump).",
    not_covered=[                 "VM::run's fetch/dispatch loop header and tail are pinned by a source scan (vmcore::scan[run-header / run-no-rebinding / run-tail]), not by a proof; each of its 48 arms is verified: it decodes big-endian operands of exactly the encoder's widths and leaves ip on the last operand byte"],
    assumptions=["lazy_static evaluates the DEFINITIONS initializer exactly once and DEFINITIONS.get is HashMap::get on it (R6)",
                 "byteorder::WriteBytesExt::write_u16::<BigEndian>/write_u8 append the big-endian bytes (shim contracts)",
                 "derived Hash/Eq of the field-less enum Opcode obey the HashMap key model"],
    trusted=COMMON_TRUST,
)

PROPS["C01"] = dict(
    units=[("verus", "scanner"), ("kani", "prec"), ("verus", "driver"), ("verus", "parser"), ("verus", "exprparse"), ("verus", "cgen")],
    explanation="Every Scanner method is verified panic-free (all indexing and slicing in bounds, no overflow), terminating "
                "(decreases on the remaining input) and progressing (next_token strictly advances and returns Eof at end of input) "
                "for every input text; the Pratt loop's termination invariant (a token that can continue an expression has an infix parser) "
                "holds for every token type. main.rs: parse_program returns Some only for a program without diagnostics, and in run_buf/run_prompt "
                "VM::run is reachable only with bytecode from a compiler whose compile() returned Ok on such a program. Parser: error recovery (synchronize) terminates "
                "for every token stream; push_error/expect_peek record exactly one diagnostic; every statement parser returns Ok, and Statement::Invalid only together with a "
                "new diagnostic - so the compiler's panic on Statement::Invalid is unreachable for executed programs. Expression parser (exprparse unit, round 2): all 40 functions of parser/rules.rs "
                "(literals, prefix/infix/assignment/range/dot/index/call/grouped/if/match/function/array/map/dollar parsers, parse_block_statement, parse_function_params, convert_to_pattern_list) and parse_expression's Pratt loop are verified on their real bodies: "
                "no index, slice or unwrap can fail (the radix slices under the scanner's token invariant; `arms[arms.len() - 1]` only when a default arm was seen), diagnostics only grow, and every loop terminates under the measure "
                "3 x input left + 2 x [look-ahead not Eof] + [current not Eof] (Eof is not assumed absorbing: a NUL in the text yields Eof in mid-input). "
                "Code generator (cgen unit, round 3): compile_statement (all arms incl. loop / while / break / continue), compile_expression (all arms), compile_if_expression, compile_logical_and / or, compile_function_literal, compile_match_expression, compile_filter_statement, emit_action_stmt, compile_block_statement, "
                "compile_identifier / index / dot / prop / infix, load / save_symbol, enter / leave_scope, Compiler::new / new_with_state (establish the invariant), compile (keeps it) and the stream helpers (emit, change_operand, patch_jump, remove_last_pop, replace_last_pop_with_return, replace_instruction) are verified on their real bodies against a "
                "representation invariant (the scope's bytes are a sequence of well-formed instructions, last_ins is the last of them, every recorded break placeholder is the start of a Jump): no index, slice, truncation, patch, subtraction or unwrap in them can fail for any AST, "
                "each only appends to the stream and restores block depth, loop stack and symbol-table nesting.",
    not_covered=["termination of the recursive descent as a whole: the recursive entries parse_expression / parse_statement are seen by their callers through one assumed contract (diagnostics grow, the measure does not increase), so each function's own loops terminate but the recursion depth (bounded by the tokens consumed) is stated, not proved",
                 "that each function value stored in PARSE_RULES is one of the verified prefix / infix parsers (the indirect calls go through dispatch shims carrying their common contract)",
                 "termination of the compile_* recursion (structural on the AST: stated, not proved)"],
    assumptions=["cgen: the two AST shapes the parser never produces for an error-free program reach the compiler's two panic! sites (Statement::Invalid; a Builtin identifier other than stdin/stdout/stderr); every match expression has at least one arm and every arm at least one pattern (the parser appends the default arm); block depth stays below usize::MAX; a map literal has fewer than usize::MAX/2 pairs; symbol-table operations keep the nesting of tables (symtab unit's contracts, restated)",
                 "Unicode classification (is_alphabetic/is_alphanumeric) is uninterpreted except: NUL is in no class, alphabetic implies alphanumeric",
                 "fewer than 2^64 - 2 characters/tokens are scanned (read_position does not overflow)",
                 "string building shims (collect, to_string, format!) return some String",
                 "table facts used by the Pratt loop's termination (prec unit, Kani, every token): a token whose level is above Lowest has an infix parser; right-associative tokens are above Lowest"],
    trusted=COMMON_TRUST,
)

PROPS["C03"] = dict(
    units=[("kani", "prec"), ("verus", "pins")],
    explanation="PARSE_RULES is read from the real lazy_static and compared, for every TokenType, with the documented precedence "
                "table: level, presence of an infix/prefix parser and associativity; Precedence's derived order is the discriminant order. "
                "Pins (Verus, real bodies): curr_precedence / peek_precedence / peek_associativity consult the table at the token they are named after (MatchOr for | inside a match pattern); "
                "peek_valid_expression is the Pratt comparator (continue iff the next operator binds tighter, or as tight when it is right-associative, and is neither ';' nor end of input); "
                "parse_infix_expression and parse_assignment_expression parse their right operand with the operator's own precedence and parse_prefix_expression with Unary, each by exactly one recursive call.",
    not_covered=["that a Pratt loop over this table yields the documented grouping (precedence-climbing theorem, assumed)",
                 "parse_expression's own loop (prefix call, then infix calls while peek_valid_expression holds): it calls through function values taken from the table and is read, not verified",
                 "parse_ranges / index / call / dot expressions (their inner calls use Assignment level inside brackets; covered by the stand-in only)"],
    assumptions=["TokenType is a field-less enum with contiguous discriminants (transmute in the harness)"],
    trusted=COMMON_TRUST,
)

PROPS["C06"] = dict(
    units=[("kani", "ops"), ("verus", "vmcore"), ("verus", "cgen")],
    explanation="Object::is_falsey equals the documented table for every Bool, Integer, Float (incl. -0.0, NaN), Char, Byte value and Null (Kani, real code). "
                "The VM arms Bang, JumpIfFalse and JumpIfFalseNoPop are verified to use exactly that predicate: Bang replaces v by Bool(falsey(v)); "
                "JumpIfFalse pops and jumps to the encoded target iff falsey; JumpIfFalseNoPop does the same without popping (so a && b / a || b yield an operand, not a boolean). "
                "Object::is_falsey itself is verified (Verus, real body) against the whole documented table, the empty string / array / map rows for containers of every size; "
                "pop_filter_frame's verdict is !falsey(value), so filter patterns follow the same table. "
                "Compiler (cgen unit, real bodies): a && b is compiled as <a> JumpIfFalseNoPop end, Pop, <b>, end: and a || b as <a> JumpIfFalseNoPop rhs, Jump end, rhs: Pop, <b>, end: - on the operator's own operands in source order, "
                "with the jump operands equal to those positions unless a compile error is recorded (and_shape / or_shape, proved through patch_jump's byte-level contract); compile_expression dispatches && and || to exactly these generators; "
                "if is <c> JumpIfFalse else ... Jump end (if_shape); while is <c> JumpIfFalse end ... Jump begin and loop ends in Jump begin, and patching break placeholders leaves those jumps alone; !v emits Bang after v's code.",
    not_covered=["the composition 'these instruction sequences executed by those VM arms yield the documented value' is by reading the two contracts side by side (no VM-execution semantics of whole programs is formalised)",
                 "a while condition that itself contains a break to that loop (its bytes are patched later, so the condition's segment is not tagged in while_loop_shape)"],
    assumptions=["emitted_by(e, segment) is an uninterpreted tag whose only axiom is its definition at compile_expression's accepting exit ('this call appended this segment')"],
    trusted=COMMON_TRUST,
)

PROPS["C08"] = dict(
    units=[("kani", "ops"), ("verus", "vmcore"), ("verus", "vmindex"), ("verus", "dollar"), ("kani", "headers")] + [("verus", "hdrser.%s" % k) for k in ("tcp", "udp", "eth", "vlan", "ipv4", "ipv6")],
    explanation="Operator impls are panic-free on every scalar pair the VM lets through (Kani, full domain); the VM's stack/frame "
                "helpers, call_func, call_builtin, push_closure, binary_op, bitwise_op are verified panic-free under the VM "
                "representation invariant and preserve it (Verus); header parsers return Err on every truncated buffer. The index / map / $n helpers the arms call (vmindex unit, real bodies): exec_array_index indexes only inside the array, "
                "exec_hash_index and build_map reject invalid keys with an error, exec_dollar_expr bounds the depth; get_inner (dollar unit) terminates for every depth and object.",
    not_covered=["VM::run's loop header/tail (source scan only) and the facts each arm assumes from the compiler (operands index existing constants/locals/free variables; operands were pushed; ip stays on instruction starts)",
                 "builtins other than the 23 pure ones and the I/O ones under contract (C11, C22): time, rand, sleep, exit, input, strerror, get_errno are exercised by the bounded stand-in only", "compile_* emission"],
    assumptions=["operands the compiler encodes (constant index, free count, argument count) are within the VM state they index (precondition of the helpers)",
                 "num_locals of a compiled function is below 2^32"],
    trusted=COMMON_TRUST,
)

PROPS["C09"] = dict(
    units=[("kani", "ops"), ("verus", "vmcore"), ("verus", "cgen")],
    explanation="Compiler (cgen unit, real bodies): a binary operator other than && / || is compiled as <first operand> <second operand> <opcode> with the opcode of the documented table (infix_opcode) and the operands in source order - except < and <=, which are > and >= on the swapped operands (binary_shape); a unary operator as <operand> <opcode> (unary_opcode). For every scalar kind pair and every payload: + - * / % << >> & | ^ and unary - equal the two's-complement / modulo-2^8 / "
                "IEEE model; comparisons are exact on integers and IEEE otherwise, consistent with ==. binary_op/bitwise_op return Ok only for "
                "(operator, kind, kind) combinations of the C09 table and call the operator only on its panic-free domain.",
    not_covered=["float % value (CBMC has no fmod: result kind only)", "string/char lexicographic compare beyond chars (std String::partial_cmp assumed)",
                 "operator semantics of Equal/NotEqual beyond the ops harnesses"],
    assumptions=["the closure passed with each BinaryOperation is the operator of the same name (checked per arm in vmarms)"],
    trusted=COMMON_TRUST,
)

PROPS["C10"] = dict(
    units=[("kani", "ops"), ("verus", "keys")],
    explanation="For all pairs of scalar keys (Integer, Float, Byte, Char, Bool, Null): k1 == k2 implies the two keys feed identical byte "
                "streams to any Hasher, which is the precondition of HashMap's lookup contract. Arrays and the rest (Verus, keys unit, real bodies of PartialEq for Object / Array and Hash for Object / Array): == is element-wise on arrays of equal length "
                "and the payload comparison otherwise; hash feeds float_key_bits of the double a number compares as, the char / byte / bool / text otherwise, and an array's elements in order; "
                "lemma (induction over length and nesting): two valid keys that are == feed the hasher the same stream.",
    not_covered=["HMap::get / contains / insert and exec_hash_index's use of them (one-line wrappers over std HashMap; exercised by the bounded stand-in)", "HashMap's own contract (std, assumed)",
                 "Object::eq is not transitive across Integer/Float above 2^53 (stated limitation of the std contract's precondition)"],
    assumptions=["std HashMap returns the value most recently inserted under a key that is == and hashes equally"],
    trusted=COMMON_TRUST,
)

PROPS["C13"] = dict(
    units=[("verus", "vmcore"), ("verus", "bytecode"), ("verus", "emitter"), ("verus", "propwire"), ("verus", "vmindex"), ("verus", "dollar"), ("verus", "cgen")],
    explanation="emit/add_instruction/replace_instruction/change_operand/patch_jump/remove_last_pop keep lines.len() == code.len() and never change the line of a surviving byte; make() records the given line for every byte of an instruction; every RTError built by the verified VM helpers "
                "(push/pop/top, call_func, call_builtin, push_closure, binary_op, bitwise_op, exec_call, push_frame) carries the line argument. "
                "Compiler (cgen unit, real bodies): for a binary operator other than && / ||, a unary operator, an index, a call and a packet-property access, the last instruction compile_expression emits - the one that can fail at run time - "
                "is the node's own opcode (infix_opcode / unary_opcode tables, Get/SetIndex, Call, Get/SetProp) and the line recorded at its opcode byte is the line of the node's own token (op_line / last_line_is).",
    not_covered=["lines of the comparison instructions generated for match patterns (they carry the pattern's or the arm's token line by construction; not stated as a postcondition)", "errors raised inside the 12 layer-getter arms of exec_prop_* (they return error OBJECTS, never runtime errors: pktcache) and inside builtins (call_builtin puts the line on them)",
                 "that `line` passed to the arms is instructions.lines[ip] is a source scan of VM::run's loop header (vmcore::scan[run-header], scan[run-no-rebinding]), not a proof"],
    assumptions=[],
    trusted=COMMON_TRUST,
)

PROPS["C15"] = dict(
    units=[("kani", "headers"), ("kani", "pcapcodec"), ("verus", "pktcache"), ("verus", "chain")] + [("verus", "hdrser.%s" % k) for k in ("tcp", "udp", "eth", "vlan", "ipv4", "ipv6", "pkt")] + [("verus", "objser")],
    explanation="Caching discipline (Verus, the 12 layer-getter arms of vm/pktprop.rs): a READ returns the cached inner object or parses the child from the parent's own "
                "buffer at the parent's payload offset, and caches only such a child (never an error object) - the shape the serialisers need. Unbounded half (Verus, every buffer length and offset): each layer's from_bytes sets offset = off + header length <= len, and "
                "From<&Layer> for Vec<u8> returns header bytes ++ rawdata[offset..] when no inner layer is cached (header bytes ++ the inner object's bytes otherwise). "
                "Header half (Kani, every header content): serialising the parsed header gives back the captured header bytes (bounded_checks: with a short payload attached). "
                "Induction (Verus, chain unit, a lemma over those contracts for every chain length): a layer whose header bytes are raw[start..poff] and whose cached inner layer, if any, was parsed from the same buffer at poff and is itself read-only serialises to raw[start..]; with the record-header codec identity the record written is the record captured.",
    not_covered=["that `.into()` in From<&Object> for Vec<u8> resolves to the serialiser of the binding's own type (rustc's trait resolution, rule R10; the dispatch itself is verified in the objser unit), and that the four hypotheses of the chain lemma are exactly the ensures clauses of the units named next to them (stated in units/chain/prelude.rs, matched by reading)",
                 ],
    assumptions=[],
    trusted=COMMON_TRUST,
)
PROPS["C16"] = dict(
    units=[("kani", "headers"), ("kani", "pcapcodec"), ("verus", "pktcache"), ("verus", "propwire"), ("verus", "dollar")] + [("verus", "hdrser.%s" % k) for k in ("tcp", "udp", "eth", "vlan", "ipv4", "ipv6")],
    explanation="For every header content of each layer, every getter equals the RFC field of the raw bytes, the parser fails exactly on truncated headers and the payload offset follows the header length fields. "
                "Wiring (Verus, propwire: all 52 scalar arms, 7 payload arms and 8 default arms of exec_prop_*): reading a documented property returns the getter the documentation's table names for it; "
                "payload is the captured buffer from the layer's payload offset, byte for byte, for every length; any other property is a runtime error with the instruction's line; the property names are the Display texts PACKET_PROP_MAP is built from (scans). $n (Verus, dollar: get_inner verbatim, recursive, decreases depth): "
                "the result is the object itself at depth 0, follows a cached layer as it is, otherwise descends through the layer getter selected by EtherType 0x8100/0x0800/0x86DD, protocol 17/6/41, next header 17/6, "
                "is null for an unsupported layer and returns error objects and other non-layer objects unchanged; the dispatch constants are copied from the tree under check.",
    not_covered=["address text (C18)", "that the dispatch fields the layer objects report (get_ethertype_raw, get_protocol_raw, get_next_header_raw) are the header fields (one-line accessors; the field values are the headers unit's)",
                 "the Dollar arm's call of get_inner with the encoded depth (vmcore arm contract)"],
    assumptions=["TCP flags are the 12 bits after the data offset (reserved + control bits), so that serialisation stays lossless"],
    trusted=COMMON_TRUST,
)
PROPS["C17"] = dict(
    units=[("kani", "headers"), ("kani", "pcapcodec"), ("verus", "propwire")] + [("verus", "hdrser.%s" % k) for k in ("tcp", "udp", "eth", "vlan", "ipv4", "ipv6")],
    explanation="For every writable integer/bool field of every layer, every header content and every assigned i64: the stored value is the value reduced to the field width "
                "(the value itself when in range) or the setter fails leaving everything unchanged; every other getter is unchanged; the serialised bytes differ only "
                "inside the field's bit range; re-parsing reads the same value. The harnesses carry a short payload; that the payload part of the serialisation is "
                "rawdata[offset..] whatever the header holds, for every length, is the hdrser (Verus) serialiser contract. Wiring (Verus, propwire): assigning a documented property calls that property's "
                "setter and no other; the expression's value is the assigned value when the setter accepts and a runtime error with the instruction's line when it refuses; read-only properties (version) refuse every assignment.",
    not_covered=["address setters (string parsing, C18)", "sequences of assignments (follow from the frame condition of each setter)"],
    assumptions=[],
    trusted=COMMON_TRUST,
)

PROPS["C04"] = dict(
    units=[("verus", "symtab"), ("verus", "vmcore"), ("verus", "cgen")],
    explanation="Compiler (cgen unit, real bodies; the table's answers are uninterpreted functions of table, name and depth): compile_identifier asks resolve() for the name at the current block depth, turns 'no binding' into a compile error, and reads / writes a found symbol through the instruction of the symbol's own scope with the symbol's own index (load_symbol / save_symbol: Global/Local/Free/BuiltinFn/BuiltinVar/Function -> their Get / Set opcodes; a non-assignable scope is an error); a let / fn statement defines the name at the current block depth BEFORE its value is compiled and ends in DefineGlobal / DefineLocal of exactly that symbol; the last thing a block does to the table is leave_block at the depth it was entered with, and it restores that depth; a function literal leaves, in the enclosing scope, one load per captured symbol (through the symbol's own scope and index, in sequence) followed by Closure(function constant, number of captures) - what OpClosure (vmcore push_closure) copies into the closure (closure_shape). SymbolTable::define/define_free/leave_block/resolve/new_enclosed are verified against an abstract store view: define appends the most "
                "recent symbol of its name (Global iff there is no enclosing table), resolve returns the LAST symbol visible at the block depth "
                "(captured symbols are visible in the whole function), falls through to the enclosing function otherwise and captures non-shared "
                "symbols with index = number of captures so far, returns None exactly when no table of the chain has a visible symbol, and leaves "
                "the table unchanged when the name is local or unresolvable; leave_block keeps exactly the symbols not deeper than the block being "
                "left. Lemmas: a new binding shadows (lemma_define_shadows), a binding of an ended block disappears and the previous one is back "
                "(lemma_inner_binding_ends, lemma_filter_all_kept). VM side: the Closure arm / push_closure copy exactly the num_free top stack slots, in order, into the new closure at creation time; "
                "GetFree reads closure.free[operand]; DefineGlobal/SetGlobal/GetGlobal read and write exactly globals[operand] (shared by reference); Get/Set/DefineLocal address stack[bp + operand].",
    not_covered=["that the symbol-table answers named in the cgen contracts (defined_sym / resolved_sym / after_leave, uninterpreted there) are the abstract-store operations verified in the symtab unit: matched by name, the two units share no spec",
                 "that the sequence of captured symbols in closure_shape is the inner table's free_symbols (it is an existential in the postcondition), and that compile_function_literal defines the parameters at depth 0 of the new table (the calls are verified panic-free and frame-preserving)"],
    assumptions=["std HashMap<String, Vec<_>>: get / insert / entry().or_default().push() / values_mut()+retain have their documented meaning over the abstract view (5 shims)",
                 "fewer than 2^64 definitions / captures per table"],
    trusted=COMMON_TRUST,
)

PROPS["C18"] = dict(
    units=[("verus", "addr")],
    explanation="The three text parsers are verified against a reference reading of the split text: MacAddress::from_str accepts exactly 6 colon-separated groups that are "
                "hex octets and stores them in order; Ipv4Address::from_str exactly 4 dot-separated decimal octets; Ipv6Address::from_str splits at the (only) '::' into head and "
                "tail groups, requires 8 groups without '::' and at most 7 with it, every group 1-4 hex digits, and stores head groups at the front, tail groups at the back and "
                "zeros between (RFC 4291 section 2.2 forms 1 and 2, '::' leading, trailing or in the middle); all array indexing in bounds for every input.",
    not_covered=["Display (format!) and therefore the Display-then-from_str identity", "that str::find/split/from_str_radix/parse have their documented meaning (shims over uninterpreted spec functions)",
                 "rejection of texts the reference also rejects is only stated for group count and invalid groups"],
    assumptions=["std string operations (find, slicing, split, contains, from_str_radix, parse, chars().all) behave as documented"],
    trusted=COMMON_TRUST,
)

PROPS["C19"] = dict(
    units=[("kani", "pcapcodec"), ("verus", "pcapio"), ("verus", "pcapbuiltins")],
    explanation="Global and record header codecs verified on all 24/16 header bytes: accepted magics, little-endian field layout, encode(decode(b)) == b; short buffers are errors. "
                "Pcap::next_packet is verified against the stream model for files and stdin: it succeeds exactly when the stream holds a complete record with caplen <= snaplen, "
                "returns that record's header fields and bytes, and consumes exactly 16 + caplen bytes; any other handle is an error. The builtins on top of it (pcapbuiltins unit, real bodies, loop invariant over the stream of complete records): "
                "pcap_read_next returns the next record and advances the stream by it, null at a clean end or truncated tail, an error object at a damaged one; pcap_read_all(f[, n]) returns exactly the next min(n, remaining) records in file order "
                "and advances the stream by as many (an error object if a damaged tail is reached first); pcap_write returns the byte count or the error object.",
    not_covered=["write_all + BufWriter (std)", "OS delivery of file bytes", "the write-then-read round trip through a real file (follows from the two stream contracts and C15 under the stream model)"],
    assumptions=["read_exact fails only with end of input (other I/O errors are outside the stream model)"],
    trusted=COMMON_TRUST,
)

PROPS["C21"] = dict(
    units=[("verus", "fileio"), ("verus", "iobuiltins")],
    explanation="read_from_file verified against std::io::Read's contract over a ghost byte stream, for every chunking schedule: the result is exactly the next min(n, remaining) bytes, the stream advanced by as much, or an error object. builtin_open: at each of its four OS open calls the option set equals the documented table for the mode being handled "
                "(r: read; w: write+create+truncate; a: append+create; x: write+create_new) - the precondition of the os_open shim.",
    not_covered=["read_line / read_to_string (thin wrappers over std)", "BufWriter flushing at exit", "that the OS honours the options"],
    assumptions=["std::io::Read::read: Ok(0) only at end of input or for an empty buffer; Ok(k) delivers the next k <= buf.len() bytes"],
    trusted=COMMON_TRUST,
)

PROPS["C22"] = dict(
    units=[("verus", "iobuiltins"), ("verus", "fileio"), ("verus", "pcapbuiltins")],
    explanation="With every OS call replaced by a shim that fails exactly when an uninterpreted flag says so: flush on a writer/stdout/stderr returns an error OBJECT when the OS fails and null otherwise (no expect/unwrap reachable, "
                "no runtime error); read_line (file or stdin) and read_to_string return an error object when the OS read fails and a string otherwise (read_to_string: or the UTF-8 error object); write to a file writer returns an error object "
                "when the OS write fails and the byte count otherwise, for a byte, an array of bytes, a string or a packet (all three element loops verified), and is a runtime error only for the documented misuse; open with well-formed arguments always returns Ok(object); pcap_stream with a wrong arity is a runtime error (not an index panic) and with "
                "stdin/stdout always Ok(object); pcap_open returns the error object of a failed open unchanged; read_from_file turns a failing read into an error object; pcap_read_next / pcap_read_all return an error object (never a runtime error) for a damaged record and null / the records read so far at end of input; pcap_write returns an error object exactly when the OS write fails.",
    not_covered=["builtin_read's argument handling around read_from_file (read_from_file itself is under contract); print!/eprint! to a closed stdout/stderr (std panics there; listed)",
                 "that the error object carries THAT failure's errno (only its being an error object is stated)"],
    assumptions=["the OS shims' results are arbitrary Result values (no assumption on the OS)"],
    trusted=COMMON_TRUST,
)

PROPS["C23"] = dict(
    units=[("verus", "driver")],
    explanation="In the real run_prompt loop, at both exits of an iteration that rejected the line (parse error, compile error) the accumulated "
                "(symtab, constants, globals) equal their values when the line was read; VM::run is only reached with bytecode of an accepted line.",
    not_covered=["first clause of the property (accepted lines behave like one script): whole-program equivalence",
                 "state after a runtime error"],
    assumptions=["Compiler::new_with_state/compile/bytecode, VM::new_with_global_store/run are opaque behind ghost-token contracts",
                 "derived Clone of SymbolTable / Vec<Rc<Object>> is a structural copy"],
    trusted=COMMON_TRUST,
)

PROPS["C11"] = dict(
    units=[("verus", "builtins")],
    explanation="Each of the 23 pure builtins is verified against a contract taken from the documented table: any other arity is Err; a first argument outside the documented kinds is Err "
                "(and a second one for get/join/round); a documented kind gives Ok with the documented result kind, and the documented value where it is a function of the argument "
                "(len, first, last, rest, pop, get, is_error, int of byte/char/bool, char of byte, join = chars with the delimiter between neighbours, encode_utf8 = the UTF-8 bytes, "
                "decode_utf8 = the inverse). The five round-trip laws are exec compositions checked against those contracts only: int(str(n)) == n, float(str(x)) == x for finite x, "
                "decode_utf8(encode_utf8(s)) == s, join(chars(s)) == s, len(encode_utf8(s)) == len(s). round's 10^n is behind a no-overflow precondition. "
                "The BUILTINFNS table binds each name to the function under contract (source scan).",
    not_covered=["sort: only arity/kind/identity of the returned array; 'non-decreasing permutation' is slice::sort's contract over Object's Ord (C09 covers the order)",
                 "the text of error messages ('naming the builtin' is call_builtin's format!, dropped by rule R3f)",
                 "values of str() for kinds other than Integer/Float, of tolower/toupper, of float->int/char/byte casts (std behaviour behind shims)",
                 "HMap get/contains/insert results (HashMap behind shims)"],
    assumptions=["std: Display for i64/f64 followed by str::parse is the identity (for finite floats); String::from_utf8 inverts str::as_bytes; char::from_u32 is Some exactly on scalar values",
                 "Array methods get/last/len/is_empty/push/pop behave as their one-line bodies in object/array.rs say (shim contracts read from them)"],
    trusted=COMMON_TRUST,
)

PROPS["C20"] = dict(
    units=[("verus", "filtermode"), ("verus", "pcapio")],
    explanation="run_filters (main.rs) is verified against a world of pending input packets and written output, with VM::push_filter_frame / run / pop_filter_frame recording what "
                "they were asked: every filter frame pushed in the loop saw NP = the 1-based index of a packet of the input, that packet as the current packet and PL/WL/TSS/TSU = its record "
                "header fields; after each completed filter the packets written to stdout are exactly the current packets of the pops that returned true, in order (one write per true, none otherwise); "
                "the end filter is pushed at most once, last, with NP = the number of packets read and PL/WL null; without -s exactly one global header equal to the input's is written, to stdout, "
                "with -s no pcap bytes at all. set_curr_pkt and update_builtin_var are verified on their real bodies (which slot gets which field). run_buf: the non-filter program has run exactly "
                "once and NP is 0 when run_filters is entered. Pcap::new_like / new_with_header (pcapio unit): the header written is the input's, byte for byte.",
    not_covered=["that every filter is run for every packet when a filter fails at run time (the loop breaks; the property is silent on errors)",
                 "'as modified so far': packets are shared Rc values, so a write serialises the current state (C15/C17 cover serialisation)",
                 "the filter bodies themselves (compile_filter_statement / emit_action_stmt: C02 territory) and what 'pattern is true' means: pop_filter_frame's bool is taken as given",
                 "stdout text of print builtins with -s"],
    assumptions=["VM::run / push_filter_frame / pop_filter_frame do not write builtinvars or curr_pkt (frame scans: one writer each)",
                 "fewer than 2^63 packets on stdin (NP is an i64 counter)",
                 "PcapPacket getters return the record header fields as read (one-line bodies in builtins/pcap.rs)"],
    trusted=COMMON_TRUST,
)

PROPS["C12"] = dict(
    units=[("verus", "format")],
    explanation="format_buf (the specifier state machine) is verified against a reference renderer written as a spec function over the format string: literal text, {{ and }} escapes, and "
                "specifiers {[index][:[[fill]<|>][width][b|o|x|X]]} read by a five-position grammar automaton (the character directly before < or > is the fill); unindexed specifiers take "
                "arguments left to right, index n selects the (n+1)-th value, a specifier without a matching argument / an unparsable width or index / a number format on a non-integer is an error. "
                "For every format string inside that grammar the collected text equals the reference rendering (loop invariant: collected text + reference rendering of the rest = reference rendering of the whole, "
                "with a simulation relation between the grammar position and the function's flags and buffers); outside the grammar nothing is claimed. format_obj is verified against the one-specifier "
                "rendering (number formats, default/explicit justification, fill, width). format returns that text; print/println/eprint/eprintln write it (plus a newline) to the right stream, "
                "nothing to the other, and return its length in bytes. Collector::write_str appends its argument.",
    not_covered=["format strings outside the grammar (stray '}', unterminated '{', '{' inside a specifier, characters after the number format): behaviour unspecified by the reference",
                 "the digits std produces for {:b} {:o} {:x} {:X} and Display (uninterpreted on both sides)",
                 "width counts bytes (str::len); equal to characters for the ASCII text the property quantifies over",
                 "negative integers under a number format are shown as their 64-bit two's complement (`as usize`), on both sides"],
    assumptions=["write!(collector, ..) reaches Collector::write_str exactly once with the formatted text and cannot fail (std::fmt)",
                 "UTF-8 length is additive; the text held in memory is shorter than 2^62 bytes (axioms axiom_blen_add, axiom_blen_basic, axiom_in_memory)",
                 "str::parse::<usize>, str::repeat, String::len, format!({}{}) behave as their shim contracts say"],
    trusted=COMMON_TRUST,
)

# every property not claimed above, with the reason (kept current; see DESIGN.md §6)
NOT_APPLICABLE = {
    "C01": "not built yet (scanner/parser units pending)",
    "C02": "a simulation theorem 'compiled bytecode behaves as the source' needs an operational semantics of VM::run (Verus has the arms one by one, not the loop; Kani cannot compile it) composed with a functional specification of the whole code generator. Round 3 put every compile_* function under structural contracts (cgen unit: append-only well-formed stream, jump shapes, operand order, own-scope symbol access, lines) and those are claimed where they decide a listed property (C01, C04, C06, C09, C13, C14); they say which instructions are emitted, not what executing them yields, so they do not add up to this property (DESIGN.md §6)",
    "C03": "not built yet",
    "C04": "not built yet",
    "C05": "the property is about executions (exactly one branch runs, the chain's value, first matching arm, range bounds, loop exit, break / continue targets). What contracts reach is the jump structure the compiler emits for if / while / loop and the short-circuit operators (cgen unit: if_shape, while_loop_shape, loop_tail, proved, reported under C06) and the jump arms of the VM one by one; composing them into 'exactly one branch is evaluated and its value is the result' needs an operational semantics of VM::run over a well-formed stream with jump targets on instruction starts, which is not within reach; match arms are verified only against the append-only contract (no postcondition about pattern order or range bounds) (DESIGN.md §6)",
    "C06": "not built yet",
    "C07": "needs an abstract stack-height invariant through the whole code generator: the cgen contracts track the byte stream (instruction boundaries, jumps, lines), not the stack effect of the emitted sequences on every path incl. jumps out of operand positions; per-opcode stack effects are proved in the VM arms but do not add up to the property without that (DESIGN.md §6)",
    "C08": "not built yet",
    "C09": "not built yet",
    "C10": "not built yet",
    "C11": "not built yet",
    "C12": "not built yet",
    "C13": "not built yet",
    "C15": "not built yet",
    "C16": "not built yet",
    "C17": "not built yet",
    "C18": "not built yet",
    "C19": "not built yet",
    "C20": "not built yet",
    "C21": "not built yet",
    "C22": "not built yet",
    "C23": "not built yet",
    "C24": "argv construction is clap's derive-generated parser and the observable is process-level stdout of three invocation modes (DESIGN.md §6)",
}
