"""C20: the filter-mode driver (main.rs run_filters), the two VM helpers it relies on, against a world of pending input
packets and written output, with the VM's push/run/pop recording what they were asked."""
M = "src/main.rs"
I = "src/vm/interpreter.rs"
OB = "src/object/mod.rs"
V = "src/builtins/variables.rs"

NREAD = "(in0.len() - w.input().len())"
BASE = ["vm.builtinvars@.len() >= 6", "w.in_hdr() == old(w).in_hdr()", "w.input().len() <= in0.len()", "w.input() == in0.skip(%s as int)" % NREAD,
        "in0.len() < 0x7fff_ffff_ffff_ffff",
        "vm.runs@ >= 1",
        "pcap_in.handle() is Stdin",
        # with -s nothing is written as pcap; otherwise one header, equal to the input's, on stdout
        "skip_pcap <==> pcap_out is None",
        "pcap_out is None ==> w.hdrs().len() == 0 && w.pkts().len() == 0",
        "pcap_out matches Some(o) ==> o.handle() is Stdout && o.hdr() == w.in_hdr() && w.hdrs() == seq![w.in_hdr()]",
        "w.stray() == 0",
        # every filter run so far saw the right NP / PL / WL / TSS / TSU / current packet
        "all_filter_pushes(vm.pushes@, vm.pushes@.len() as int, in0, filters@)",
        "int_obj(vm.builtinvars@[1], %s)" % NREAD]
OUT = "pcap_out is Some ==> w.pkts() =~= vm.exp@"

UNIT = dict(
    name="filtermode",
    prelude="units/filtermode/prelude.rs",
    uses="use std::rc::Rc;",
    lemmas={},
    global_rewrites=[
        dict(rule="R3f", re=r"eprintln!\(\"\{\}\", err\);", to="eprint_any();", why="eprintln! -> output shim"),
    ],
    items=[
        dict(kind="enum", file=OB, path="Object"),
        dict(kind="enum", file=V, path="BuiltinVarType"),
        dict(kind="fn", file=I, path="VM::update_builtin_var", props=["C20"],
             requires=["old(self).builtinvars@.len() >= 6", "!(vt is Max)"],
             ensures=["final(self).builtinvars@ == old(self).builtinvars@.update(bvt_idx(vt), obj)", "final(self).curr_pkt == old(self).curr_pkt",
                      "final(self).runs == old(self).runs", "final(self).pushes == old(self).pushes", "final(self).exp == old(self).exp"],
             rewrites=[dict(rule="R7", re=r"pub fn update_builtin_var\(&self,", to="pub fn update_builtin_var(&mut self,", expect=1, strict=True, why="interior mutability made explicit: RefCell-backed &self mutator takes &mut self"),
                       dict(rule="R2", re=r"self\.builtinvars\.borrow_mut\(\)\[vt as usize\] = obj;", to="self.builtinvars.set(vt as usize, obj);", why="RefCell erased; v[i] = x -> Vec::set")]),
        dict(kind="fn", file=I, path="VM::set_curr_pkt", props=["C20"],
             requires=["old(self).builtinvars@.len() >= 6"],
             ensures=["final(self).builtinvars@.len() == old(self).builtinvars@.len()",
                      "final(self).builtinvars@[0] == old(self).builtinvars@[0]", "final(self).builtinvars@[1] == old(self).builtinvars@[1]",
                      "int_obj(final(self).builtinvars@[2], pkt.caplen() as int)", "int_obj(final(self).builtinvars@[3], pkt.wirelen() as int)",
                      "int_obj(final(self).builtinvars@[4], pkt.ts_sec() as int)", "int_obj(final(self).builtinvars@[5], pkt.ts_usec() as int)",
                      "pkt_of(final(self).curr_pkt) == Some(pkt)",
                      "final(self).runs == old(self).runs", "final(self).pushes == old(self).pushes", "final(self).exp == old(self).exp"],
             rewrites=[dict(rule="R7", re=r"pub fn set_curr_pkt\(&self,", to="pub fn set_curr_pkt(&mut self,", expect=1, strict=True, why="interior mutability made explicit"),
                       dict(rule="R2", re=r"self\.curr_pkt\.borrow_mut\(\)\.replace\(Rc::new\(obj\)\);", to="self.curr_pkt = Some(Rc::new(obj));", why="RefCell<Option>::replace -> assignment (old value dropped)")]),
        dict(kind="fn", file=M, path="run_buf", props=["C20"],
             # the obligations are run_filters' preconditions at the call: the non-filter statements have run exactly once, NP is 0,
             # nothing has been written; and, when the program has no filter, that nothing pcap is written at all
             requires=["old(w).hdrs().len() == 0", "old(w).pkts().len() == 0", "old(w).stray() == 0", "old(w).input().len() < 0x7fff_ffff_ffff_ffff"],
             ensures=["skip_pcap ==> final(w).hdrs().len() == 0 && final(w).pkts().len() == 0", "final(w).stray() == 0", "final(w).hdrs().len() <= 1",
                      "final(w).hdrs().len() == 1 ==> final(w).hdrs()[0] == old(w).in_hdr()"],
             rewrites=[
                 dict(rule="R7", re=r"skip_pcap: bool\)", to="skip_pcap: bool, w: &mut World)", expect=1, strict=True, why="interior mutability made explicit: stdin/stdout become a &mut World parameter"),
                 dict(rule="R3", re=r"let data = Rc::new\(Object::Null\);\s*let globals = vec!\[data; GLOBALS_SIZE\];", to="let globals = fresh_globals();", why="globals vector construction shim"),
                 dict(rule="R3", re=r"buf\.trim\(\)\.is_empty\(\)", to="str_trim_is_empty(&buf)", why="str::trim().is_empty() shim"),
                 dict(rule="R3", re=r"Compiler::new\(\)", to="compiler_new()", why="opaque constructor shim"),
                 dict(rule="R3", re=r"compiler\.compile\(program\)", to="compiler_compile(&mut compiler, program)", why="Compiler::compile shim"),
                 dict(rule="R3f", re=r"eprintln!\(\"\{\}\", e\);", to="eprint_compile_error(e);", why="eprintln! -> output shim"),
                 dict(rule="R3", re=r"compiler\.bytecode\(\)", to="compiler_bytecode(&compiler)", why="Compiler::bytecode shim"),
                 dict(rule="R3", re=r"let filters = bytecode\.filters\.clone\(\);\s*let filter_end = bytecode\.filter_end\.clone\(\);", to="let (filters, filter_end) = bytecode_filters(&bytecode);", why="field clones of an opaque type -> shim"),
                 dict(rule="R3", re=r"VM::new_with_global_store\(bytecode, globals\)", to="vm_new_with_global_store(bytecode, globals)", why="VM constructor behind its contract"),
                 dict(rule="R3", re=r"init_builtin_vars\(&vm, args\)", to="init_builtin_vars(&mut vm, args)", why="interior mutability made explicit"),
                 dict(rule="R3", re=r"// Get the object at the top of the VM's stack\s*let stack_elem = vm\.last_popped\(\);\s*// print last popped element if it is not null\s*if !matches!\(stack_elem\.as_ref\(\), Object::Null\) \{\s*println!\(\"\{\}\", stack_elem\);\s*\}", to="vm_print_last_popped(&vm);", why="printing of the last popped value -> output shim"),
                 dict(rule="R3", re=r"run_filters\(vm, filters, filter_end, skip_pcap\)", to="run_filters(&mut vm, filters, filter_end, skip_pcap, w)", why="matches the rewritten signature of run_filters"),
             ]),
        dict(kind="fn", file=M, path="run_filters", props=["C20"],
             attrs=["#[verifier::exec_allows_no_decreases_clause]"],
             requires=["old(vm).builtinvars@.len() >= 6", "int_obj(old(vm).builtinvars@[1], 0)", "old(vm).runs@ == 1",
                       "old(vm).pushes@.len() == 0", "old(vm).exp@.len() == 0",
                       "old(w).hdrs().len() == 0", "old(w).pkts().len() == 0", "old(w).stray() == 0",
                       "old(w).input().len() < 0x7fff_ffff_ffff_ffff"],
             ensures=[
                 # with -s stdout carries no pcap bytes
                 "skip_pcap ==> final(w).hdrs().len() == 0 && final(w).pkts().len() == 0",
                 # otherwise at most one global header, equal to the input's, and no pcap write to any other handle
                 "final(w).hdrs().len() <= 1", "final(w).hdrs().len() == 1 ==> final(w).hdrs()[0] == old(w).in_hdr()", "final(w).stray() == 0",
                 "final(w).hdrs().len() == 0 ==> final(w).pkts().len() == 0",
                 # every filter frame ever pushed is a per-packet run with the right NP/PL/WL/TSS/TSU/packet, or it is the last one and the end filter with NP = packets read
                 "({ let p = final(vm).pushes@; let nread = old(w).input().len() - final(w).input().len(); forall|k: int| 0 <= k < p.len() ==> (filter_push_ok(#[trigger] p[k], old(w).input(), filters@) || (k == p.len() - 1 && end_push_ok(p[k], nread, filter_end))) })",
                 # an end filter is pushed at most once, and only after every per-packet run
                 "({ let p = final(vm).pushes@; forall|k: int| 0 <= k < p.len() - 1 ==> filter_push_ok(#[trigger] p[k], old(w).input(), filters@) })",
             ],
             prologue="let ghost in0 = w.input();",
             rewrites=[
                 dict(rule="R7", re=r"mut vm: VM,", to="vm: &mut VM,", expect=1, strict=True, why="the VM is passed by &mut so that its final ghost record is visible to the postcondition"),
                 dict(rule="R7", re=r"skip_pcap: bool,\n\)", to="skip_pcap: bool,\n    w: &mut World,\n)", expect=1, strict=True, why="interior mutability made explicit: stdin/stdout become a &mut World parameter"),
                 dict(rule="R3", re=r"Pcap::(from_file|new_like|new_with_magic|new)\(", to=r"Pcap::\1_w(w, ", why="pcap constructors take the world"),
                 dict(rule="R3", re=r"\.next_packet\(\)", to=".next_packet_w(w)", why="Pcap::next_packet takes the world"),
                 dict(rule="R3", re=r"\.write_all\(", to=".write_all_w(w, ", why="Pcap::write_all takes the world"),
                 dict(rule="R3", re=r"err\.kind\(\) != io::ErrorKind::UnexpectedEof", to="!is_eof(&err)", why="io::Error::kind comparison shim"),
                 dict(rule="R5", re=r"for filter in &filters (/\*@L1@\*/)\{(/\*@LB1@\*/)", to=r"let mut fj: usize = 0; while fj < filters.len() \1{ let filter = &filters[fj]; fj += 1; \2", expect=1, why="for over &Vec -> index loop in the same order"),
             ],
             loops={
                 0: dict(invariant=BASE, invariant_except_break=[OUT, "count == %s + 1" % NREAD]),
                 1: dict(invariant=BASE + ["fj <= filters@.len()", "%s >= 1" % NREAD, "pkt == in0[%s - 1]" % NREAD, "pkt_of(vm.curr_pkt) == Some(pkt)",
                                           "int_obj(vm.builtinvars@[2], pkt.caplen() as int)", "int_obj(vm.builtinvars@[3], pkt.wirelen() as int)",
                                           "int_obj(vm.builtinvars@[4], pkt.ts_sec() as int)", "int_obj(vm.builtinvars@[5], pkt.ts_usec() as int)",
                                           "count == %s" % NREAD, OUT],
                         decreases="filters@.len() - fj"),
             }),
    ],
    scans=[
        dict(file=I, regex=r"builtinvars\s*\.\s*borrow_mut\(\)", expect=1, props=["C20"],
             clause="builtinvars is written in exactly one place (update_builtin_var): no opcode arm assigns a builtin variable, the frame assumed for VM::run"),
        dict(file=I, regex=r"curr_pkt\s*\.\s*borrow_mut\(\)", expect=1, props=["C20"],
             clause="curr_pkt is written in exactly one place (set_curr_pkt), the frame assumed for VM::run / push / pop"),
    ],
)
