global size_of usize == 8;

// ---- payload types of Object: opaque here ----
#[verifier::external_body] pub struct Array { _p: () }
#[verifier::external_body] pub struct HMap { _p: () }
#[verifier::external_body] pub struct ErrorObj { _p: () }
#[verifier::external_body] pub struct Ethernet { _p: () }
#[verifier::external_body] pub struct Vlan { _p: () }
#[verifier::external_body] pub struct Ipv4Packet { _p: () }
#[verifier::external_body] pub struct Ipv6Packet { _p: () }
#[verifier::external_body] pub struct Udp { _p: () }
#[verifier::external_body] pub struct Tcp { _p: () }
#[verifier::external_body] pub struct BuiltinFunction { _p: () }
#[verifier::external_body] pub struct CompiledFunction { _p: () }
#[verifier::external_body] pub struct Closure { _p: () }
#[verifier::external_body] pub struct RTError { _p: () }
#[verifier::external_body] pub struct IoError { _p: () }
#[verifier::external_body] pub struct PcapGlobalHeader { _p: () }
// the handle kinds run_filters names (the payload-carrying variants Reader/Writer are not constructed here)
pub enum FileHandle { Stdin, Stdout, Stderr }

// a packet as read: its record header fields at read time
#[verifier::external_body] pub struct PcapPacket { _p: () }
impl PcapPacket {
    pub uninterp spec fn caplen(&self) -> u32;
    pub uninterp spec fn wirelen(&self) -> u32;
    pub uninterp spec fn ts_sec(&self) -> u32;
    pub uninterp spec fn ts_usec(&self) -> u32;
    // object/pcap.rs getters: Rc::new(Object::Integer(self.header.borrow().<field> as i64))
    #[verifier::external_body] pub fn get_caplen(&self) -> (r: Rc<Object>) ensures *r == Object::Integer(self.caplen() as i64) { unimplemented!() }
    #[verifier::external_body] pub fn get_wirelen(&self) -> (r: Rc<Object>) ensures *r == Object::Integer(self.wirelen() as i64) { unimplemented!() }
    #[verifier::external_body] pub fn get_ts_sec(&self) -> (r: Rc<Object>) ensures *r == Object::Integer(self.ts_sec() as i64) { unimplemented!() }
    #[verifier::external_body] pub fn get_ts_usec(&self) -> (r: Rc<Object>) ensures *r == Object::Integer(self.ts_usec() as i64) { unimplemented!() }
}

// ---- the world run_filters talks to: the packets still pending on stdin, and what has been written to stdout ----
#[verifier::external_body] pub struct World { _p: () }
impl World {
    pub uninterp spec fn input(&self) -> Seq<Rc<PcapPacket>>;      // records not yet read from stdin, in stream order
    pub uninterp spec fn in_hdr(&self) -> PcapGlobalHeader;        // the global header of the stdin stream
    pub uninterp spec fn hdrs(&self) -> Seq<PcapGlobalHeader>;     // global headers written to stdout
    pub uninterp spec fn pkts(&self) -> Seq<Rc<PcapPacket>>;       // packet records written to stdout
    pub uninterp spec fn stray(&self) -> nat;                      // pcap writes to any other handle
}
pub open spec fn same_out(a: &World, b: &World) -> bool { a.hdrs() == b.hdrs() && a.pkts() == b.pkts() && a.stray() == b.stray() }
pub open spec fn same_in(a: &World, b: &World) -> bool { a.input() == b.input() && a.in_hdr() == b.in_hdr() }

#[verifier::external_body] pub struct Pcap { _p: () }
impl Pcap {
    pub uninterp spec fn hdr(&self) -> PcapGlobalHeader;
    pub uninterp spec fn handle(&self) -> FileHandle;
    pub uninterp spec fn default_hdr(magic: u32) -> PcapGlobalHeader;
    // Pcap::from_file (C19, pcapio/pcapcodec): reads the 24-byte global header from the handle
    #[verifier::external_body] pub fn from_file_w(w: &mut World, file: Rc<FileHandle>) -> (r: Result<Pcap, IoError>)
        ensures same_out(old(w), final(w)), same_in(old(w), final(w)), r matches Ok(p) ==> p.hdr() == old(w).in_hdr() && p.handle() == *file { unimplemented!() }
    // Pcap::new_like / new_with_header (verified in the pcapio unit): writes exactly that header to the handle
    #[verifier::external_body] pub fn new_like_w(w: &mut World, file: Rc<FileHandle>, other: &Pcap) -> (r: Result<Pcap, IoError>)
        ensures same_in(old(w), final(w)), final(w).pkts() == old(w).pkts(),
                r is Err ==> same_out(old(w), final(w)),
                r matches Ok(p) ==> p.hdr() == other.hdr() && p.handle() == *file,
                r is Ok && *file is Stdout ==> final(w).hdrs() == old(w).hdrs().push(other.hdr()) && final(w).stray() == old(w).stray(),
                r is Ok && !(*file is Stdout) ==> final(w).hdrs() == old(w).hdrs() && final(w).stray() == old(w).stray() + 1 { unimplemented!() }
    #[verifier::external_body] pub fn new_with_magic_w(w: &mut World, file: Rc<FileHandle>, magic: u32) -> (r: Result<Pcap, IoError>)
        ensures same_in(old(w), final(w)), final(w).pkts() == old(w).pkts(),
                r is Err ==> same_out(old(w), final(w)),
                r matches Ok(p) ==> p.hdr() == Pcap::default_hdr(magic) && p.handle() == *file,
                r is Ok && *file is Stdout ==> final(w).hdrs() == old(w).hdrs().push(Pcap::default_hdr(magic)) && final(w).stray() == old(w).stray(),
                r is Ok && !(*file is Stdout) ==> final(w).hdrs() == old(w).hdrs() && final(w).stray() == old(w).stray() + 1 { unimplemented!() }
    #[verifier::external_body] pub fn new_w(w: &mut World, file: Rc<FileHandle>) -> (r: Result<Pcap, IoError>)
        ensures same_in(old(w), final(w)), final(w).pkts() == old(w).pkts(),
                r is Err ==> same_out(old(w), final(w)),
                r matches Ok(p) ==> p.hdr() == Pcap::default_hdr(0xA1B2C3D4u32) && p.handle() == *file,
                r is Ok && *file is Stdout ==> final(w).hdrs() == old(w).hdrs().push(Pcap::default_hdr(0xA1B2C3D4u32)) && final(w).stray() == old(w).stray(),
                r is Ok && !(*file is Stdout) ==> final(w).hdrs() == old(w).hdrs() && final(w).stray() == old(w).stray() + 1 { unimplemented!() }
    // Pcap::next_packet (verified in the pcapio unit against the byte-stream model): the next complete record, or an error
    #[verifier::external_body] pub fn next_packet_w(&self, w: &mut World) -> (r: Result<Rc<PcapPacket>, IoError>)
        ensures same_out(old(w), final(w)), final(w).in_hdr() == old(w).in_hdr(),
                r is Err ==> final(w).input() == old(w).input(),
                r matches Ok(p) ==> self.handle() is Stdin && old(w).input().len() > 0 && p == old(w).input()[0] && final(w).input() == old(w).input().skip(1) { unimplemented!() }
    // Pcap::write_all: one packet record to the handle
    #[verifier::external_body] pub fn write_all_w(&self, w: &mut World, pkt: Rc<PcapPacket>) -> (r: Result<usize, IoError>)
        ensures same_in(old(w), final(w)), final(w).hdrs() == old(w).hdrs(),
                r is Err ==> same_out(old(w), final(w)),
                r is Ok && self.handle() is Stdout ==> final(w).pkts() == old(w).pkts().push(pkt) && final(w).stray() == old(w).stray(),
                r is Ok && !(self.handle() is Stdout) ==> final(w).pkts() == old(w).pkts() && final(w).stray() == old(w).stray() + 1 { unimplemented!() }
}
#[verifier::external_body] pub fn is_eof(e: &IoError) -> (r: bool) { unimplemented!() }
#[verifier::external_body] pub fn eprint_any() { }

// ---- the VM as run_filters sees it: the two RefCell-backed fields its helpers write (RefCell erased), and a ghost record of
// what was asked of it. push/run/pop are VM methods under contract in the vmcore unit; here they only record. ----
pub struct PushEv { pub f: Rc<CompiledFunction>, pub bv: Seq<Rc<Object>>, pub cur: Option<Rc<Object>> }
pub struct VM {
    pub builtinvars: Vec<Rc<Object>>,
    pub curr_pkt: Option<Rc<Object>>,
    pub runs: Ghost<nat>,                       // calls of run()
    pub pushes: Ghost<Seq<PushEv>>,             // every filter frame pushed, with the builtin variables and current packet it saw
    pub exp: Ghost<Seq<Rc<PcapPacket>>>,        // the current packet at every pop_filter_frame that returned true
}
pub open spec fn pkt_of(cur: Option<Rc<Object>>) -> Option<Rc<PcapPacket>> {
    match cur { Some(o) => match *o { Object::Packet(p) => Some(p), _ => None }, None => None }
}
impl VM {
    #[verifier::external_body] pub fn push_filter_frame(&mut self, filter: &Rc<CompiledFunction>) -> (r: Result<(), RTError>)
        ensures final(self).builtinvars == old(self).builtinvars, final(self).curr_pkt == old(self).curr_pkt, final(self).runs == old(self).runs, final(self).exp == old(self).exp,
                r is Ok ==> final(self).pushes@ == old(self).pushes@.push(PushEv { f: *filter, bv: old(self).builtinvars@, cur: old(self).curr_pkt }),
                r is Err ==> final(self).pushes == old(self).pushes { unimplemented!() }
    // no opcode writes a builtin variable or the current packet (frame scans below)
    #[verifier::external_body] pub fn run(&mut self) -> (r: Result<(), RTError>)
        ensures final(self).builtinvars == old(self).builtinvars, final(self).curr_pkt == old(self).curr_pkt, final(self).pushes == old(self).pushes, final(self).exp == old(self).exp,
                final(self).runs@ == old(self).runs@ + 1 { unimplemented!() }
    #[verifier::external_body] pub fn pop_filter_frame(&mut self) -> (r: Result<bool, RTError>)
        ensures final(self).builtinvars == old(self).builtinvars, final(self).curr_pkt == old(self).curr_pkt, final(self).runs == old(self).runs, final(self).pushes == old(self).pushes,
                (r matches Ok(b) && b && pkt_of(old(self).curr_pkt) is Some) ==> final(self).exp@ == old(self).exp@.push(pkt_of(old(self).curr_pkt)->Some_0),
                !(r matches Ok(b) && b && pkt_of(old(self).curr_pkt) is Some) ==> final(self).exp == old(self).exp { unimplemented!() }
}

pub open spec fn int_obj(o: Rc<Object>, v: int) -> bool { *o matches Object::Integer(n) && n == v }
pub open spec fn np_of(e: PushEv) -> int { match *e.bv[1] { Object::Integer(n) => n as int, _ => 0 } }
// C20, per filter run: NP is the 1-based index of a packet of the input, the current packet is that packet, and
// PL/WL/TSS/TSU are its record header fields; the filter is one of the program's filters
pub open spec fn filter_push_ok(e: PushEv, in0: Seq<Rc<PcapPacket>>, filters: Seq<Rc<CompiledFunction>>) -> bool {
    let idx = np_of(e);
    &&& e.bv.len() >= 6
    &&& *e.bv[1] is Integer
    &&& 1 <= idx <= in0.len()
    &&& pkt_of(e.cur) == Some(in0[idx - 1])
    &&& int_obj(e.bv[2], in0[idx - 1].caplen() as int)
    &&& int_obj(e.bv[3], in0[idx - 1].wirelen() as int)
    &&& int_obj(e.bv[4], in0[idx - 1].ts_sec() as int)
    &&& int_obj(e.bv[5], in0[idx - 1].ts_usec() as int)
    &&& filters.contains(e.f)
}
// C20, end filter: NP is the number of packets read, PL and WL are null again
pub open spec fn end_push_ok(e: PushEv, nread: int, filter_end: Option<Rc<CompiledFunction>>) -> bool {
    &&& e.bv.len() >= 6
    &&& int_obj(e.bv[1], nread)
    &&& *e.bv[2] == Object::Null
    &&& *e.bv[3] == Object::Null
    &&& filter_end == Some(e.f)
}
pub open spec fn all_filter_pushes(p: Seq<PushEv>, n: int, in0: Seq<Rc<PcapPacket>>, filters: Seq<Rc<CompiledFunction>>) -> bool {
    forall|k: int| 0 <= k < n ==> filter_push_ok(#[trigger] p[k], in0, filters)
}
pub open spec fn bvt_idx(vt: BuiltinVarType) -> int {
    match vt { BuiltinVarType::Argv => 0, BuiltinVarType::NP => 1, BuiltinVarType::PL => 2, BuiltinVarType::WL => 3, BuiltinVarType::Tss => 4, BuiltinVarType::Tsu => 5, BuiltinVarType::Max => 6 }
}

// ---- run_buf: parsing and compiling are opaque here (the driver unit covers them); what matters is the hand-over to run_filters ----
#[verifier::external_body] pub struct Program { _p: () }
#[verifier::external_body] pub struct Compiler { _p: () }
#[verifier::external_body] pub struct CompileError { _p: () }
#[verifier::external_body] pub struct Bytecode { _p: () }
impl Bytecode {
    pub uninterp spec fn filters(&self) -> Seq<Rc<CompiledFunction>>;
    pub uninterp spec fn filter_end(&self) -> Option<Rc<CompiledFunction>>;
}
#[verifier::external_body] pub fn fresh_globals() -> (r: Vec<Rc<Object>>) { unimplemented!() }
#[verifier::external_body] pub fn str_trim_is_empty(s: &String) -> (r: bool) { unimplemented!() }
#[verifier::external_body] pub fn parse_program(s: &String) -> (r: Option<Program>) { unimplemented!() }
#[verifier::external_body] pub fn compiler_new() -> (r: Compiler) { unimplemented!() }
#[verifier::external_body] pub fn compiler_compile(c: &mut Compiler, p: Program) -> (r: Result<(), CompileError>) { unimplemented!() }
#[verifier::external_body] pub fn compiler_bytecode(c: &Compiler) -> (r: Bytecode) { unimplemented!() }
#[verifier::external_body] pub fn eprint_compile_error(e: CompileError) { }
#[verifier::external_body] pub fn bytecode_filters(b: &Bytecode) -> (r: (Vec<Rc<CompiledFunction>>, Option<Rc<CompiledFunction>>))
    ensures r.0@ == b.filters(), r.1 == b.filter_end() { unimplemented!() }
// VM::new_with_global_store: builtinvars = vec![null; BUILTINS_SIZE] (256), no packet, nothing run yet
#[verifier::external_body] pub fn vm_new_with_global_store(b: Bytecode, g: Vec<Rc<Object>>) -> (r: VM)
    ensures r.builtinvars@.len() == 256, r.curr_pkt is None, r.runs@ == 0, r.pushes@.len() == 0, r.exp@.len() == 0 { unimplemented!() }
// init_builtin_vars: six update_builtin_var calls (argv, then null for NP/PL/WL/TSS/TSU)
#[verifier::external_body] pub fn init_builtin_vars(vm: &mut VM, args: Vec<String>)
    ensures final(vm).builtinvars@.len() == old(vm).builtinvars@.len(), final(vm).curr_pkt == old(vm).curr_pkt, final(vm).runs == old(vm).runs,
            final(vm).pushes == old(vm).pushes, final(vm).exp == old(vm).exp { unimplemented!() }
#[verifier::external_body] pub fn vm_print_last_popped(vm: &VM) { }
