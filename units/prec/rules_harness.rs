#[cfg(kani)]
mod verif_prec {
    use super::*;

    // the documented table (docs/language/expression-precedence.md), highest level first
    fn doc_level(tt: TokenType) -> Option<Precedence> {
        use TokenType::*;
        Some(match tt {
            LeftBracket | Dot | LeftParen => Precedence::Call,
            Asterisk | Slash | Modulo => Precedence::Factor,
            Plus | Minus => Precedence::Term,
            LeftShift | RightShift => Precedence::Shift,
            BitwiseAnd => Precedence::BitwiseAnd,
            BitwiseXor => Precedence::BitwiseXor,
            BitwiseOr => Precedence::BitwiseOr,
            Equal | BangEqual | Less | Greater | LessEqual | GreaterEqual => Precedence::Relational,
            LogicalAnd => Precedence::LogicalAnd,
            LogicalOr => Precedence::LogicalOr,
            RangeEx | RangeInc => Precedence::Range,
            Assign => Precedence::Assignment,
            _ => return None,
        })
    }
    fn is_doc_prefix_op(tt: TokenType) -> bool { matches!(tt, TokenType::Bang | TokenType::Minus | TokenType::BitwiseNot) }

    fn any_token_type() -> TokenType {
        let x: usize = kani::any();
        kani::assume(x < TokenType::NumberOfTokens as usize);
        // SAFETY of the harness: TokenType is a field-less enum with contiguous discriminants 0..NumberOfTokens
        unsafe { std::mem::transmute::<u8, TokenType>(x as u8) }
    }

    // C03: the rule table equals the documented table for EVERY token type
    #[kani::proof]
    #[kani::unwind(80)]
    fn c03_parse_rules_table() {
        let tt = any_token_type();
        let rule = &PARSE_RULES[tt as usize];
        match doc_level(tt) {
            Some(p) => {
                assert!(rule.precedence == p);
                assert!(rule.infix.is_some());
            }
            None => {
                assert!(rule.precedence == Precedence::Lowest);
                assert!(rule.infix.is_none());
            }
        }
        // operators of equal precedence group left to right; assignment groups right to left
        if tt == TokenType::Assign { assert!(rule.associativity == Associativity::Right); }
        else if doc_level(tt).is_some() && tt != TokenType::RangeEx && tt != TokenType::RangeInc {
            assert!(rule.associativity == Associativity::Left);
        }
        // prefix operators have a prefix parser
        if is_doc_prefix_op(tt) { assert!(rule.prefix.is_some()); }
        // invariant the Pratt loop needs to terminate: a token that can continue an expression has an infix parser
        if rule.precedence > Precedence::Lowest { assert!(rule.infix.is_some()); }
        kani::cover!(tt == TokenType::Assign);
        kani::cover!(tt == TokenType::End);
    }

    // Precedence: derived ordering is the discriminant order, From<usize> is the inverse of `as usize`
    #[kani::proof]
    fn c03_precedence_order() {
        let (a, b): (usize, usize) = (kani::any(), kani::any());
        kani::assume(a <= 15 && b <= 15);
        let (pa, pb) = (Precedence::from(a), Precedence::from(b));
        assert!(pa as usize == a && pb as usize == b);
        assert!((pa < pb) == (a < b));
        assert!((pa <= pb) == (a <= b));
        assert!((pa == pb) == (a == b));
    }
}
