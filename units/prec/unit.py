UNIT = dict(
    name="prec",
    appends=[("src/parser/rules.rs", "units/prec/rules_harness.rs")],
    harnesses=[
        dict(name="c03_parse_rules_table", props=["C03", "C01"], kind="complete",
             clause="PARSE_RULES[tt] for every TokenType: precedence/infix/associativity equal the documented table; precedence > Lowest implies an infix parser"),
        dict(name="c03_precedence_order", props=["C03"], kind="complete",
             clause="Precedence: derived < and <= are the discriminant order; From<usize> inverse of `as usize` (16x16)"),
    ],
)
