// ---- representation invariant of the scanner cursor (C01) ----
pub open spec fn wf(s: &Scanner) -> bool {
    &&& s.read_position == s.position + 1
    &&& (s.position < s.input@.len() ==> s.ch == s.input@[s.position as int])
    &&& (s.position >= s.input@.len() ==> s.ch == '\0')
}

// at most ROOM straight-line read_char calls happen per token beyond the end of input
pub open spec fn room(s: &Scanner, k: int) -> bool {
    s.read_position + k <= usize::MAX
}

// characters left before the end of input (0 once the cursor has run past it)
pub open spec fn remaining(s: &Scanner) -> int {
    if s.position <= s.input@.len() { s.input@.len() - s.position } else { 0 }
}

// a Vec<char> cannot hold anywhere near usize::MAX elements (4-byte elements, isize::MAX bytes)
pub open spec fn cap(s: &Scanner) -> bool { s.input@.len() + 16 < usize::MAX }

pub open spec fn same_input(a: &Scanner, b: &Scanner) -> bool { a.input@ == b.input@ }

// ---- std shims (R3): bodies are the original calls ----
#[verifier::external_body]
pub fn chars_to_string(v: &Vec<char>, a: usize, b: usize) -> (r: String)
    requires a <= b <= v@.len()
{
    v[a..b].iter().collect()
}

#[verifier::external_body]
pub fn char_to_string(c: char) -> (r: String) { c.to_string() }

#[verifier::external_body]
pub fn fmt_two(a: char, b: char) -> (r: String) { format!("{}{}", a, b) }

#[verifier::external_body]
pub fn string_eq_str(a: &String, b: &str) -> (r: bool) { a == b }

#[verifier::external_body]
pub fn str_chars(s: &str) -> (r: Vec<char>) { s.chars().collect::<Vec<char>>() }

pub uninterp spec fn spec_is_alphabetic(c: char) -> bool;
pub uninterp spec fn spec_is_alphanumeric(c: char) -> bool;
pub uninterp spec fn spec_is_numeric(c: char) -> bool;
// char::is_ascii_digit is documented (and implemented) as '0' ..= '9'
pub open spec fn spec_is_ascii_digit(c: char) -> bool { '0' <= c && c <= '9' }
pub uninterp spec fn spec_is_ascii_hexdigit(c: char) -> bool;

// Unicode classification is uninterpreted except for the one fact the termination argument
// needs: NUL (the scanner's end-of-input sentinel) is in none of the classes.
#[verifier::external_body]
pub fn c_is_alphabetic(c: char) -> (r: bool)
    ensures r == spec_is_alphabetic(c), c == '\0' ==> !r
{ c.is_alphabetic() }
#[verifier::external_body]
pub fn c_is_alphanumeric(c: char) -> (r: bool)
    // std: is_alphanumeric(c) = is_alphabetic(c) || is_numeric(c)
    ensures r == spec_is_alphanumeric(c), c == '\0' ==> !r, spec_is_alphabetic(c) ==> r
{ c.is_alphanumeric() }
#[verifier::external_body]
pub fn c_is_ascii_digit(c: char) -> (r: bool)
    ensures r == spec_is_ascii_digit(c), c == '\0' ==> !r
{ c.is_ascii_digit() }
#[verifier::external_body]
pub fn c_is_ascii_hexdigit(c: char) -> (r: bool)
    ensures r == spec_is_ascii_hexdigit(c), c == '\0' ==> !r
{ c.is_ascii_hexdigit() }
#[verifier::external_body]
pub fn c_is_ascii(c: char) -> (r: bool) { c.is_ascii() }

// R6: KEYWORDS lookup; no obligation of this unit depends on which keyword is returned
#[verifier::external_body]
pub fn keywords_get(k: &String) -> (r: Option<&'static TokenType>) { unimplemented!() }

#[verifier::external_body]
pub fn sl<T, const N: usize>(a: &[T; N]) -> (r: &[T])
    ensures r@ == a@
{ a }

#[verifier::external_body]
pub fn str_to_string(s: &str) -> (r: String) { s.to_string() }
