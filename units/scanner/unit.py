S = "src/scanner/mod.rs"
T = "src/scanner/token.rs"

RW = [
    dict(rule="R3", re=r"self\.input\[(\w+)\.\.self\.position\]\.iter\(\)\.collect\(\)", to=r"chars_to_string(&self.input, \1, self.position)", why="slice of chars collected to String -> shim with the slice bounds as precondition"),
    dict(rule="R3", re=r"self\.input\[self\.position\]\.to_string\(\)", to=r"char_to_string(self.input[self.position])", why="char::to_string shim"),
    dict(rule="R3", re=r"&(self\.ch|the_byte)\.to_string\(\)", to=r"&char_to_string(\1)", why="char::to_string shim"),
    dict(rule="R3f", re=r"&format!\(\"\{\}\{\}\", (\w+), ([\w\[\]\.]+)\)", to=r"&fmt_two(\1, \2)", why="format! of two chars -> shim"),
    dict(rule="R3", re=r"([\w\.]+)\.is_alphabetic\(\)", to=r"c_is_alphabetic(\1)", why="unicode class shim (uninterpreted)"),
    dict(rule="R3", re=r"([\w\.]+)\.is_alphanumeric\(\)", to=r"c_is_alphanumeric(\1)", why="unicode class shim (uninterpreted)"),
    dict(rule="R3", re=r"([\w\.]+)\.is_ascii_digit\(\)", to=r"c_is_ascii_digit(\1)", why="char class shim (uninterpreted)"),
    dict(rule="R3", re=r"([\w\.]+)\.is_ascii_hexdigit\(\)", to=r"c_is_ascii_hexdigit(\1)", why="char class shim (uninterpreted)"),
    dict(rule="R3", re=r"([\w\.]+)\.is_ascii\(\)", to=r"c_is_ascii(\1)", why="char class shim (uninterpreted)"),
    dict(rule="R3", re=r"identifier == \"b\"", to=r'string_eq_str(&identifier, "b")', why="String == &str shim"),
    dict(rule="R6", re=r"KEYWORDS\.get\(&identifier\)", to=r"keywords_get(&identifier)", why="lazy_static lookup shim"),
    dict(rule="R3", re=r"&\[(\s*\('[^']'\s*,\s*TokenType::\w+\)\s*(?:,\s*\('[^']'\s*,\s*TokenType::\w+\)\s*)*,?\s*)\]", to=r"sl(&[\1])", why="array literal to slice: unsizing made explicit"),
    dict(rule="R3", re=r"source\.chars\(\)\.collect::<Vec<char>>\(\)", to=r"str_chars(source)", why="str::chars().collect() shim"),
]

WF_IN = ["wf(old(self))"]
WF_OUT = ["wf(final(self))", "same_input(old(self), final(self))"]

# token readers: entered on a non-NUL character inside the input, they stay inside it and make progress
RD_IN = ["wf(old(self))", "cap(old(self))", "old(self).position < old(self).input@.len()"]
RD_OUT = ["wf(final(self))", "same_input(old(self), final(self))", "final(self).position > old(self).position",
          "final(self).position <= old(self).input@.len()", "final(self).line == old(self).line"]
RD_INV = ["wf(self)", "self.input@ == old(self).input@", "cap(self)", "self.position >= old(self).position",
          "self.position <= self.input@.len()", "self.line == old(self).line", "position == old(self).position"]

def m(path, **kw):
    d = dict(kind="fn", file=S, path="Scanner::" + path, props=["C01"])
    d.update(kw)
    return d

UNIT = dict(
    name="scanner",
    prelude="units/scanner/prelude.rs",
    global_rewrites=RW,
    items=[
        dict(kind="enum", file=T, path="TokenType", attrs=["#[derive(Eq, PartialEq, Copy, Clone)]"]),
        dict(kind="struct", file=T, path="Token"),
        dict(kind="fn", file=T, path="Token::new", ret="r", ensures=["r.ttype == ttype", "r.line == line"], props=["C01"],
             rewrites=[dict(rule="R3", re=r"literal\.to_string\(\)", to="str_to_string(literal)", expect=1, why="str::to_string shim")]),
        dict(kind="struct", file=S, path="Scanner"),
        m("read_char", requires=["room(old(self), 1)", "old(self).read_position == old(self).position + 1 || old(self).read_position == 0"],
          ensures=["wf(final(self))", "same_input(old(self), final(self))", "final(self).position == old(self).read_position",
                   "final(self).line == old(self).line"]),
        m("peek_char", ret="r", requires=WF_IN, ensures=["*final(self) == *old(self)",
                   "old(self).read_position < old(self).input@.len() ==> r == old(self).input@[old(self).read_position as int]",
                   "old(self).read_position >= old(self).input@.len() ==> r == '\\0'"]),
        m("make_token", ret="r", ensures=["r.ttype == ttype", "r.line == self.line"]),
        m("make_token_ch", ret="r", ensures=["r.ttype == ttype"]),
        m("make_token_twin", ret="r", requires=WF_IN + ["room(old(self), 1)", "next@.len() >= 1"],
          ensures=WF_OUT + ["final(self).position <= old(self).position + 1", "final(self).position >= old(self).position",
                            "final(self).line == old(self).line"]),
        m("is_identifier_first", ret="r", ensures=["ch == '\\0' ==> !r", "r == (spec_is_alphabetic(ch) || ch == '_')"]),
        m("is_identifier_remaining", ret="r", ensures=["ch == '\\0' ==> !r", "r == (spec_is_alphanumeric(ch) || ch == '_')", "spec_is_alphabetic(ch) ==> r"]),
        m("lookup_identifier", ret="r"),
        m("skip_whitespace", requires=WF_IN + ["cap(old(self))", "old(self).line + remaining(old(self)) < usize::MAX"],
          ensures=WF_OUT + ["final(self).position >= old(self).position",
                            "old(self).position <= old(self).input@.len() ==> final(self).position <= old(self).input@.len()",
                            "old(self).position >= old(self).input@.len() ==> *final(self) == *old(self)",
                            "final(self).line + remaining(final(self)) <= old(self).line + remaining(old(self))"],
          loops={0: dict(invariant=["wf(self)", "self.input@ == old(self).input@", "self.position >= old(self).position", "cap(self)",
                                    "old(self).position >= old(self).input@.len() ==> *self == *old(self)",
                                    "old(self).position <= old(self).input@.len() ==> self.position <= self.input@.len()",
                                    "self.line + remaining(self) <= old(self).line + remaining(old(self))",
                                    "old(self).line + remaining(old(self)) < usize::MAX"],
                         decreases="remaining(self)")}),
        m("skip_comments", requires=WF_IN + ["cap(old(self))", "old(self).line + remaining(old(self)) < usize::MAX"],
          ensures=WF_OUT + ["final(self).position >= old(self).position",
                            "old(self).position <= old(self).input@.len() ==> final(self).position <= old(self).input@.len()",
                            "old(self).position >= old(self).input@.len() ==> *final(self) == *old(self)",
                            "final(self).line + remaining(final(self)) <= old(self).line + remaining(old(self))"],
          loops={0: dict(invariant=["wf(self)", "self.input@ == old(self).input@", "self.position >= old(self).position", "cap(self)",
                                    "old(self).position >= old(self).input@.len() ==> *self == *old(self)",
                                    "old(self).position <= old(self).input@.len() ==> self.position <= self.input@.len()",
                                    "self.line + remaining(self) <= old(self).line + remaining(old(self))",
                                    "old(self).line + remaining(old(self)) < usize::MAX"],
                         body_prologue=" let ghost p0 = self.position; ",
                         decreases="remaining(self)"),
                 1: dict(invariant=["wf(self)", "self.input@ == old(self).input@", "cap(self)",
                                    "self.position >= p0", "p0 >= old(self).position",
                                    "self.line + remaining(self) <= old(self).line + remaining(old(self))",
                                    "old(self).line + remaining(old(self)) < usize::MAX"],
                         invariant_except_break=["self.position < self.input@.len()"],
                         ensures=["self.position <= self.input@.len()", "self.position > p0"],
                         decreases="remaining(self)")}),
        m("read_identifier", ret="r", requires=RD_IN + ["spec_is_alphabetic(old(self).ch) || old(self).ch == '_'"], ensures=RD_OUT,
          loops={0: dict(invariant=RD_INV + ["self.position > old(self).position || (self.position == old(self).position && (spec_is_alphabetic(self.ch) || self.ch == '_'))"], decreases="remaining(self)"),
                 1: dict(invariant=RD_INV + ["self.position > old(self).position"], decreases="remaining(self)")}),
        m("read_number", ret="r", requires=RD_IN + ["spec_is_ascii_digit(old(self).ch) || (old(self).ch == '.' && old(self).read_position < old(self).input@.len() && spec_is_ascii_digit(old(self).input@[old(self).read_position as int]))"], ensures=RD_OUT,
          loops={0: dict(invariant=RD_INV + ["self.position > old(self).position || *self == *old(self)"], decreases="remaining(self)"),
                 1: dict(invariant=RD_INV + ["self.position > old(self).position"], decreases="remaining(self)"),
                 2: dict(invariant=RD_INV + ["self.position > old(self).position"], decreases="remaining(self)"),
                 3: dict(invariant=RD_INV + ["self.position > old(self).position"], decreases="remaining(self)")}),
        m("read_string", ret="r", requires=RD_IN, ensures=RD_OUT,
          loops={0: dict(invariant=RD_INV[:-1] + ["position == old(self).position + 1"],
                         invariant_except_break=["self.position < self.input@.len()"],
                         ensures=["self.position > old(self).position"], decreases="remaining(self)")}),
        m("read_char_token", ret="r", requires=RD_IN, ensures=RD_OUT,
          loops={0: dict(invariant=RD_INV + ["self.position > old(self).position"], decreases="remaining(self)")}),
        m("read_range", ret="r", requires=RD_IN + ["old(self).read_position < old(self).input@.len()"], ensures=RD_OUT),
        m("read_dot", ret="r", requires=RD_IN, ensures=RD_OUT),
        m("next_token", ret="tok", requires=WF_IN + ["cap(old(self))", "room(old(self), 2)", "old(self).line + remaining(old(self)) < usize::MAX"],
          ensures=WF_OUT + ["final(self).position > old(self).position",
                            "old(self).position <= old(self).input@.len() ==> final(self).position <= old(self).input@.len() + 1",
                            "old(self).position >= old(self).input@.len() ==> tok.ttype == TokenType::Eof",
                            "final(self).line + remaining(final(self)) <= old(self).line + remaining(old(self))"]),
        m("new", ret="r", ensures=["wf(&r)", "r.position == 0"]),
    ],
)
