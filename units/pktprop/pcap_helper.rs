#[cfg(kani)]
impl PcapPacket {
    pub fn verif_new(hdr: &[u8; 16], raw: Vec<u8>) -> Self {
        PcapPacket {
            header: RefCell::new(PcapPacketHeader::from_bytes(hdr).unwrap()),
            inner: RefCell::new(None),
            rawdata: RefCell::new(Rc::new(raw)),
        }
    }
}
