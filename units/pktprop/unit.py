def h(name, props, clause, kind="bounded", **kw):
    d = dict(name=name, props=props, kind=kind, clause=clause)
    d.update(kw)
    return d

UNIT = dict(
    name="pktprop",
    appends=[("src/vm/interpreter.rs", "units/pktprop/vm_helper.rs"), ("src/builtins/pcap.rs", "units/pktprop/pcap_helper.rs"),
             ("src/vm/pktprop.rs", "units/pktprop/harness.rs")],
    harnesses=[h("c15_path_%s" % n, ["C15", "C16"],
                 "on a 48-byte frame (dispatch bytes %s fixed, every other byte symbolic): $n descends to the layer kinds the dispatch fields select, caching each layer, and the packet then still serialises to record header ++ captured bytes" % n.replace("_", "/"),
                 bound="frame length 48 bytes; IPv4 without options; one dispatch path per harness")
               for n in ("eth_ipv4_udp", "eth_ipv4_tcp", "eth_vlan_ipv4_udp", "eth_vlan_ipv4", "eth_unknown", "eth_ipv4_unknown")],
    jobs=6,
)
