def h(name, props, clause, kind="bounded", **kw):
    d = dict(name=name, props=props, kind=kind, clause=clause)
    d.update(kw)
    return d

UNIT = dict(
    name="pktprop",
    appends=[("src/vm/interpreter.rs", "units/pktprop/vm_helper.rs"), ("src/builtins/pcap.rs", "units/pktprop/pcap_helper.rs"),
             ("src/vm/pktprop.rs", "units/pktprop/harness.rs")],
    harnesses=[h("c15_dollar_%d_then_serialise" % d, ["C15", "C16"],
                 "on a 48-byte frame with symbolic content (EtherType/protocol symbolic, IHL 5): $%d succeeds, the layer kind follows the dispatch field, and the packet still serialises to record header ++ captured bytes" % d,
                 bound="frame length 48 bytes; IPv4 without options") for d in (1, 2, 3, 4)],
    jobs=4,
)
