#[cfg(kani)]
mod verif_pktprop {
    use super::*;

    // Ethernet(14) + VLAN(4) + IPv4(20, IHL 5) + UDP(8) + 2 payload bytes, everything else symbolic:
    // the EtherType / protocol bytes are symbolic, so every dispatch branch of get_inner is explored
    fn stub_format(_args: std::fmt::Arguments<'_>) -> String { String::new() }
    const N: usize = 48;
    fn frame() -> [u8; N] {
        let mut a: [u8; N] = kani::any();
        // keep CBMC's allocation sizes concrete: an IPv4 header, if reached, has no options
        a[14] = 0x45; a[18] = 0x45;
        a
    }
    fn layer_kind(o: &Object) -> u8 {
        match o { Object::Packet(_) => 0, Object::Eth(_) => 1, Object::Vlan(_) => 2, Object::Ipv4(_) => 3, Object::Ipv6(_) => 4,
                  Object::Udp(_) => 5, Object::Tcp(_) => 6, Object::Null => 7, Object::Err(_) => 8, _ => 9 }
    }

    // C15: after `$depth` (which parses and caches every layer on the way) the packet still serialises to
    // record header ++ captured bytes.  C16: the layer kinds follow EtherType / protocol / next header.
    // The dispatch bytes are fixed per harness (one path each); every other byte of the frame is symbolic.
    fn check_dollar(depth: usize, et: u16, vlan_et: Option<u16>, proto: Option<u8>, expect: &[u8]) {
        let hdr: [u8; 16] = kani::any();
        let mut a = frame();
        a[12] = (et >> 8) as u8; a[13] = et as u8;
        let mut l3 = 14;
        if let Some(v) = vlan_et { a[16] = (v >> 8) as u8; a[17] = v as u8; l3 = 18; }
        if let Some(p) = proto {
            let l3et = vlan_et.unwrap_or(et);
            if l3et == 0x0800 { a[l3 + 9] = p; } else if l3et == 0x86DD { a[l3 + 6] = p; }
        }
        let pkt = Rc::new(PcapPacket::verif_new(&hdr, a.to_vec()));
        let root = Rc::new(Object::Packet(pkt.clone()));
        let vm = VM::verif_empty();
        let r = vm.get_inner(&root, depth, 1);
        match &r {
            Ok(o) => assert!(layer_kind(o) == expect[depth]),
            Err(_) => assert!(false),
        }
        let out: Vec<u8> = pkt.as_ref().into();
        assert!(out.len() == 16 + N);
        let i: usize = kani::any();
        kani::assume(i < 16 + N);
        assert!(out[i] == if i < 16 { hdr[i] } else { a[i - 16] });
        kani::cover!(true);
        std::mem::forget(out); std::mem::forget(r); std::mem::forget(vm); std::mem::forget(root); std::mem::forget(pkt);
    }
    // kinds: 0 packet, 1 eth, 2 vlan, 3 ipv4, 4 ipv6, 5 udp, 6 tcp, 7 null
    #[kani::proof] #[kani::stub(alloc::fmt::format, stub_format)] fn c15_path_eth_ipv4_udp() { check_dollar(3, 0x0800, None, Some(17), &[0, 1, 3, 5]); }
    #[kani::proof] #[kani::stub(alloc::fmt::format, stub_format)] fn c15_path_eth_ipv4_tcp() { check_dollar(3, 0x0800, None, Some(6), &[0, 1, 3, 6]); }
    #[kani::proof] #[kani::stub(alloc::fmt::format, stub_format)] fn c15_path_eth_vlan_ipv4_udp() { check_dollar(4, 0x8100, Some(0x0800), Some(17), &[0, 1, 2, 3, 5]); }
    #[kani::proof] #[kani::stub(alloc::fmt::format, stub_format)] fn c15_path_eth_vlan_ipv4() { check_dollar(3, 0x8100, Some(0x0800), Some(17), &[0, 1, 2, 3]); }
    #[kani::proof] #[kani::stub(alloc::fmt::format, stub_format)] fn c15_path_eth_unknown() { check_dollar(2, 0x0806, None, None, &[0, 1, 7]); }
    #[kani::proof] #[kani::stub(alloc::fmt::format, stub_format)] fn c15_path_eth_ipv4_unknown() { check_dollar(3, 0x0800, None, Some(1), &[0, 1, 3, 7]); }
}
