#[cfg(kani)]
mod verif_pktprop {
    use super::*;

    // Ethernet(14) + VLAN(4) + IPv4(20, IHL 5) + UDP(8) + 2 payload bytes, everything else symbolic:
    // the EtherType / protocol bytes are symbolic, so every dispatch branch of get_inner is explored
    const N: usize = 48;
    fn frame() -> [u8; N] {
        let mut a: [u8; N] = kani::any();
        // keep CBMC's allocation sizes concrete: an IPv4 header, if reached, has no options
        a[14] = 0x45; a[18] = 0x45;
        a
    }
    fn layer_kind(o: &Object) -> u8 {
        match o { Object::Packet(_) => 0, Object::Eth(_) => 1, Object::Vlan(_) => 2, Object::Ipv4(_) => 3, Object::Ipv6(_) => 4,
                  Object::Udp(_) => 5, Object::Tcp(_) => 6, Object::Null => 7, Object::Err(_) => 8, _ => 9 }
    }

    // C15: after `$depth` (which parses and caches every layer on the way) the packet still serialises to
    // record header ++ captured bytes.  C16: the layer kinds follow EtherType / protocol.
    fn check_dollar(depth: usize) {
        let hdr: [u8; 16] = kani::any();
        let a = frame();
        let pkt = Rc::new(PcapPacket::verif_new(&hdr, a.to_vec()));
        let root = Rc::new(Object::Packet(pkt.clone()));
        let vm = VM::verif_empty();
        let r = vm.get_inner(&root, depth, 1);
        match &r {
            Ok(o) => {
                let k = layer_kind(o);
                let et = ((a[12] as u16) << 8) | a[13] as u16;
                if depth == 1 { assert!(k == 1); }
                if depth == 2 {
                    // the layer after Ethernet is selected by the EtherType; anything else is null
                    assert!(k == (if et == 0x8100 { 2 } else if et == 0x0800 { 3 } else if et == 0x86DD { 4 } else { 7 }) || k == 8);
                    if et == 0x8100 || et == 0x0800 { assert!(k != 8); }   // 34 bytes follow: VLAN and IPv4 headers fit
                }
            }
            Err(_) => assert!(false),
        }
        let out: Vec<u8> = pkt.as_ref().into();
        assert!(out.len() == 16 + N);
        let i: usize = kani::any();
        kani::assume(i < 16 + N);
        assert!(out[i] == if i < 16 { hdr[i] } else { a[i - 16] });
        kani::cover!(true);
        std::mem::forget(out); std::mem::forget(r); std::mem::forget(vm); std::mem::forget(root); std::mem::forget(pkt);
    }
    #[kani::proof] fn c15_dollar_1_then_serialise() { check_dollar(1); }
    #[kani::proof] fn c15_dollar_2_then_serialise() { check_dollar(2); }
    #[kani::proof] fn c15_dollar_3_then_serialise() { check_dollar(3); }
    #[kani::proof] fn c15_dollar_4_then_serialise() { check_dollar(4); }
}
