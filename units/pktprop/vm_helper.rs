#[cfg(kani)]
impl VM {
    // an empty VM for harnesses of methods that do not touch the stacks (exec_prop_*, get_inner)
    pub fn verif_empty() -> VM {
        VM {
            constants: Vec::new(),
            stack: Vec::new(),
            sp: 0,
            globals: Vec::new(),
            builtinvars: RefCell::new(Vec::new()),
            frames: Vec::new(),
            frames_index: 0,
            curr_pkt: RefCell::new(None),
        }
    }
}
