F = "src/builtins/functions.rs"
OB = "src/object/mod.rs"

UNIT = dict(
    name="fileio",
    prelude=["units/common/objtypes.rs", "units/fileio/prelude.rs"],
    uses="use std::rc::Rc;",
    lemmas={},
    items=[
        dict(kind="raw", label="opaque_fn_types", text="#[verifier::external_body] pub struct CompiledFunction { _p: () }\n#[verifier::external_body] pub struct Closure { _p: () }\n"),
        dict(kind="enum", file=OB, path="Object"),
        dict(kind="fn", file=F, path="read_from_file", ret="r",
             ensures=[
                 # either an error object, or exactly the next min(n, remaining) bytes, consumed from the stream
                 "*r is Err || (*r matches Object::Arr(a) && arr_is_bytes(a@, old(reader).rem().subrange(0, min(num_bytes_to_read as int, old(reader).rem().len() as int))))",
                 "!(*r is Err) ==> final(reader).rem() == old(reader).rem().skip(min(num_bytes_to_read as int, old(reader).rem().len() as int))",
             ],
             props=["C21", "C22"],
             rewrites=[
                 dict(rule="R7", re=r"fn read_from_file<R: Read>\(reader: &mut R,", to="fn read_from_file(reader: &mut Stream,", expect=1, why="generic reader -> the stream model carrying std::io::Read's contract"),
                 dict(rule="R3", re=r"let mut buffer = \[0; 4096\];", to="let buffer_len: usize = 4096;", expect=1, why="the fixed read buffer lives inside the read shim; only its length is kept"),
                 dict(rule="R3", re=r"buffer\.len\(\)\.min\(bytes_remaining\)", to="usize_min(buffer_len, bytes_remaining)", expect=1, why="usize::min shim"),
                 dict(rule="R3", re=r"let buf_slice = &mut buffer\[\.\.read_len\];\s*match reader\.read\(buf_slice\) \{", to="let (rd, buf_slice) = stream_read(reader, read_len); match rd {", expect=1, why="Read::read on the first read_len bytes of the buffer -> stream shim returning the filled buffer"),
                 dict(rule="R5", re=r"for byte in buf_slice\.iter\(\)\.take\(bytes_read\) (/\*@L1@\*/)\{(/\*@LB1@\*/)", to=r"let mut bi: usize = 0; while bi < bytes_read && bi < buf_slice.len() \1{ let byte = &buf_slice[bi]; bi += 1; \2", expect=1, why="iter().take(n) -> index loop in the same order"),
                 dict(rule="R3", re=r"Rc::new\(Object::Err\(ErrorObj::IO\(e\)\)\)", to="Rc::new(io_error_obj(e))", expect=1, why="error object construction shim"),
                 dict(rule="R3", re=r"Array::new\(result_bytes\)", to="array_new(result_bytes)", expect=1, why="opaque Array constructor shim"),
             ],
             loops={0: dict(invariant=["buffer_len == 4096"], invariant_except_break=[
                        "total_bytes_read <= num_bytes_to_read",
                        "total_bytes_read <= old(reader).rem().len()",
                        "reader.rem() == old(reader).rem().skip(total_bytes_read as int)",
                        "arr_is_bytes(result_bytes@, old(reader).rem().subrange(0, total_bytes_read as int))"],
                        ensures=["arr_is_bytes(result_bytes@, old(reader).rem().subrange(0, min(num_bytes_to_read as int, old(reader).rem().len() as int)))",
                                 "reader.rem() == old(reader).rem().skip(min(num_bytes_to_read as int, old(reader).rem().len() as int))"],
                        decreases="num_bytes_to_read - total_bytes_read"),
                    1: dict(invariant=["bi <= bytes_read", "bytes_read <= buf_slice@.len()", "bytes_read <= read_len",
                                       "total_bytes_read + bytes_read <= old(reader).rem().len()",
                                       "buf_slice@.subrange(0, bytes_read as int) == old(reader).rem().subrange(total_bytes_read as int, total_bytes_read + bytes_read)",
                                       "arr_is_bytes(result_bytes@, old(reader).rem().subrange(0, total_bytes_read + bi))"],
                            body_epilogue=" proof { assert(buf_slice@.subrange(0, bytes_read as int)[bi - 1] == buf_slice@[bi - 1]); assert(old(reader).rem().subrange(total_bytes_read as int, total_bytes_read + bytes_read)[bi - 1] == old(reader).rem()[total_bytes_read + bi - 1]); } ",
                            decreases="bytes_read - bi")}),
    ],
)
