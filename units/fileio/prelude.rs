global size_of usize == 8;

// ---- the stream model: std::io::Read's contract over a ghost sequence of pending bytes ----
#[verifier::external_body]
pub struct Stream { _p: () }
impl Stream { pub uninterp spec fn rem(&self) -> Seq<u8>; }

#[verifier::external_body]
pub struct IoError { _p: () }

// std::io::Read::read(&mut self, buf): "If the return value is Ok(n) then 0 <= n <= buf.len(). A nonzero n
// indicates the buffer has been filled with n bytes from this source. If n is 0 then either the reader has
// reached end of file, or the buffer was 0 bytes long." Any n in that range is allowed: this quantifies over
// every chunking schedule of a pipe or a BufReader.
#[verifier::external_body]
pub fn stream_read(reader: &mut Stream, want: usize) -> (r: (Result<usize, IoError>, Vec<u8>))
    ensures
        r.1@.len() == want,
        match r.0 {
            Ok(k) => k <= want && k <= old(reader).rem().len()
                && (k == 0 ==> (want == 0 || old(reader).rem().len() == 0))
                && r.1@.subrange(0, k as int) == old(reader).rem().subrange(0, k as int)
                && final(reader).rem() == old(reader).rem().skip(k as int),
            Err(_) => final(reader).rem() == old(reader).rem(),
        },
{ unimplemented!() }

pub open spec fn arr_is_bytes(a: Seq<Rc<Object>>, s: Seq<u8>) -> bool {
    a.len() == s.len() && forall|i: int| 0 <= i < a.len() ==> *#[trigger] a[i] == Object::Byte(s[i])
}

pub open spec fn min(a: int, b: int) -> int { if a < b { a } else { b } }

#[verifier::external_body]
pub fn usize_min(a: usize, b: usize) -> (r: usize) ensures r == min(a as int, b as int) { a.min(b) }

#[verifier::external_body]
pub fn array_new(v: Vec<Rc<Object>>) -> (r: Array) ensures r@ == v@ { unimplemented!() }

#[verifier::external_body]
pub fn io_error_obj(e: IoError) -> (r: Object) ensures r is Err { unimplemented!() }
