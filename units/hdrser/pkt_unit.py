"""C15: the pcap record serialiser From<&PcapPacket> for Vec<u8> for every payload length (Verus):
bytes = record header bytes ++ (the cached Ethernet object's bytes | the captured data)."""
from .unit import RW, SER_RW

F = "src/builtins/pcap.rs"
GLUE = '''
pub uninterp spec fn hdr_bytes_pkt(h: PcapPacketHeader) -> Seq<u8>;
#[verifier::external_body]
pub fn header_to_bytes(h: &PcapPacketHeader) -> (r: Vec<u8>) ensures r@ == hdr_bytes_pkt(*h) { unimplemented!() }
#[verifier::external_body]
pub fn clone_hdr_pkt(h: &PcapPacketHeader) -> (r: PcapPacketHeader) ensures r == *h { unimplemented!() }
#[verifier::external_body]
pub fn clone_inner(i: &Option<Rc<Object>>) -> (r: Option<Rc<Object>>) ensures r == *i { unimplemented!() }
'''
UNIT = dict(
    name="hdrser_pkt",
    prelude="units/hdrser/prelude.rs",
    uses="use std::rc::Rc;",
    lemmas={},
    global_rewrites=RW,
    items=[
        dict(kind="raw", label="glue", text=GLUE),
        dict(kind="struct", file=F, path="PcapPacketHeader"),
        dict(kind="struct", file=F, path="PcapPacket"),
        dict(kind="fn", file=F, path="impl From<&PcapPacket> for Vec<u8>::from", free=True, rename="serialise_pkt", ret="r",
             ensures=["pkt.inner is None ==> r@ == hdr_bytes_pkt(pkt.header) + pkt.rawdata@",
                      "pkt.inner matches Some(i) ==> r@ == hdr_bytes_pkt(pkt.header) + obj_bytes(*i)"],
             props=["C15"],
             rewrites=SER_RW + [dict(rule="R3", re=r"bytes\.extend_from_slice\(&pkt\.rawdata\.borrow\(\)\.clone\(\)\);", to="extend_all(&mut bytes, &pkt.rawdata);", expect=1, why="RefCell erased; extend_from_slice shim")]),
    ],
)
