"""Verus half of C15/C16/C08 for the protocol layers: for EVERY buffer length and offset
 - from_bytes never indexes or slices out of bounds, fails exactly when the header does not fit, and sets
   offset = off + header length <= len;
 - From<&Layer> for Vec<u8> returns header bytes ++ (inner object's bytes | rawdata[offset..]).
Field values and header-byte identity are the Kani header harnesses' job (complete over the header bytes)."""
P = "src/builtins/protocols/"

LAYERS = [
    # key, type, header type, file, header size const, has_inner
    ("tcp", "Tcp", "TcpHeader", P + "tcp.rs", "TCP_HEADER_SIZE", 20, False),
    ("udp", "Udp", "UdpHeader", P + "udp.rs", "UDP_HEADER_SIZE", 8, False),
    ("eth", "Ethernet", "EthernetHeader", P + "ethernet.rs", "ETHERNET_HEADER_SIZE", 14, True),
    ("vlan", "Vlan", "VlanHeader", P + "vlan.rs", "VLAN_HEADER_SIZE", 4, True),
    ("ipv6", "Ipv6Packet", "Ipv6Header", P + "ipv6.rs", "IPV6_HEADER_SIZE", 40, True),
    ("ipv4", "Ipv4Packet", "Ipv4Header", P + "ipv4.rs", "IPV4_HEADER_SIZE", 20, True),
]

RW = [
    dict(rule="R2", re=r"RefCell<((?:[^<>]|<(?:[^<>]|<[^<>]*>)*>)*)>", to=r"\1", why="RefCell erased: dynamic borrow flag dropped"),
    dict(rule="R2", re=r"RefCell::new\(((?:[^()]|\([^()]*\))*)\)", to=r"\1", why="RefCell erased"),
    dict(rule="R3", re=r"u16::from_be_bytes\(", to="u16_from_be_bytes(", why="const-generic std fn shim"),
    dict(rule="R3", re=r"u32::from_be_bytes\(", to="u32_from_be_bytes(", why="const-generic std fn shim"),
    dict(rule="R3", re=r"MacAddress::from_bytes\(&rawdata\[([^\]]+?)\.\.([^\]]+?)\]\)", to=r"mac_from_bytes(&rawdata, \1, \2)", why="slice argument -> shim with the slice bounds as precondition"),
    dict(rule="R3", re=r"Ipv4Address::from_bytes\(&rawdata\[\(([^\]]+?)\)\.\.\(([^\]]+?)\)\]\)", to=r"ipv4addr_from_bytes(&rawdata, \1, \2)", why="slice argument -> shim with the slice bounds as precondition"),
    dict(rule="R3", re=r"Ipv6Address::from_bytes\(&rawdata\[([^\]]+?)\.\.([^\]]+?)\]\)", to=r"ipv6addr_from_bytes(&rawdata, \1, \2)", why="slice argument -> shim with the slice bounds as precondition"),
    dict(rule="R3", re=r"std::cmp::max\(", to="usize_max(", why="std::cmp::max shim"),
    dict(rule="R3", re=r"rawdata\[off \+ IPV4_HEADER_SIZE\.\.off \+ hdr_len\]\.to_vec\(\)", to="vec_range_to_vec(&rawdata, off + IPV4_HEADER_SIZE, off + hdr_len)", why="slice.to_vec() shim with the slice bounds as precondition"),
]

SER_RW = [
    dict(rule="R10", re=r"-> /\*@RS@\*/Self", to="-> /*@RS@*/Vec<u8>", why="trait impl -> free fn"),
    dict(rule="R2", re=r"(\w+)\.header\.borrow\(\)\.clone\(\)", to=r"clone_hdr_\1(&\1.header)", why="RefCell erased; derived Clone -> structural copy shim"),
    dict(rule="R10", re=r"let mut bytes: Vec<u8> = \(&header\)\.into\(\);", to="let mut bytes: Vec<u8> = header_to_bytes(&header);", why="From<&Header> for Vec<u8> -> shim carrying the uninterpreted header serialisation"),
    dict(rule="R2", re=r"let data = (\w+)\.rawdata\.borrow\(\)\.clone\(\);", to=r"let data = Rc::clone(&\1.rawdata);", why="RefCell erased; Rc clone"),
    dict(rule="R3", re=r"bytes\.extend_from_slice\(&data\[(\w+)\.offset\.\.\]\);", to=r"extend_from_tail(&mut bytes, &data, \1.offset);", why="&data[offset..] -> shim with the slice bound as precondition"),
    dict(rule="R2", re=r"if let Some\(inner\) = (\w+)\.inner\.borrow\(\)\.clone\(\) \{", to=r"if let Some(inner) = clone_inner(&\1.inner) {", why="RefCell erased; Option<Rc<_>> clone shim"),
    dict(rule="R10", re=r"let (data|b): Vec<u8> = inner\.as_ref\(\)\.into\(\);", to=r"let \1: Vec<u8> = object_to_bytes(&*inner);", why="From<&Object> for Vec<u8> -> shim (uninterpreted bytes of the inner object)"),
    dict(rule="R3", re=r"bytes\.extend_from_slice\(&(data|b)\);", to=r"extend_all(&mut bytes, &\1);", why="extend_from_slice shim"),
]

def unit_for(key, ty, hty, file, hconst, hsize, has_inner):
    var = {"Tcp": "tcp", "Udp": "udp", "Ethernet": "eth", "Vlan": "vlan", "Ipv6Packet": "ipv6", "Ipv4Packet": "ipv4"}[ty]
    hdrlen = "ipv4_hl(rawdata@[off as int])" if key == "ipv4" else str(hsize)
    glue = '''
pub uninterp spec fn hdr_bytes_%(key)s(h: %(hty)s) -> Seq<u8>;
#[verifier::external_body]
pub fn header_to_bytes(h: &%(hty)s) -> (r: Vec<u8>) ensures r@ == hdr_bytes_%(key)s(*h) { unimplemented!() }
#[verifier::external_body]
pub fn clone_hdr_%(var)s(h: &%(hty)s) -> (r: %(hty)s) ensures r == *h { unimplemented!() }
#[verifier::external_body]
pub fn clone_inner(i: &Option<Rc<Object>>) -> (r: Option<Rc<Object>>) ensures r == *i { unimplemented!() }
// RFC 791: header length = 4 * IHL bytes; never less than the 20-byte basic header here
pub open spec fn ipv4_hl(b: u8) -> int { let l = ((b & 0xF) as int) * 4; if l > 20 { l } else { 20 } }
pub const %(hconst)s: usize = %(hsize)d;
''' % dict(key=key, hty=hty, var=var, hconst=hconst, hsize=hsize)
    extra_types = {
        "eth": '#[verifier::external_body] pub struct EtherType { _p: () }\n#[verifier::external_body] pub fn mk_ethertype(v: u16) -> (r: EtherType) { unimplemented!() }\n',
        "vlan": '#[verifier::external_body] pub struct EtherType { _p: () }\n#[verifier::external_body] pub fn mk_ethertype(v: u16) -> (r: EtherType) { unimplemented!() }\n#[verifier::external_body] pub struct ClassOfService { _p: () }\n#[verifier::external_body] pub fn mk_cos(v: u8) -> (r: ClassOfService) { unimplemented!() }\n',
        "ipv6": '#[verifier::external_body] pub struct NextHeader { _p: () }\n#[verifier::external_body] pub fn mk_nh(v: u8) -> (r: NextHeader) { unimplemented!() }\n',
        "ipv4": '#[verifier::external_body] pub struct Protocol { _p: () }\n#[verifier::external_body] pub fn mk_proto(v: u8) -> (r: Protocol) { unimplemented!() }\n',
    }.get(key, "")
    ctor_rw = {
        "eth": [dict(rule="R3", re=r"EtherType\(", to="mk_ethertype(", why="tuple-struct constructor of an opaque type -> shim")],
        "vlan": [dict(rule="R3", re=r"EtherType\(", to="mk_ethertype(", why="tuple-struct constructor shim"), dict(rule="R3", re=r"ClassOfService\(", to="mk_cos(", why="tuple-struct constructor shim")],
        "ipv6": [dict(rule="R3", re=r"NextHeader\(", to="mk_nh(", why="tuple-struct constructor shim")],
        "ipv4": [dict(rule="R3", re=r"Protocol\(", to="mk_proto(", why="tuple-struct constructor shim")],
    }.get(key, [])
    inner_clause = ("(%(v)s.inner matches Some(i) ==> r@ == hdr_bytes_%(key)s(%(v)s.header) + obj_bytes(*i))" % dict(v=var, key=key)) if has_inner else None
    raw_clause = "%s r@ == hdr_bytes_%s(%s.header) + %s.rawdata@.subrange(%s.offset as int, %s.rawdata@.len() as int)" % (
        ("%s.inner is None ==>" % var) if has_inner else "", key, var, var, var, var)
    ser_ens = [raw_clause] + ([inner_clause] if inner_clause else [])
    return dict(
        name="hdrser_" + key,
        prelude="units/hdrser/prelude.rs",
        uses="use std::rc::Rc;",
        lemmas={},
        global_rewrites=RW + ctor_rw,
        items=[
            dict(kind="raw", label="glue", text=extra_types + glue),
            dict(kind="struct", file=file, path=hty),
            dict(kind="struct", file=file, path=ty),
            dict(kind="fn", file=file, path=ty + "::from_bytes", ret="r",
                 requires=["off <= rawdata@.len()", "cap(rawdata@)"],
                 ensures=[
                     # fails exactly when the header does not fit (for every length: no index or slice out of bounds)
                     "r is Err <==> rawdata@.len() < off + %s" % hdrlen,
                     "r matches Ok(l) ==> l.offset == off + %s && l.offset <= rawdata@.len() && l.rawdata == rawdata && l.inner is None" % hdrlen,
                 ], props=["C15", "C16", "C08"],
                 prologue=(" proof { assert(forall|b: u8| #[trigger] ((b & 0xF) & 0xF) == b & 0xF) by(bit_vector); } " if key == "ipv4" else "")),
            dict(kind="fn", file=file, path="impl From<&%s> for Vec<u8>::from" % ty, free=True, rename="serialise_" + key, ret="r",
                 requires=["%s.offset <= %s.rawdata@.len()" % (var, var)],
                 ensures=ser_ens, props=["C15"], rewrites=SER_RW),
        ],
    )

UNITS = {k[0]: unit_for(*k) for k in LAYERS}
UNIT = UNITS["tcp"]

# the pcap record serialiser (same rewrite rules); imported last: pkt_unit needs RW / SER_RW from this module
from . import pkt_unit as _pkt_unit  # noqa: E402
UNITS["pkt"] = _pkt_unit.UNIT
