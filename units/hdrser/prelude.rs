global size_of usize == 8;

#[verifier::external_body] pub struct Object { _p: () }
#[verifier::external_body] pub struct MacAddress { _p: () }
#[verifier::external_body] pub struct Ipv4Address { _p: () }
#[verifier::external_body] pub struct Ipv6Address { _p: () }

pub enum PacketError { InvalidLength(usize), InvalidMacAddress }

// bytes an inner object serialises to (From<&Object> for Vec<u8>): uninterpreted here
pub uninterp spec fn obj_bytes(o: Object) -> Seq<u8>;
#[verifier::external_body]
pub fn object_to_bytes(o: &Object) -> (r: Vec<u8>) ensures r@ == obj_bytes(*o) { unimplemented!() }

// R3 shims: fixed-width integer codecs (values are decided by the Kani header harnesses, not here)
#[verifier::external_body] pub fn u16_from_be_bytes(b: [u8; 2]) -> (r: u16) { u16::from_be_bytes(b) }
#[verifier::external_body] pub fn u32_from_be_bytes(b: [u8; 4]) -> (r: u32) { u32::from_be_bytes(b) }
#[verifier::external_body] pub fn usize_max(a: usize, b: usize) -> (r: usize) ensures r == (if a >= b { a } else { b }) { std::cmp::max(a, b) }

// &v[a..b] passed to an address constructor: the slice bounds are the obligation
#[verifier::external_body]
pub fn mac_from_bytes(v: &Vec<u8>, a: usize, b: usize) -> (r: MacAddress) requires a <= b <= v@.len(), b - a == 6 { unimplemented!() }
#[verifier::external_body]
pub fn ipv4addr_from_bytes(v: &Vec<u8>, a: usize, b: usize) -> (r: Ipv4Address) requires a <= b <= v@.len(), b - a == 4 { unimplemented!() }
#[verifier::external_body]
pub fn ipv6addr_from_bytes(v: &Vec<u8>, a: usize, b: usize) -> (r: Ipv6Address) requires a <= b <= v@.len(), b - a == 16 { unimplemented!() }
#[verifier::external_body]
pub fn vec_range_to_vec(v: &Vec<u8>, a: usize, b: usize) -> (r: Vec<u8>) requires a <= b <= v@.len() ensures r@ == v@.subrange(a as int, b as int) { v[a..b].to_vec() }
// &data[off..] appended to a Vec
#[verifier::external_body]
pub fn extend_from_tail(dst: &mut Vec<u8>, src: &Vec<u8>, off: usize)
    requires off <= src@.len()
    ensures final(dst)@ == old(dst)@ + src@.subrange(off as int, src@.len() as int)
{ dst.extend_from_slice(&src[off..]); }
#[verifier::external_body]
pub fn extend_all(dst: &mut Vec<u8>, src: &Vec<u8>)
    ensures final(dst)@ == old(dst)@ + src@
{ dst.extend_from_slice(src); }

// a Vec<u8> cannot be anywhere near usize::MAX long (isize::MAX bytes at most)
pub open spec fn cap(v: Seq<u8>) -> bool { v.len() + 2048 <= usize::MAX }
