"""Code generator (src/compiler/mod.rs) on its real bodies. Representation invariant: the current scope's byte stream is a
sequence of well-formed instructions whose start positions are known (`starts`), last_ins is the last of them, every
recorded `break` placeholder is the start of a Jump. Every compile_* function is verified against one contract (`gen`):
it only appends to the stream (what was there stays byte for byte, lines included), restores block depth, loop stack and
symbol-table nesting, and never indexes, truncates, patches or subtracts out of range. On top of that: the shapes the
properties name (C06: && / || / if / while jump structure; C13: the operator's instruction carries the operator's line)."""
C = "src/compiler/mod.rs"
CE = "src/compiler/error.rs"
DF = "src/code/definitions.rs"
O = "src/code/opcode.rs"
ST = "src/compiler/symtab.rs"
T = "src/scanner/token.rs"
AE = "src/parser/ast/expr.rs"
AS = "src/parser/ast/stmt.rs"
AM = "src/parser/ast/mod.rs"

RW = [
    dict(rule="R1", re=r"self\.scopes\[self\.scope_index\]\.instructions\.clone\(\)", to="clone_instructions(&self.scopes[self.scope_index].instructions)", why="derived Clone -> structural-copy shim"),
    dict(rule="R1", re=r"self\.scopes\[self\.scope_index\]\.(last_ins|prev_ins)\.clone\(\)", to=r"clone_emitted(&self.scopes[self.scope_index].\1)", why="derived Clone -> structural-copy shim"),
    dict(rule="R3", re=r"definitions::make\(", to="make(", why="module path dropped (single-file extraction)"),
    dict(rule="R3", re=r"definitions::operands_fit\(", to="operands_fit(", why="module path dropped"),
    dict(rule="R3", re=r"msg\.to_string\(\)", to="str_to_string(msg)", why="str::to_string shim"),
    dict(rule="R3", re=r"&\[\]", to="s0()", why="empty array literal to slice -> shim"),
    dict(rule="R3", re=r"&\[(?!usize\]|u8\])([^\[\],]+)\]", to=r"s1(\1)", why="one-element array literal to slice -> shim"),
    dict(rule="R3", re=r"&\[([^\[\],]+), ([^\[\],]+)\]", to=r"s2(\1, \2)", why="two-element array literal to slice -> shim"),
    dict(rule="R3", re=r"self\.scopes\[self\.scope_index\]\.(\w+(?:\.\w+)?) = ([^;]+);", to=r"let verif_tmp = \2; let verif_i = self.scope_index; let mut verif_sc = scope_take(&mut self.scopes, verif_i); verif_sc.\1 = verif_tmp; scope_put(&mut self.scopes, verif_i, verif_sc);", why="assignment to a field of a Vec element -> take/modify/put back (RHS evaluated first)"),
]

PRE = ["cwf(old(self))"]
SAME_SCOPE_REST = ["sc(final(self)).last_ins == sc(old(self)).last_ins", "sc(final(self)).prev_ins == sc(old(self)).prev_ins", "sc(final(self)).loop_stack == sc(old(self)).loop_stack",
                   "sc(final(self)).scope_depth == sc(old(self)).scope_depth", "sc(final(self)).is_filter == sc(old(self)).is_filter"]


def CHG(pos, operand):
    return ["cwf(final(self))", "patched(code(old(self)), code(final(self)), %s as int, %s)" % (pos, operand), "lns(final(self)) == lns(old(self))",
            "sc(final(self)).last_ins == sc(old(self)).last_ins", "sc(final(self)).prev_ins == sc(old(self)).prev_ins", "others_same(old(self), final(self))", "scope_meta_same(old(self), final(self))",
            "starts(code(final(self))) == starts(code(old(self)))", "code(final(self)).len() == code(old(self)).len()",
            "forall|p: int| #[trigger] is_start(old(self), p) ==> op_at(code(final(self)), p) == op_at(code(old(self)), p)",
            "fresh(&sc(old(self))) ==> fresh(&sc(final(self)))",
            "forall|i: int| 0 <= i < code(old(self)).len() && !(%s < i < %s + ilen(op_at(code(old(self)), %s as int))) ==> code(final(self))[i] == code(old(self))[i]" % (pos, pos, pos),
            "forall|a: &Compiler| #[trigger] ext0(a, old(self)) && %s >= code(a).len() ==> ext0(a, final(self))" % pos,
            "forall|a: &Compiler| #[trigger] gen(a, old(self)) && %s >= code(a).len() ==> gen(a, final(self))" % pos,
            "forall|p: int| #[trigger] is_start(old(self), p) ==> is_start(final(self), p)"]


def CHG_EPI(pos):
    return ("lemma_patched(old(self), self, %s as int, operand); assert forall|a: &Compiler| #[trigger] ext0(a, old(self)) && %s >= code(a).len() implies ext0(a, self) by { lemma_patched_ext(a, old(self), self); } assert forall|a: &Compiler| #[trigger] gen(a, old(self)) && %s >= code(a).len() implies gen(a, self) by { lemma_patched_gen(a, old(self), self); }" % (pos, pos, pos))


def m(path, **kw):
    d = dict(kind="fn", file=C, path="Compiler::" + path, props=["C01", "C14"])
    d.update(kw)
    return d


HELPERS = [
    dict(kind="fn", file=O, path="impl From<u8> for Opcode::from", free=True, rename="opcode_from_u8", ret="r",
         rewrites=[dict(rule="R10", re=r"-> /\*@RS@\*/Self", to="-> /*@RS@*/Opcode", expect=1, why="trait impl -> free fn")],
         ensures=["r == op_of(code)"], props=["C14"]),
    dict(kind="fn", file=DF, path="Instructions::len", ret="r", ensures=["r == self.code@.len()"], props=["C14"]),
    dict(kind="fn", file=CE, path="CompileError::new", ret="r", ensures=["r.line == line"], props=["C13"]),
    dict(kind="fn", file=C, path="EmittedInstruction::new", ret="r", ensures=["r.opcode == opcode", "r.position == position"], props=["C14"]),
    m("get_curr_instructions", ret="r", requires=["self.scope_index < self.scopes@.len()"], ensures=["r == sc(self).instructions"]),
    m("check_operands", ensures=["fits_all(op, operands@) || final(self).encoding_error is Some", "old(self).encoding_error is Some ==> final(self).encoding_error is Some",
                                 "final(self).scopes == old(self).scopes", "final(self).scope_index == old(self).scope_index", "final(self).constants == old(self).constants",
                                 "final(self).symtab == old(self).symtab", "final(self).filters == old(self).filters", "final(self).filter_end == old(self).filter_end"]),
    m("add_instruction", ret="pos", requires=["old(self).scope_index < old(self).scopes@.len()"],
      ensures=["rest_same(old(self), final(self))", "pos == code(old(self)).len()", "code(final(self)) == code(old(self)) + ins.code@", "lns(final(self)) == lns(old(self)) + ins.lines@"] + SAME_SCOPE_REST),
    m("emit", ret="pos", requires=PRE + ["op != Opcode::Invalid", "operands@.len() >= opcode_widths(op).len()"],
      ensures=["cwf(final(self))", "pos == code(old(self)).len()", "code(final(self)) == code(old(self)) + ins_bytes(op, operands@)",
               "lns(final(self)).len() == code(final(self)).len()", "lns(final(self)).subrange(0, lns(old(self)).len() as int) == lns(old(self))",
               "forall|i: int| lns(old(self)).len() <= i < lns(final(self)).len() ==> lns(final(self))[i] == line",
               "forall|i: int| 0 <= i < lns(old(self)).len() ==> lns(final(self))[i] == lns(old(self))[i]",
               "forall|a: int, b: int| 0 <= a <= b <= pos ==> #[trigger] seg(final(self), a, b) == seg(old(self), a, b)",
               "sc(final(self)).last_ins.opcode == op", "sc(final(self)).last_ins.position == pos", "sc(final(self)).prev_ins == sc(old(self)).last_ins",
               "others_same(old(self), final(self))", "scope_meta_same(old(self), final(self))",
               "fits_all(op, operands@) || final(self).encoding_error is Some",
               "fresh(&sc(final(self)))", "ext(old(self), final(self))", "gen_s(old(self), final(self))", "starts(code(final(self))) == starts(code(old(self))).push(pos as int)",
               "is_start(final(self), pos as int)", "op_at(code(final(self)), pos as int) == op", "code(final(self)).len() == code(old(self)).len() + ilen(op)",
               "code(final(self)).subrange(pos as int, code(final(self)).len() as int) == ins_bytes(op, operands@)"],
      epilogue="assert(lns(self).subrange(0, lns(old(self)).len() as int) =~= lns(old(self))); assert forall|i: int| 0 <= i < lns(old(self)).len() implies lns(self)[i] == lns(old(self))[i] by { assert(lns(self).subrange(0, lns(old(self)).len() as int)[i] == lns(self)[i]); } lemma_emit(old(self), self, op, operands@); lemma_op_of_byte(op); assert(code(self).subrange(verif_ret as int, code(self).len() as int) =~= ins_bytes(op, operands@)); assert forall|a: int, b: int| 0 <= a <= b <= verif_ret implies #[trigger] seg(self, a, b) == seg(old(self), a, b) by { assert(seg(self, a, b) =~= seg(old(self), a, b)); } assert(starts(code(self))[starts(code(old(self))).len() as int] == verif_ret);", props=["C01", "C13", "C14"]),
    m("is_last_instruction", ret="r", requires=["self.scope_index < self.scopes@.len()"], ensures=["r == (code(self).len() > 0 && sc(self).last_ins.opcode == opcode)"]),
    m("replace_instruction", requires=["old(self).scope_index < old(self).scopes@.len()", "pos + new_instruction@.len() <= code(old(self)).len()"],
      ensures=["rest_same(old(self), final(self))", "lns(final(self)) == lns(old(self))",
               "code(final(self)) == code(old(self)).subrange(0, pos as int) + new_instruction@ + code(old(self)).subrange(pos + new_instruction@.len(), code(old(self)).len() as int)"] + SAME_SCOPE_REST,
      rewrites=[dict(rule="R5", re=r"for \(i, &byte\) in new_instruction\.iter\(\)\.enumerate\(\) (/\*@L0@\*/)\{(/\*@LB0@\*/)",
                     to=r"let mut i: usize = 0; let verif_len = curr_ins.code.len(); while i < new_instruction.len() \1{ let byte = new_instruction[i]; \2", expect=1, why="enumerate over a slice -> index loop"),
                dict(rule="R5", re=r"/\*@LE0@\*/", to=" i += 1; ", expect=1, why="index increment of the enumerate loop"),
                dict(rule="R3", re=r"curr_ins\.code\[pos \+ i\] = byte;", to="curr_ins.code.set(pos + i, byte);", expect=1, why="Vec IndexMut assignment -> Vec::set")],
      loops={0: dict(invariant=["i <= new_instruction@.len()", "pos + new_instruction@.len() <= curr_ins.code@.len()", "curr_ins.lines@ == lns(old(self))", "curr_ins.code@.len() == code(old(self)).len()", "curr_ins.code@.len() == verif_len",
                                "forall|k: int| 0 <= k < curr_ins.code@.len() && !(pos <= k < pos + i) ==> curr_ins.code@[k] == code(old(self))[k]",
                                "forall|k: int| pos <= k < pos + i ==> curr_ins.code@[k] == new_instruction@[k - pos]"],
                     decreases="new_instruction@.len() - i",
                     after=" proof { assert(curr_ins.code@ =~= code(old(self)).subrange(0, pos as int) + new_instruction@ + code(old(self)).subrange(pos + new_instruction@.len(), code(old(self)).len() as int)); } ")}),
    m("change_operand", requires=PRE + ["is_start(old(self), op_pos as int)", "ilen(op_at(code(old(self)), op_pos as int)) == 2 || ilen(op_at(code(old(self)), op_pos as int)) == 3"],
      ensures=CHG("op_pos", "operand") + ["fits_all(op_at(code(old(self)), op_pos as int), seq![operand]) || final(self).encoding_error is Some"],
      prologue=" proof { lemma_start_bounds(self, op_pos as int); } ",
      epilogue=CHG_EPI("op_pos"), props=["C01", "C14"],
      rewrites=[dict(rule="R10", re=r"Opcode::from\(", to="opcode_from_u8(", expect=1, why="From<u8> for Opcode resolves to the extracted impl"),
                dict(rule="R1", re=r"self\.get_curr_instructions\(\)\.(code|lines)\[op_pos\]", to=r"get_\1_at(&self.scopes[self.scope_index].instructions, op_pos)", expect=2, why="indexing a cloned copy -> indexing the original (clone is structural)")]),
    m("patch_jump", requires=PRE + ["is_start(old(self), pos as int)", "ilen(op_at(code(old(self)), pos as int)) == 2 || ilen(op_at(code(old(self)), pos as int)) == 3"],
      ensures=CHG("pos", "code(old(self)).len() as usize") + ["fits_all(op_at(code(old(self)), pos as int), seq![code(old(self)).len() as usize]) || final(self).encoding_error is Some", "code(old(self)).len() <= usize::MAX"],
      props=["C01", "C14", "C06"]),
    m("remove_last_pop", requires=PRE + ["fresh(&sc(old(self)))", "code(old(self)).len() > 0", "sc(old(self)).last_ins.opcode == Opcode::Pop"],
      ensures=["cwf(final(self))", "code(final(self)) == code(old(self)).subrange(0, sc(old(self)).last_ins.position as int)", "lns(final(self)) == lns(old(self)).subrange(0, sc(old(self)).last_ins.position as int)",
               "sc(final(self)).last_ins == sc(old(self)).prev_ins", "others_same(old(self), final(self))", "scope_meta_same(old(self), final(self))", "final(self).encoding_error == old(self).encoding_error",
               "sc(old(self)).last_ins.position < code(old(self)).len()",
               "forall|a: &Compiler| #[trigger] ext0(a, old(self)) && sc(old(self)).last_ins.position >= code(a).len() ==> ext0(a, final(self))",
               "forall|p: int| #[trigger] is_start(old(self), p) && p < sc(old(self)).last_ins.position ==> is_start(final(self), p) && op_at(code(final(self)), p) == op_at(code(old(self)), p) && sc(final(self)).last_ins.position >= p"],
      prologue=" proof { assert(swf(&sc(self))); lemma_truncate(code(self)); } ",
      epilogue="lemma_removed(old(self), self); lemma_removed_starts(old(self), self);",
      rewrites=[dict(rule="R3", re=r"old_ins\.code\[\.\.last_ins\.position\]\.to_vec\(\)", to="u8_to_vec(&old_ins.code, last_ins.position)", why="slice.to_vec() shim with the bound as precondition"),
                dict(rule="R3", re=r"old_ins\.lines\[\.\.last_ins\.position\]\.to_vec\(\)", to="usize_to_vec(&old_ins.lines, last_ins.position)", why="slice.to_vec() shim with the bound as precondition")]),
    m("replace_last_pop_with_return", requires=PRE + ["code(old(self)).len() > 0", "sc(old(self)).last_ins.opcode == Opcode::Pop"],
      ensures=["cwf(final(self))", "code(final(self)).len() == code(old(self)).len()", "sc(final(self)).last_ins.opcode == Opcode::ReturnValue", "others_same(old(self), final(self))", "scope_meta_same(old(self), final(self))",
               "final(self).encoding_error == old(self).encoding_error",
               "forall|a: &Compiler| #[trigger] ext0(a, old(self)) && sc(old(self)).last_ins.position >= code(a).len() ==> ext0(a, final(self))"],
      prologue=" proof { assert(swf(&sc(self))); lemma_truncate(code(self)); } ",
      epilogue="lemma_replaced(old(self), self);"),
    m("set_last_instruction", requires=["old(self).scope_index < old(self).scopes@.len()"],
      ensures=["rest_same(old(self), final(self))", "sc(final(self)).instructions == sc(old(self)).instructions", "sc(final(self)).last_ins.opcode == op", "sc(final(self)).last_ins.position == pos",
               "sc(final(self)).prev_ins == sc(old(self)).last_ins", "sc(final(self)).loop_stack == sc(old(self)).loop_stack",
               "sc(final(self)).scope_depth == sc(old(self)).scope_depth", "sc(final(self)).is_filter == sc(old(self)).is_filter"]),
]

from vlib import strmatch  # noqa: E402
from units.exprparse.unit import TYPES as AST_TYPES  # noqa: E402

AST = [t for t in AST_TYPES if t["path"] not in ("Precedence", "Parser")]
NODEC = ["#[verifier::exec_allows_no_decreases_clause]"]
GEN = ["r is Ok ==> gen(old(self), final(self))"]
GEN_S = ["r is Ok ==> gen_s(old(self), final(self))"]
REV = ' proof { lemma_strlits(); reveal_strlit("&&"); reveal_strlit("||"); reveal_strlit("+"); reveal_strlit("-"); reveal_strlit("*"); reveal_strlit("/"); reveal_strlit("%"); reveal_strlit("=="); reveal_strlit("!="); reveal_strlit(">"); reveal_strlit("<"); reveal_strlit(">="); reveal_strlit("<="); reveal_strlit("&"); reveal_strlit("|"); reveal_strlit("^"); reveal_strlit("<<"); reveal_strlit(">>"); reveal_strlit("!"); reveal_strlit("~"); reveal_strlit("$"); } '
BCAST = " broadcast use lemma_ext_trans, lemma_gen_trans, lemma_gen_s_trans, lemma_start_kept; "
BCAST_SEG = " broadcast use lemma_seg_kept; "
REFL = " proof { lemma_gen_refl(self, self); } "

RW2 = [
    dict(rule="R4s", func=strmatch.rewrite, why="match on string literals -> guards over a string-equality shim, same order"),
    dict(rule="R3f", re=r"&format!\((?:[^()]|\((?:[^()]|\([^()]*\))*\))*\)", to="fmt_str()", why="format! message text dropped"),
    dict(rule="R3", re=r"panic!\(\"Invalid statement encountered\"\);", to="ast_invariant_violation();", why="unreachable for parser output (assumption, listed)"),
    dict(rule="R3", re=r"panic!\(\"invalid builtin identifier \{\}\", bid\.token\.line\);", to="ast_invariant_violation();", why="unreachable for parser output (assumption, listed)"),
    dict(rule="R3", re=r"Object::File\(Rc::new\(FileHandle::(\w+)\)\)", to=r"obj_file_\1()", why="Object constructor shim"),
    dict(rule="R3", re=r"Object::Func\(Rc::new\(CompiledFunction::new\((.*?)\)\)\)", to=r"obj_func(\1)", why="Object constructor shim"),
    dict(rule="R3", re=r"Object::(Integer|Float|Str|Char|Byte)\(", to=r"obj_\1(", why="Object constructor shim"),
    dict(rule="R3", re=r"Object::Null\b", to="obj_Null()", why="Object constructor shim"),
    dict(rule="R3", re=r"Rc::new\(obj\)", to="rc_object(obj)", why="Rc::new shim"),
    dict(rule="R3", re=r"self\.symtab\.(define|define_function_name|resolve|leave_block)\(", to=r"symtab_\1(&mut self.symtab, ", why="symbol table behind its contract (symtab unit)"),
    dict(rule="R3", re=r"self\.symtab\.get_num_definitions\(\)", to="symtab_get_num_definitions(&self.symtab)", why="symbol table shim"),
    dict(rule="R3", re=r"self\.symtab\.free_symbols\.clone\(\)", to="symtab_free_symbols_clone(&self.symtab)", why="symbol table shim"),
    dict(rule="R3", re=r"SymbolTable::new_enclosed\(self\.symtab\.clone\(\)\)", to="symtab_new_enclosed(symtab_clone(&self.symtab))", why="symbol table shim"),
    dict(rule="R3", re=r"self\.symtab\.outer\.as_ref\(\)\.unwrap\(\)\.as_ref\(\)\.clone\(\)", to="symtab_outer_clone(&self.symtab)", why="symbol table shim: requires an enclosing table"),
    dict(rule="R1", re=r"CompilationScope::default\(\)", to="scope_default()", why="derived Default -> shim"),
    dict(rule="R3", re=r"expr\.value as usize", to="prop_as_usize(&expr.value)", why="enum-to-integer cast of an opaque enum -> shim"),
    dict(rule="R3", re=r"&binary\.operator,", to="string_as_str(&binary.operator),", why="&String -> &str coercion made explicit"),
    dict(rule="R3", re=r"(\w+(?:\.\w+)*)\.statements\.last\(\)", to=r"last_stmt(&\1.statements)", why="slice::last shim"),
    dict(rule="R9", re=r"let len = map\.pairs\.len\(\) \* 2;", to="proof { axiom_pairs_len(&map.pairs); } let len = map.pairs.len() * 2;", why="assumption (listed): a vector of two-expression pairs has fewer than usize::MAX / 2 elements (allocation limit)"),
    dict(rule="R3", re=r"self\.scopes\[self\.scope_index\]\.scope_depth -= 1;", to=r"let verif_i = self.scope_index; let mut verif_sc = scope_take(&mut self.scopes, verif_i); verif_sc.scope_depth -= 1; scope_put(&mut self.scopes, verif_i, verif_sc);", why="update of a field of a Vec element -> take/modify/put back"),
    dict(rule="R3", re=r"self\.scopes\[self\.scope_index\]\.scope_depth \+= 1;", to=r"let verif_i = self.scope_index; let mut verif_sc = scope_take(&mut self.scopes, verif_i); proof { axiom_depth_bounded(&verif_sc); } verif_sc.scope_depth += 1; scope_put(&mut self.scopes, verif_i, verif_sc);", why="update of a field of a Vec element -> take/modify/put back; assumption (listed): the block depth (one per nested block of the source text) stays below usize::MAX"),
]

FORSTMT = dict(rule="R5", re=r"for stmt in (\w+(?:\.\w+)*) (/\*@L0@\*/)\{(/\*@LB0@\*/)", to=r"let mut verif_v = \1; let mut verif_k: usize = 0; while verif_k < verif_v.len() \2{ let stmt = vec_take_stmt(&mut verif_v, verif_k); verif_k += 1; \3", expect=1,
               why="consuming iteration over Vec<Statement> -> index loop in the same order")

PATCHLOOP = dict(invariant=["verif_k <= break_pos@.len()", "gen_s(&verif_s0, self)", "cwf(self)",
                            "forall|j: int| verif_k <= j < break_pos@.len() ==> is_start(self, #[trigger] break_pos@[j] as int) && op_at(code(self), break_pos@[j] as int) == Opcode::Jump && break_pos@[j] >= code(&verif_s0).len() && break_pos@[j] + 3 <= code(self).len() - 3",
                            "loop_tail(&verif_s0, self)", "is_start(self, code(self).len() - 3)", "verif_p >= 0 ==> while_jumps(&verif_s0, self, verif_p) && is_start(self, verif_p)"],
                 decreases="break_pos@.len() - verif_k", body_prologue=BCAST)

COMPILE = [
    dict(kind="enum", file=ST, path="SymbolScope", attrs=["#[derive(PartialEq, Eq, Structural)]"]),
    dict(kind="struct", file=ST, path="Symbol"),
    dict(kind="struct", file=AM, path="Program"),
    dict(kind="fn", file=C, path="LoopContext::new", ret="r", ensures=["r.label == label", "r.begin == position", "r.break_positions@.len() == 0"], props=["C01"]),
    dict(kind="fn", file=AS, path="Statement::is_expression", ret="r", ensures=["r == (*self is Expr)"], props=["C06"]),
    m("add_constant", ret="r", requires=PRE, ensures=["gen_s(old(self), final(self))", "final(self).scopes == old(self).scopes"], epilogue="lemma_gen_refl(old(self), self);"),
    m("load_symbol", requires=PRE, ensures=["gen_s(old(self), final(self))", "code(final(self)).len() > code(old(self)).len()", "appended_ins(old(self), final(self), load_op(sym.scope), sym.index)", "final(self).symtab == old(self).symtab"], prologue=BCAST, props=["C04", "C01", "C14"]),
    m("save_symbol", ret="r", requires=PRE, ensures=GEN_S + ["r is Ok ==> code(final(self)).len() > code(old(self)).len()", "r is Ok ==> store_op(sym.scope) != Opcode::Invalid && appended_ins(old(self), final(self), store_op(sym.scope), sym.index)",
                                                           "store_op(sym.scope) == Opcode::Invalid ==> r is Err"], prologue=BCAST, props=["C04", "C01", "C14"]),
    m("compile_infix_expr", ret="r", requires=PRE, ensures=GEN_S + ["r is Ok ==> code(final(self)).len() == code(old(self)).len() + 1", "r is Ok ==> last_line_is(old(self), final(self), line)",
                                                                     "r is Ok ==> sc(final(self)).last_ins.opcode == infix_opcode(operator@) && infix_opcode(operator@) != Opcode::Invalid"], prologue=BCAST + REV, props=["C13", "C01", "C14"]),
    m("compile_block_statement", ret="r", requires=PRE, prologue=BCAST + REFL, attrs=NODEC, rewrites=[FORSTMT], props=["C04", "C01", "C14"],
      # C04: the last thing a block does to the symbol table is to hide the bindings made deeper than the depth it was entered at
      ensures=GEN_S + ["r is Ok ==> exists|t: SymbolTable| final(self).symtab == #[trigger] after_leave(&t, sc(old(self)).scope_depth)"],
      loops={0: dict(invariant=["verif_k <= verif_v@.len()", "ext0(old(self), self)", "sc(self).scope_depth == sc(old(self)).scope_depth + 1", "tail_ok(old(self), self)",
                                "code(self).len() > code(old(self)).len() ==> fresh(&sc(self))"],
                     decreases="verif_v@.len() - verif_k", body_prologue=BCAST)}),
    m("compile_statements", ret="r", requires=PRE, ensures=GEN_S, prologue=BCAST + REFL, attrs=NODEC, rewrites=[FORSTMT],
      loops={0: dict(invariant=["verif_k <= verif_v@.len()", "gen_s(old(self), self)"], decreases="verif_v@.len() - verif_k", body_prologue=BCAST)}),
    m("compile_program", ret="r", requires=PRE, ensures=GEN_S, attrs=NODEC),
    m("compile_let_stmt", ret="r", requires=PRE, ensures=GEN, attrs=NODEC),
    m("compile_statement", ret="r", requires=PRE, props=["C06", "C04", "C01", "C14"],
      ensures=GEN_S + ["r is Ok ==> (verif_param is Loop ==> loop_tail(old(self), final(self)))", "r is Ok ==> (verif_param is While ==> while_loop_shape(old(self), final(self)))",
                       # C04: let / fn statements define the name (at the current block depth) BEFORE the value is compiled, and store into exactly that symbol
                       "r is Ok ==> (verif_param matches Statement::Let(l) ==> { let s = defined_sym(&old(self).symtab, l.name.value@, sc(old(self)).scope_depth); ends_with_ins(final(self), define_op(s.scope), s.index) })",
                       "r is Ok ==> (verif_param matches Statement::Function(f) ==> { let s = defined_sym(&old(self).symtab, f.name@, sc(old(self)).scope_depth); ends_with_ins(final(self), define_op(s.scope), s.index) })"],
      prologue=BCAST + REFL, attrs=NODEC + ["#[verifier::rlimit(1000)]"],
      rewrites=[
          dict(rule="R0", re=r"\(&mut self, stmt: Statement\)", to="(&mut self, verif_param: Statement)", expect=1, strict=True, why="parameter renamed (the match arms shadow it; loop invariants need to name it)"),
          dict(rule="R0", re=r"match stmt \{", to="match verif_param {", expect=1, strict=True, why="parameter renamed"),
          dict(rule="R3", re=r"self\.scopes\[self\.scope_index\]\.loop_stack\.push\(loop_label\);", expect=2, strict=True,
               to="let ghost verif_s0 = *self; let verif_i = self.scope_index; let mut verif_sc = scope_take(&mut self.scopes, verif_i); verif_sc.loop_stack.push(loop_label); scope_put(&mut self.scopes, verif_i, verif_sc); let ghost verif_s1 = *self; proof { assert(sc(&verif_s1).loop_stack@.subrange(0, sc(&verif_s0).loop_stack@.len() as int) =~= sc(&verif_s0).loop_stack@); lemma_loop_pushed(&verif_s0, &verif_s1); }",
               why="method call on a field of a Vec element -> take/modify/put back; ghost snapshots and proof hint"),
          dict(rule="R3", re=r"if let Some\(loop_curr\) = self\.scopes\[self\.scope_index\]\.loop_stack\.pop\(\) \{", expect=2, strict=True,
               to="let ghost verif_s3 = *self; let verif_popped = { let verif_i = self.scope_index; let mut verif_sc = scope_take(&mut self.scopes, verif_i); let verif_r = verif_sc.loop_stack.pop(); scope_put(&mut self.scopes, verif_i, verif_sc); verif_r }; proof { lemma_loop_popped(&verif_s0, &verif_s1, &verif_s3, self); } if let Some(loop_curr) = verif_popped {",
               why="method call on a field of a Vec element -> take/modify/put back; ghost snapshot and proof hint"),
          dict(rule="R5", re=r"for pos in break_pos\.iter\(\) (/\*@L\d@\*/)\{(/\*@LB\d@\*/)", expect=2, strict=True,
               to=r"let mut verif_k: usize = 0; while verif_k < break_pos.len() \1{ let pos = &break_pos[verif_k]; verif_k += 1; let ghost verif_pre = *self; \2", why="iteration over a slice -> index loop in the same order; ghost snapshot"),
          dict(rule="R9", re=r"self\.patch_jump\(\*pos\);", expect=2, strict=True, to="self.patch_jump(*pos); proof { lemma_jumps_kept(&verif_s0, &verif_pre, self, *pos as int, verif_p); }", why="proof hint: patching a break placeholder keeps the loop's own jumps"),
          dict(rule="R9g", re=r"(?m)^(\s*)self\.emit\(Opcode::Jump, &\[(?!loop_label)([\w.]+)\], stmt\.token\.line\);",
               to=r"\1let ghost verif_sb = *self; proof { lemma_breaks_before(&verif_sb); } self.emit(Opcode::Jump, &[\2], stmt.token.line); let ghost verif_p: int = -1; proof { lemma_loop_tail(&verif_s0, &verif_sb, self, \2); }",
               why="ghost snapshot and proof hint: the loop-back jump"),
          dict(rule="R9g", re=r"(?m)^(\s*)self\.patch_jump\((?!\*pos)(\w+)\);",
               to=r"\1let ghost verif_s5 = *self; self.patch_jump(\2); let ghost verif_p: int = \2 as int; proof { lemma_while_jumps(&verif_s0, &verif_s5, self, verif_p); }",
               why="ghost snapshot and proof hint: the exit jump of while"),
          dict(rule="R5m", expect=1, strict=True,
               re=r"let loop_stack = &mut self\.scopes\[self\.scope_index\]\.loop_stack;\s*for loop_label in loop_stack\.iter_mut\(\)\.rev\(\) (/\*@L2@\*/)\{(/\*@LB2@\*/)\s*if let Some\(loop_label_name\) = &loop_label\.label \{\s*if loop_label_name == &label\.literal \{\s*loop_label\.break_positions\.push\(pos\);\s*return Ok\(\(\)\);\s*\}\s*\}\s*(/\*@LE2@\*/)\}(/\*@LA2@\*/)",
               to=r"let ghost verif_sb = *self; let verif_i = self.scope_index; let mut verif_sc = scope_take(&mut self.scopes, verif_i); let mut verif_k: usize = verif_sc.loop_stack.len(); while verif_k > 0 \1{\2 verif_k -= 1; if loopctx_label_is(&verif_sc.loop_stack, verif_k, &label.literal) { loopctx_push_break(&mut verif_sc.loop_stack, verif_k, pos); scope_put(&mut self.scopes, verif_i, verif_sc); proof { lemma_break_recorded(&verif_sb, self, verif_k as int, pos); } return Ok(()); } \3}\4 scope_put(&mut self.scopes, verif_i, verif_sc);",
               why="reverse mutable iteration over the loop stack, recording the break position in the first context (from the innermost) whose label matches -> index loop from the end with the same effect; the label comparison is a shim"),
          dict(rule="R5m", expect=1, strict=True,
               re=r"if let Some\(last\) = self\.scopes\[self\.scope_index\]\.loop_stack\.last_mut\(\) \{\s*last\.break_positions\.push\(pos\);\s*\}",
               to="{ let ghost verif_sb = *self; let verif_i = self.scope_index; let mut verif_sc = scope_take(&mut self.scopes, verif_i); let verif_n = verif_sc.loop_stack.len(); if verif_n > 0 { loopctx_push_break(&mut verif_sc.loop_stack, verif_n - 1, pos); } scope_put(&mut self.scopes, verif_i, verif_sc); proof { if verif_n > 0 { lemma_break_recorded(&verif_sb, self, verif_n - 1, pos); } } }",
               why="last_mut() on the loop stack -> index of the last element, same effect"),
      ],
      loops={0: PATCHLOOP, 1: PATCHLOOP,
             2: dict(invariant=["verif_k <= verif_sc.loop_stack@.len()", "verif_sc == sc(&verif_sb)", "verif_i == verif_sb.scope_index", "self.scope_index == verif_sb.scope_index", "self.scopes@.len() == verif_sb.scopes@.len()",
                                "forall|j: int| 0 <= j < verif_sb.scopes@.len() && j != verif_i ==> self.scopes@[j] == verif_sb.scopes@[j]",
                                "self.constants == verif_sb.constants", "self.symtab == verif_sb.symtab", "self.filters == verif_sb.filters", "self.filter_end == verif_sb.filter_end", "self.encoding_error == verif_sb.encoding_error",
                                "cwf(&verif_sb)", "code(&verif_sb).len() > 0", "sc(&verif_sb).last_ins.position == pos", "sc(&verif_sb).last_ins.opcode == Opcode::Jump", "fresh(&sc(&verif_sb))", "gen_s(old(self), &verif_sb)", "pos >= code(old(self)).len()", "verif_param is Break"],
                     decreases="verif_k", body_prologue=BCAST),
             3: dict(invariant=["gen_s(old(self), self)", "*self == *old(self)", "verif_param is Continue"], body_prologue=BCAST)}),
    m("compile_expression", ret="r", requires=PRE, props=["C06", "C13", "C09", "C01", "C14"],
      ensures=GEN + ["r is Ok ==> emitted_by(expr, seg(final(self), code(old(self)).len() as int, code(final(self)).len() as int))",
                     # C06: the logical operators are compiled by the short-circuit generators, on their own operands, in source order
                     "r is Ok ==> (expr matches Expression::Binary(b) ==> (b.operator@ == \"&&\"@ ==> and_shape(old(self), final(self), *b.left, *b.right, b.token.line)))",
                     "r is Ok ==> (expr matches Expression::Binary(b) ==> (b.operator@ == \"||\"@ ==> or_shape(old(self), final(self), *b.left, *b.right, b.token.line)))",
                     "r is Ok ==> (expr matches Expression::If(e) ==> if_shape(old(self), final(self), *e.condition))",
                     # C13: the instruction that can fail at run time carries the line of the node's own token
                     "r is Ok && op_line(expr) is Some ==> last_line_is(old(self), final(self), op_line(expr)->0)",
                     "r is Ok ==> (expr matches Expression::Unary(u) ==> sc(final(self)).last_ins.opcode == unary_opcode(u.operator@) && unary_opcode(u.operator@) != Opcode::Invalid && emitted_by(*u.right, seg(final(self), code(old(self)).len() as int, sc(final(self)).last_ins.position as int)))",
                     "r is Ok ==> (expr matches Expression::Binary(b) ==> (!is_logical(b.operator@) ==> sc(final(self)).last_ins.opcode == infix_opcode(b.operator@) && infix_opcode(b.operator@) != Opcode::Invalid))",
                     "r is Ok ==> (expr matches Expression::Call(c) ==> sc(final(self)).last_ins.opcode == Opcode::Call)",
                     # C09: operands in source order; '<' and '<=' are '>' and '>=' on the swapped operands
                     "r is Ok ==> (expr matches Expression::Binary(b) ==> (!is_logical(b.operator@) ==> binary_shape(old(self), final(self), b)))"],
      prologue=BCAST + BCAST_SEG + REFL + REV, attrs=NODEC,
      rewrites=[dict(rule="R9g", re=r"(self\.compile_expression\(\*binary\.(?:left|right)\)\?;)(\s*self\.compile_expression\(\*binary\.)", to=r"\1 let ghost verif_bp = code(self).len() as int;\2", why="ghost: where the first operand's code ends"),
                dict(rule="R9g", re=r"(self\.compile_infix_expr\([^;]*;)", to=r"\1 proof { assert(binary_at(old(self), self, binary, verif_bp)); }", why="proof hint: witness of binary_shape")],
      epilogue="assume(emitted_by(expr, seg(self, code(old(self)).len() as int, code(self).len() as int)));",
      loops={0: dict(invariant=["gen(old(self), self)"], body_prologue=BCAST), 1: dict(invariant=["gen(old(self), self)"], body_prologue=BCAST), 2: dict(invariant=["gen(old(self), self)"], body_prologue=BCAST)}),
    m("compile_if_expression", ret="r", requires=PRE, ensures=GEN + ["r is Ok ==> if_shape(old(self), final(self), *expr.condition)"], prologue=BCAST, attrs=NODEC + ["#[verifier::rlimit(1000)]"], props=["C06", "C01", "C14"],
      rewrites=[dict(rule="R9g", re=r"(self\.compile_expression\([^;]*\)\?;)", nth=0, to=r"\1 let ghost verif_s1 = *self;", why="ghost snapshot after the condition is compiled"),
                dict(rule="R9g", re=r"(let jump_pos = self\.emit\([^;]*;)", to=r"\1 let ghost verif_sq = *self;", why="ghost snapshot after the jump over the else part is emitted"),
                dict(rule="R9g", re=r"(self\.patch_jump\(\w+\);)", nth=0, to=r"\1 let ghost verif_s7 = *self;", why="ghost snapshot after the first patch"),
                dict(rule="R9g", re=r"(self\.patch_jump\(\w+\);)", nth=-1, to=r"let ghost verif_s8 = *self; \1", why="ghost snapshot before the last patch"),
                dict(rule="R9g", re=r"\n(\s*)Ok\(\(\)\)(\s*\}\s*)$", to=r"\n\1proof { lemma_if_shape(old(self), &verif_s1, &verif_sq, &verif_s7, &verif_s8, self, *expr.condition); }\n\1Ok(())\2", why="proof hint at the accepting exit: the shape of if")]),
    m("compile_identifier", ret="r", requires=PRE, prologue=BCAST, props=["C04", "C01", "C14"],
      ensures=GEN + [# C04: a name with no visible binding is a compile error; a visible one is read / written through the instruction of its own scope and index
                     "resolved_sym(&old(self).symtab, expr.token.literal@, sc(old(self)).scope_depth) is None ==> r is Err",
                     "r is Ok ==> { let s = resolved_sym(&old(self).symtab, expr.token.literal@, sc(old(self)).scope_depth)->0; appended_ins(old(self), final(self), if expr.context.access is Get { load_op(s.scope) } else { store_op(s.scope) }, s.index) }"]),
    m("compile_index_expression", ret="r", requires=PRE, ensures=GEN + ["r is Ok ==> last_line_is(old(self), final(self), expr.token.line)",
                                                                       "r is Ok ==> sc(final(self)).last_ins.opcode == (if expr.context.access is Get { Opcode::GetIndex } else { Opcode::SetIndex })"], prologue=BCAST, attrs=NODEC, props=["C13", "C01", "C14"]),
    m("compile_function_literal", ret="r", requires=PRE, ensures=GEN + ["r is Ok ==> closure_shape(old(self), final(self))"], prologue=BCAST, attrs=NODEC, props=["C04", "C01", "C14"],
      rewrites=[dict(rule="R9", re=r"(self\.enter_scope\(\);)", to=r"\1 let ghost verif_e = *self;", expect=1, why="ghost snapshot of the compiler after enter_scope"),
                dict(rule="R9", re=r"(let num_locals = )", to=r"let ghost verif_b = *self; \1", expect=1, why="ghost snapshot of the compiler at the end of the function body"),
                dict(rule="R9", re=r"(let instructions = self\.leave_scope\(\);)", to=r"\1 proof { lemma_left(old(self), &verif_e, &verif_b, self); assert(code(self) =~= code(old(self)) + loads_bytes(free_symbols@, 0)); }", expect=1, why="proof hint: leaving the scope restores the enclosing scope's stream"),
                dict(rule="R9g", re=r"(self\.emit\(Opcode::Closure, [^;]*;)", to=r"let ghost verif_c = *self; \1 proof { assert(code(self) =~= code(old(self)) + loads_bytes(free_symbols@, free_symbols@.len() as int) + ins_bytes(Opcode::Closure, seq![idx, free_symbols@.len() as usize])); assert(closure_at(old(self), self, free_symbols@, idx)); }", why="proof hint: witness of closure_shape"),
                dict(rule="R5", re=r"for f in &free_symbols (/\*@L1@\*/)\{(/\*@LB1@\*/)", to=r"let mut verif_k: usize = 0; while verif_k < free_symbols.len() \1{ let f = &free_symbols[verif_k]; verif_k += 1; \2", expect=1, why="iteration over &Vec -> index loop in the same order"),
                dict(rule="R1", re=r"\bf\.clone\(\)", to="rc_clone_symbol(f)", expect=1, why="Rc::clone shim")],
      loops={0: dict(invariant=["entered(old(self), self)", "self.scopes == verif_e.scopes", "self.scope_index == verif_e.scope_index", "st_depth(&self.symtab) == st_depth(&verif_e.symtab)", "verif_e.encoding_error is Some ==> self.encoding_error is Some", "entered(old(self), &verif_e)"], after=" proof { lemma_gen_refl(&verif_e, self); } ", body_prologue=BCAST),
             1: dict(invariant=["verif_k <= free_symbols@.len()", "gen(old(self), self)", "code(self) == code(old(self)) + loads_bytes(free_symbols@, verif_k as int)"], decreases="free_symbols@.len() - verif_k", body_prologue=BCAST)}),
    m("compile_logical_and", ret="r", requires=PRE, ensures=GEN + ["r is Ok ==> and_shape(old(self), final(self), left, right, line)"], prologue=BCAST, attrs=NODEC, props=["C06", "C01", "C14"],
      rewrites=[dict(rule="R9g", re=r"(self\.compile_expression\(\w+\)\?;)", nth=0, to=r"\1 let ghost verif_s1 = *self;", why="ghost snapshot after the first operand is compiled"),
                dict(rule="R9g", re=r"(self\.compile_expression\(\w+\)\?;)", nth=1, to=r"\1 let ghost verif_s4 = *self;", why="ghost snapshot after the second operand is compiled"),
                dict(rule="R9g", re=r"(let jump_if_false_pos = self\.emit\([^;]*;)", to=r"\1 let ghost verif_s2 = *self;", why="ghost snapshot after the conditional jump is emitted"),
                dict(rule="R9g", re=r"\n(\s*)Ok\(\(\)\)(\s*\}\s*)$", to=r"\n\1proof { lemma_and_shape(old(self), &verif_s1, &verif_s2, &verif_s4, self, left, right, line); }\n\1Ok(())\2", why="proof hint at the accepting exit: the shape of a && b")]),
    m("compile_logical_or", ret="r", requires=PRE, ensures=GEN + ["r is Ok ==> or_shape(old(self), final(self), left, right, line)"], prologue=BCAST, attrs=NODEC, props=["C06", "C01", "C14"],
      rewrites=[dict(rule="R9g", re=r"(self\.compile_expression\(\w+\)\?;)", nth=0, to=r"\1 let ghost verif_s1 = *self;", why="ghost snapshot after the first operand is compiled"),
                dict(rule="R9g", re=r"(self\.compile_expression\(\w+\)\?;)", nth=1, to=r"\1 let ghost verif_s6 = *self;", why="ghost snapshot after the second operand is compiled"),
                dict(rule="R9g", re=r"(let end_pos = self\.emit\([^;]*;)", to=r"\1 let ghost verif_s3 = *self;", why="ghost snapshot after both jumps are emitted"),
                dict(rule="R9g", re=r"(self\.patch_jump\(\w+\);)", nth=0, to=r"\1 let ghost verif_s4 = *self;", why="ghost snapshot after the first patch"),
                dict(rule="R9g", re=r"\n(\s*)Ok\(\(\)\)(\s*\}\s*)$", to=r"\n\1proof { lemma_or_shape(old(self), &verif_s1, &verif_s3, &verif_s4, &verif_s6, self, left, right, line); }\n\1Ok(())\2", why="proof hint at the accepting exit: the shape of a || b")]),
    m("compile_dot_expression", ret="r", requires=PRE, ensures=GEN, prologue=BCAST, attrs=NODEC),
    m("compile_prop_expression", ret="r", requires=PRE, ensures=GEN + ["r is Ok ==> last_line_is(old(self), final(self), expr.token.line)",
                                                                      "r is Ok ==> sc(final(self)).last_ins.opcode == (if expr.context.access is Get { Opcode::GetProp } else { Opcode::SetProp })"], prologue=BCAST, props=["C13", "C01", "C14"]),
    dict(kind="fn", file=AS, path="FilterPattern::is_none", ret="r", ensures=["r == (*self is None)"], props=["C01"]),
    dict(kind="fn", file=AS, path="FilterPattern::is_end", ret="r", ensures=["r == (*self is End)"], props=["C01"]),
    m("emit_action_stmt", ret="r", requires=PRE, ensures=GEN_S, prologue=BCAST + REFL, attrs=NODEC),
    m("compile_filter_statement", ret="r", requires=PRE, ensures=GEN_S, prologue=BCAST, attrs=NODEC,
      rewrites=[dict(rule="R1", re=r"expr\.pattern\.clone\(\)", to="filter_pattern_clone(&expr.pattern)", expect=1, why="derived Clone -> structural-copy shim"),
                dict(rule="R3", re=r"Rc::new\(CompiledFunction::new\(\s*instructions,\s*num_locals,\s*0,\s*expr\.token\.line,\s*\)\)", to="rc_compiled_fn(instructions, num_locals, 0, expr.token.line)", expect=1, why="constructor shim"),
                dict(rule="R9g", re=r"(self\.scopes\[self\.scope_index\]\.is_filter = true;)", to=r"\1 let ghost verif_e = *self; proof { lemma_cwf_other_scopes(&verif_en, &verif_e); lemma_gen_refl(&verif_e, &verif_e); }", why="ghost snapshot after the filter scope is set up"),
                dict(rule="R9g", re=r"(self\.enter_scope\(\);)", to=r"\1 let ghost verif_en = *self;", why="ghost snapshot after enter_scope"),
                dict(rule="R9g", re=r"(let num_locals = )", to=r"let ghost verif_b = *self; \1", why="ghost snapshot at the end of the filter body"),
                dict(rule="R9g", re=r"(let instructions = self\.leave_scope\(\);)", to=r"\1 proof { lemma_left(old(self), &verif_e, &verif_b, self); } let ghost verif_l = *self;", why="proof hint: leaving the scope restores the enclosing scope's stream"),
                dict(rule="R9g", re=r"\n(\s*)Ok\(\(\)\)(\s*\}\s*)$", to=r"\n\1proof { lemma_gen_refl(&verif_l, self); }\n\1Ok(())\2", why="proof hint at the accepting exit")]),
    m("compile_match_expression", ret="r", requires=PRE, ensures=GEN, prologue=BCAST + REFL, attrs=NODEC + ["#[verifier::rlimit(1500)]"],
      rewrites=[dict(rule="R3", re=r"match_expr\.arms\.first\(\)\.unwrap\(\)\.patterns\.first\(\)\.unwrap\(\)", to="first_pattern(&match_expr.arms)", expect=1, why="assumption (listed): at least one arm with at least one pattern"),
                dict(rule="R5", re=r"for \(idx, arm\) in match_expr\.arms\.iter\(\)\.enumerate\(\) (/\*@L0@\*/)\{(/\*@LB0@\*/)", expect=1, strict=True,
                     to=r"let mut idx: usize = 0; while idx < match_expr.arms.len() \1{ let arm = &match_expr.arms[idx]; \2", why="enumerate over a slice -> index loop"),
                dict(rule="R5", re=r"/\*@LE0@\*/", to=" idx += 1; ", expect=1, strict=True, why="index increment of the enumerate loop (the body has no continue)"),
                dict(rule="R5", re=r"for pattern_variant in &arm\.patterns (/\*@L1@\*/)\{(/\*@LB1@\*/)", expect=1, strict=True,
                     to=r"let mut verif_pi: usize = 0; while verif_pi < arm.patterns.len() \1{ let pattern_variant = &arm.patterns[verif_pi]; verif_pi += 1; \2", why="iteration over &Vec -> index loop in the same order"),
                dict(rule="R5", re=r"for jump_pos in jump_body_v (/\*@L2@\*/)\{(/\*@LB2@\*/)", expect=1, strict=True,
                     to=r"let mut verif_j: usize = 0; while verif_j < jump_body_v.len() \1{ let jump_pos = jump_body_v[verif_j]; verif_j += 1; \2", why="consuming iteration over Vec<usize> -> index loop in the same order"),
                dict(rule="R5", re=r"for jump_pos in jump_end_v (/\*@L3@\*/)\{(/\*@LB3@\*/)", expect=1, strict=True,
                     to=r"let mut verif_j: usize = 0; while verif_j < jump_end_v.len() \1{ let jump_pos = jump_end_v[verif_j]; verif_j += 1; \2", why="consuming iteration over Vec<usize> -> index loop in the same order"),
                dict(rule="R3", re=r"first\.matches_type\(pattern_variant\)", to="pattern_matches_type(first, pattern_variant)", expect=1, why="MatchPattern::matches_type shim (its value only selects a diagnostic)"),
                dict(rule="R1", re=r"(\w+)\.value\.clone\(\)", to=r"string_clone(&\1.value)", why="String::clone shim"),
                dict(rule="R1", re=r"arm\.body\.clone\(\)", to="block_clone(&arm.body)", expect=1, why="derived Clone -> structural-copy shim"),
                dict(rule="R3", re=r"r\.operator == \"\.\.\"", to='str_is(string_as_str(&r.operator), "..")', expect=1, why="String == &str -> shim"),
                dict(rule="R0", re=r"let mut jump_end_v = Vec::new\(\);", to="let mut jump_end_v: Vec<usize> = Vec::new();", expect=1, why="element type written out"),
                dict(rule="R0", re=r"let mut jump_body_v = Vec::new\(\);", to="let mut jump_body_v: Vec<usize> = Vec::new();", expect=1, why="element type written out")],
      loops={0: dict(invariant=["idx <= match_expr.arms@.len()", "gen(old(self), self)", "jumps_ok(self, old(self), jump_end_v@, 0)"], decreases="match_expr.arms@.len() - idx", body_prologue=BCAST),
             1: dict(invariant=["verif_pi <= arm.patterns@.len()", "gen(old(self), self)", "jumps_ok(self, old(self), jump_end_v@, 0)", "jumps_ok(self, old(self), jump_body_v@, 0)"], decreases="arm.patterns@.len() - verif_pi", body_prologue=BCAST),
             2: dict(invariant=["verif_j <= jump_body_v@.len()", "gen(old(self), self)", "jumps_ok(self, old(self), jump_end_v@, 0)", "jumps_ok(self, old(self), jump_body_v@, verif_j as int)",
                                "is_start(self, jump_over_body as int)", "op_at(code(self), jump_over_body as int) == Opcode::Jump", "jump_over_body >= code(old(self)).len()", "fresh(&sc(self))", "code(self).len() > code(old(self)).len()"],
                     decreases="jump_body_v@.len() - verif_j", body_prologue=BCAST),
             3: dict(invariant=["verif_j <= jump_end_v@.len()", "gen(old(self), self)", "jumps_ok(self, old(self), jump_end_v@, verif_j as int)"], decreases="jump_end_v@.len() - verif_j", body_prologue=BCAST)}),
    m("new", ret="r", ensures=["cwf(&r)", "r.scope_index == 0", "code(&r).len() == 0", "r.encoding_error is None", "st_depth(&r.symtab) == 0"],
      rewrites=[dict(rule="R7", re=r"let mut symtab = SymbolTable::default\(\);.*?(?=let main_scope)", to="let symtab = symtab_with_builtins();\n        ", expect=1, strict=True,
                     why="the registration of builtin functions and variables in a fresh symbol table (two loops over static tables) replaced by a shim: it touches nothing but that table"),
                dict(rule="R9g", re=r"(let main_scope = scope_default\(\);|let main_scope = CompilationScope::default\(\);)", to=r"\1 let ghost verif_ms = main_scope;", why="ghost copy of the empty scope")],
      epilogue="assert(verif_ret.scopes@[0] == verif_ret.scopes@[verif_ret.scope_index as int]); lemma_new(&verif_ret);"),
    m("new_with_state", ret="r", ensures=["cwf(&r)", "r.scope_index == 0", "code(&r).len() == 0", "r.encoding_error is None"],
      rewrites=[dict(rule="R0", re=r"Self::new\(\)", to="Compiler::new()", why="Self -> the type's name")]),
    m("compile", ret="r", requires=PRE, ensures=["r is Ok ==> cwf(final(self)) && final(self).encoding_error is None"], props=["C01", "C14"]),
    m("enter_scope", requires=PRE,
      ensures=["cwf(final(self))", "final(self).scope_index == old(self).scope_index + 1", "final(self).scopes@.len() == old(self).scopes@.len() + 1",
               "forall|j: int| 0 <= j < old(self).scopes@.len() ==> final(self).scopes@[j] == old(self).scopes@[j]",
               "code(final(self)).len() == 0", "sc(final(self)).loop_stack@.len() == 0", "sc(final(self)).scope_depth == 0", "!sc(final(self)).is_filter",
               "st_depth(&final(self).symtab) == st_depth(&old(self).symtab) + 1", "final(self).encoding_error == old(self).encoding_error", "entered(old(self), final(self))"],
      prologue=" let verif_n = self.scopes.len(); ", epilogue="lemma_entered(old(self), self);"),
    m("leave_scope", ret="r", requires=PRE + ["old(self).scope_index >= 1", "st_depth(&old(self).symtab) >= 1"],
      ensures=["cwf(final(self))", "final(self).scope_index == old(self).scope_index - 1", "final(self).scopes@ == old(self).scopes@.drop_last()",
               "st_depth(&final(self).symtab) == st_depth(&old(self).symtab) - 1", "final(self).encoding_error == old(self).encoding_error", "r == sc(old(self)).instructions"]),
]

UNIT = dict(
    name="cgen",
    prelude="units/cgen/prelude.rs",
    uses="use std::rc::Rc;",
    lemmas={"lemma_prefix_starts": ["C01"], "lemma_starts_unique": ["C01"], "lemma_prefix_boundary": ["C01"], "lemma_starts_mono": ["C01"], "lemma_append": ["C01"], "lemma_truncate": ["C01"],
            "lemma_patch": ["C01"], "lemma_emit": ["C01", "C14"], "lemma_patched": ["C01", "C14"], "lemma_removed": ["C01"], "lemma_replaced": ["C01"], "lemma_loop_popped": ["C01"], "lemma_break_recorded": ["C01"],
            "lemma_ext_trans": ["C01"], "lemma_gen_trans": ["C01"], "lemma_start_kept": ["C01"], "lemma_left": ["C01"],
            "lemma_and_shape": ["C06"], "lemma_or_shape": ["C06"], "lemma_if_shape": ["C06"], "lemma_while_jumps": ["C06"], "lemma_jumps_kept": ["C06"], "lemma_loop_tail": ["C06"], "lemma_patched_jump": ["C06", "C14"], "lemma_target": ["C06", "C14"]},
    global_rewrites=RW2 + RW,
    rlimit=100,
    multiple_errors=3,     # a failing function is re-checked once per reported error; the three big functions are expensive
    timeout=1200,
    items=[
        dict(kind="enum", file=O, path="Opcode", attrs=["#[derive(Clone, Copy, PartialEq, Eq, Structural)]"]),
        dict(kind="struct", file=DF, path="Instructions"),
        dict(kind="struct", file=CE, path="CompileError"),
        dict(kind="struct", file=C, path="EmittedInstruction"),
        dict(kind="struct", file=C, path="LoopContext"),
        dict(kind="struct", file=C, path="CompilationScope"),
        dict(kind="struct", file=C, path="Compiler"),
    ] + AST + HELPERS + COMPILE,
)
