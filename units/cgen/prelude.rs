global size_of usize == 8;

// ---- types the code generator treats as opaque ----
#[verifier::external_body] pub struct Object { _p: () }
#[verifier::external_body] pub struct SymbolTable { _p: () }
#[verifier::external_body] pub struct CompiledFunction { _p: () }
#[verifier::external_body] pub struct PacketPropType { _p: () }

// ================= instruction encoding: the contracts proved on the real code in the bytecode unit =================
pub open spec fn opcode_widths(op: Opcode) -> Seq<usize> {
    match op {
        Opcode::Constant | Opcode::Jump | Opcode::JumpIfFalse | Opcode::JumpIfFalseNoPop
        | Opcode::DefineGlobal | Opcode::GetGlobal | Opcode::SetGlobal | Opcode::Array | Opcode::Map => seq![2usize],
        Opcode::Call | Opcode::DefineLocal | Opcode::GetLocal | Opcode::SetLocal | Opcode::GetBuiltinFn
        | Opcode::GetBuiltinVar | Opcode::GetFree | Opcode::SetFree | Opcode::GetProp | Opcode::SetProp => seq![1usize],
        Opcode::Closure => seq![2usize, 1usize],
        _ => Seq::<usize>::empty(),
    }
}
// instruction length = 1 + sum of the operand widths
pub open spec fn ilen(op: Opcode) -> int {
    match op {
        Opcode::Constant | Opcode::Jump | Opcode::JumpIfFalse | Opcode::JumpIfFalseNoPop
        | Opcode::DefineGlobal | Opcode::GetGlobal | Opcode::SetGlobal | Opcode::Array | Opcode::Map => 3,
        Opcode::Call | Opcode::DefineLocal | Opcode::GetLocal | Opcode::SetLocal | Opcode::GetBuiltinFn
        | Opcode::GetBuiltinVar | Opcode::GetFree | Opcode::SetFree | Opcode::GetProp | Opcode::SetProp => 2,
        Opcode::Closure => 4,
        _ => 1,
    }
}

// discriminant of Opcode in declaration order, and its inverse (both checked against the real From impls below)
pub open spec fn byte_of(op: Opcode) -> u8 {
    match op {
        Opcode::Constant => 0u8,
        Opcode::Pop => 1u8,
        Opcode::Add => 2u8,
        Opcode::Sub => 3u8,
        Opcode::Mul => 4u8,
        Opcode::Div => 5u8,
        Opcode::Mod => 6u8,
        Opcode::True => 7u8,
        Opcode::False => 8u8,
        Opcode::Equal => 9u8,
        Opcode::NotEqual => 10u8,
        Opcode::Greater => 11u8,
        Opcode::GreaterEq => 12u8,
        Opcode::Minus => 13u8,
        Opcode::Bang => 14u8,
        Opcode::Jump => 15u8,
        Opcode::JumpIfFalse => 16u8,
        Opcode::JumpIfFalseNoPop => 17u8,
        Opcode::Null => 18u8,
        Opcode::DefineGlobal => 19u8,
        Opcode::GetGlobal => 20u8,
        Opcode::SetGlobal => 21u8,
        Opcode::Array => 22u8,
        Opcode::Map => 23u8,
        Opcode::GetIndex => 24u8,
        Opcode::SetIndex => 25u8,
        Opcode::Call => 26u8,
        Opcode::ReturnValue => 27u8,
        Opcode::Return => 28u8,
        Opcode::DefineLocal => 29u8,
        Opcode::GetLocal => 30u8,
        Opcode::SetLocal => 31u8,
        Opcode::GetBuiltinFn => 32u8,
        Opcode::GetBuiltinVar => 33u8,
        Opcode::Closure => 34u8,
        Opcode::GetFree => 35u8,
        Opcode::SetFree => 36u8,
        Opcode::CurrClosure => 37u8,
        Opcode::Not => 38u8,
        Opcode::And => 39u8,
        Opcode::Or => 40u8,
        Opcode::Xor => 41u8,
        Opcode::ShiftLeft => 42u8,
        Opcode::ShiftRight => 43u8,
        Opcode::Dup => 44u8,
        Opcode::GetProp => 45u8,
        Opcode::SetProp => 46u8,
        Opcode::Dollar => 47u8,
        Opcode::Invalid => 48u8,
    }
}
pub open spec fn op_of(b: u8) -> Opcode {
    if b == 0 { Opcode::Constant } else if b == 1 { Opcode::Pop } else if b == 2 { Opcode::Add } else if b == 3 { Opcode::Sub } else if b == 4 { Opcode::Mul } else if b == 5 { Opcode::Div } else if b == 6 { Opcode::Mod } else if b == 7 { Opcode::True } else if b == 8 { Opcode::False } else if b == 9 { Opcode::Equal } else if b == 10 { Opcode::NotEqual } else if b == 11 { Opcode::Greater } else if b == 12 { Opcode::GreaterEq } else if b == 13 { Opcode::Minus } else if b == 14 { Opcode::Bang } else if b == 15 { Opcode::Jump } else if b == 16 { Opcode::JumpIfFalse } else if b == 17 { Opcode::JumpIfFalseNoPop } else if b == 18 { Opcode::Null } else if b == 19 { Opcode::DefineGlobal } else if b == 20 { Opcode::GetGlobal } else if b == 21 { Opcode::SetGlobal } else if b == 22 { Opcode::Array } else if b == 23 { Opcode::Map } else if b == 24 { Opcode::GetIndex } else if b == 25 { Opcode::SetIndex } else if b == 26 { Opcode::Call } else if b == 27 { Opcode::ReturnValue } else if b == 28 { Opcode::Return } else if b == 29 { Opcode::DefineLocal } else if b == 30 { Opcode::GetLocal } else if b == 31 { Opcode::SetLocal } else if b == 32 { Opcode::GetBuiltinFn } else if b == 33 { Opcode::GetBuiltinVar } else if b == 34 { Opcode::Closure } else if b == 35 { Opcode::GetFree } else if b == 36 { Opcode::SetFree } else if b == 37 { Opcode::CurrClosure } else if b == 38 { Opcode::Not } else if b == 39 { Opcode::And } else if b == 40 { Opcode::Or } else if b == 41 { Opcode::Xor } else if b == 42 { Opcode::ShiftLeft } else if b == 43 { Opcode::ShiftRight } else if b == 44 { Opcode::Dup } else if b == 45 { Opcode::GetProp } else if b == 46 { Opcode::SetProp } else if b == 47 { Opcode::Dollar } else { Opcode::Invalid }
}
pub proof fn lemma_op_of_byte(op: Opcode) requires op != Opcode::Invalid ensures op_of(byte_of(op)) == op, byte_of(op) <= 47 {}
pub open spec fn fits(w: usize, v: usize) -> bool { if w == 2 { v <= 0xffff } else { v <= 0xff } }
pub open spec fn min(a: int, b: int) -> int { if a < b { a } else { b } }
pub open spec fn fits_all(op: Opcode, operands: Seq<usize>) -> bool {
    forall|i: int| 0 <= i < min(operands.len() as int, opcode_widths(op).len() as int) ==> fits(#[trigger] opcode_widths(op)[i], operands[i])
}
pub open spec fn hi(v: usize) -> u8 { ((v as u16) / 256) as u8 }
pub open spec fn lo(v: usize) -> u8 { ((v as u16) % 256) as u8 }
// the bytes make() produces for (op, operands): opcode byte, then each operand big-endian in its width
// (bytecode unit: code[0] == opcode_to_u8_spec(op), code[1..] == enc_ops(widths, operands), len == 1 + sum_widths)
pub open spec fn ins_bytes(op: Opcode, ops: Seq<usize>) -> Seq<u8> {
    let b = byte_of(op);
    if ilen(op) == 1 { seq![b] }
    else if ilen(op) == 2 { seq![b, ops[0] as u8] }
    else if ilen(op) == 3 { seq![b, hi(ops[0]), lo(ops[0])] }
    else { seq![b, hi(ops[0]), lo(ops[0]), ops[1] as u8] }
}
#[verifier::external_body]
pub fn make(op: Opcode, operands: &[usize], line: usize) -> (r: Instructions)
    ensures
        op == Opcode::Invalid ==> r.code@.len() == 0 && r.lines@.len() == 0,
        op != Opcode::Invalid && operands@.len() >= opcode_widths(op).len() ==> r.code@ == ins_bytes(op, operands@) && r.lines@.len() == r.code@.len(),
        forall|i: int| 0 <= i < r.lines@.len() ==> r.lines@[i] == line,
{ unimplemented!() }
#[verifier::external_body]
pub fn operands_fit(op: Opcode, operands: &[usize]) -> (r: bool) ensures r == fits_all(op, operands@) { unimplemented!() }

// slices written as array literals
#[verifier::external_body] pub fn s0() -> (r: &'static [usize]) ensures r@.len() == 0 { &[] }
#[verifier::external_body] pub fn s1(x: usize) -> (r: &'static [usize]) ensures r@ =~= seq![x] { unimplemented!() }
#[verifier::external_body] pub fn s2(x: usize, y: usize) -> (r: &'static [usize]) ensures r@ =~= seq![x, y] { unimplemented!() }
pub fn get_code_at(i: &Instructions, p: usize) -> (r: u8) requires p < i.code@.len() ensures r == i.code@[p as int] { i.code[p] }
pub fn get_lines_at(i: &Instructions, p: usize) -> (r: usize) requires p < i.lines@.len() ensures r == i.lines@[p as int] { i.lines[p] }

// R1: derived Clone / Default on plain data = structural copy / empty value
#[verifier::external_body]
pub fn clone_instructions(i: &Instructions) -> (r: Instructions) ensures r == *i { unimplemented!() }
#[verifier::external_body]
pub fn clone_emitted(i: &EmittedInstruction) -> (r: EmittedInstruction) ensures r == *i { unimplemented!() }
#[verifier::external_body]
pub fn scope_default() -> (r: CompilationScope)
    ensures r.instructions.code@.len() == 0, r.instructions.lines@.len() == 0, r.last_ins == r.prev_ins, r.last_ins.position == 0,
            r.loop_stack@.len() == 0, r.scope_depth == 0, !r.is_filter
{ unimplemented!() }
#[verifier::external_body]
pub fn scope_take(v: &mut Vec<CompilationScope>, i: usize) -> (r: CompilationScope)
    requires i < old(v)@.len() ensures r == old(v)@[i as int], final(v)@.len() == old(v)@.len(),
             forall|j: int| 0 <= j < old(v)@.len() && j != i ==> final(v)@[j] == old(v)@[j]
{ unimplemented!() }
#[verifier::external_body]
pub fn scope_put(v: &mut Vec<CompilationScope>, i: usize, s: CompilationScope)
    requires i < old(v)@.len() ensures final(v)@ == old(v)@.update(i as int, s)
{ unimplemented!() }
#[verifier::external_body] pub fn str_to_string(s: &str) -> (r: String) { s.to_string() }
#[verifier::external_body] pub fn fmt_any() -> (r: String) { String::new() }
#[verifier::external_body]
pub fn u8_to_vec(v: &Vec<u8>, n: usize) -> (r: Vec<u8>) requires n <= v@.len() ensures r@ =~= v@.subrange(0, n as int) { v[..n].to_vec() }
#[verifier::external_body]
pub fn usize_to_vec(v: &Vec<usize>, n: usize) -> (r: Vec<usize>) requires n <= v@.len() ensures r@ =~= v@.subrange(0, n as int) { v[..n].to_vec() }

// ================= the instruction stream of a scope =================
pub open spec fn op_at(code: Seq<u8>, p: int) -> Opcode { op_of(code[p]) }
pub open spec fn nxt(code: Seq<u8>, st: Seq<int>, i: int) -> int { st[i] + ilen(op_at(code, st[i])) }
// st lists the positions at which the instructions of `code` start
pub open spec fn starts_ok(code: Seq<u8>, st: Seq<int>) -> bool {
    &&& (st.len() == 0) == (code.len() == 0)
    &&& forall|i: int| 0 <= i < st.len() ==> 0 <= #[trigger] st[i] < code.len() && op_at(code, st[i]) != Opcode::Invalid
    &&& (st.len() > 0 ==> st[0] == 0)
    &&& forall|i: int| 0 <= i < st.len() ==> #[trigger] nxt(code, st, i) == (if i + 1 < st.len() { st[i + 1] } else { code.len() as int })
}
pub open spec fn stream_ok(code: Seq<u8>) -> bool { exists|st: Seq<int>| starts_ok(code, st) }
pub open spec fn starts(code: Seq<u8>) -> Seq<int> { choose|st: Seq<int>| starts_ok(code, st) }
pub open spec fn is_prefix(a: Seq<u8>, b: Seq<u8>) -> bool { a.len() <= b.len() && b.subrange(0, a.len() as int) == a }

pub proof fn lemma_prefix_starts(a: Seq<u8>, sa: Seq<int>, b: Seq<u8>, sb: Seq<int>, i: int)
    requires starts_ok(a, sa), starts_ok(b, sb), is_prefix(a, b), 0 <= i < sa.len()
    ensures i < sb.len(), sb[i] == sa[i]
    decreases i
{
    assert(forall|k: int| 0 <= k < a.len() ==> a[k] == b.subrange(0, a.len() as int)[k]);
    if i == 0 {
    } else {
        lemma_prefix_starts(a, sa, b, sb, i - 1);
        assert(nxt(a, sa, i - 1) == sa[i]);
        assert(a[sa[i - 1]] == b[sb[i - 1]]);
        assert(nxt(b, sb, i - 1) == nxt(a, sa, i - 1));
    }
}
pub proof fn lemma_starts_unique(code: Seq<u8>, st: Seq<int>)
    requires starts_ok(code, st)
    ensures stream_ok(code), starts(code) == st
{
    let s2 = starts(code);
    assert(starts_ok(code, s2));
    assert(code.subrange(0, code.len() as int) =~= code);
    assert forall|i: int| 0 <= i < st.len() implies i < s2.len() && s2[i] == st[i] by { lemma_prefix_starts(code, st, code, s2, i); }
    assert forall|i: int| 0 <= i < s2.len() implies i < st.len() && st[i] == s2[i] by { lemma_prefix_starts(code, s2, code, st, i); }
    if st.len() < s2.len() { let n = st.len() as int; assert(s2[n] < code.len()); }
    if s2.len() < st.len() { let n = s2.len() as int; assert(st[n] < code.len()); }
    assert(s2 =~= st);
}
// a prefix that is itself a stream ends on an instruction boundary of the longer stream
pub proof fn lemma_prefix_boundary(a: Seq<u8>, b: Seq<u8>)
    requires stream_ok(a), stream_ok(b), is_prefix(a, b)
    ensures starts(a).len() <= starts(b).len(), starts(b).subrange(0, starts(a).len() as int) == starts(a),
            a.len() < b.len() ==> starts(a).len() < starts(b).len() && starts(b)[starts(a).len() as int] == a.len(),
            a.len() == b.len() ==> starts(a).len() == starts(b).len(),
{
    let sa = starts(a); let sb = starts(b);
    assert(forall|k: int| 0 <= k < a.len() ==> a[k] == b.subrange(0, a.len() as int)[k]);
    assert forall|i: int| 0 <= i < sa.len() implies i < sb.len() && sb[i] == sa[i] by { lemma_prefix_starts(a, sa, b, sb, i); }
    let n = sa.len() as int;
    if n > 0 {
        assert(nxt(a, sa, n - 1) == a.len());
        assert(a[sa[n - 1]] == b[sb[n - 1]]);
        assert(nxt(b, sb, n - 1) == a.len());
        if n < sb.len() { assert(sb[n] == a.len()); }
    } else {
        if b.len() > 0 { assert(sb[0] == 0); }
    }
    if n > 0 && a.len() == b.len() && n < sb.len() { assert(sb[n] < b.len()); }
    assert(sb.subrange(0, n) =~= sa);
}
pub proof fn lemma_starts_mono(code: Seq<u8>, st: Seq<int>, i: int, j: int)
    requires starts_ok(code, st), 0 <= i < j < st.len()
    ensures nxt(code, st, i) <= st[j]
    decreases j - i
{
    if i + 1 < j {
        lemma_starts_mono(code, st, i + 1, j);
        assert(nxt(code, st, i) == st[i + 1]);
        assert(nxt(code, st, i + 1) > st[i + 1]);
    } else {
        assert(nxt(code, st, i) == st[i + 1]);
    }
}
// appending one well-formed instruction
pub proof fn lemma_append(code: Seq<u8>, op: Opcode, bytes: Seq<u8>)
    requires stream_ok(code), op != Opcode::Invalid, bytes.len() == ilen(op), op_of(bytes[0]) == op
    ensures stream_ok(code + bytes), starts(code + bytes) == starts(code).push(code.len() as int)
{
    let st = starts(code);
    let c2 = code + bytes;
    let s2 = st.push(code.len() as int);
    assert forall|i: int| 0 <= i < s2.len() implies #[trigger] nxt(c2, s2, i) == (if i + 1 < s2.len() { s2[i + 1] } else { c2.len() as int }) by {
        if i < st.len() {
            assert(c2[st[i]] == code[st[i]]);
            assert(nxt(code, st, i) == (if i + 1 < st.len() { st[i + 1] } else { code.len() as int }));
        } else {
            assert(c2[code.len() as int] == bytes[0]);
        }
    }
    assert forall|i: int| 0 <= i < s2.len() implies 0 <= #[trigger] s2[i] < c2.len() && op_at(c2, s2[i]) != Opcode::Invalid by {
        if i < st.len() { assert(c2[st[i]] == code[st[i]]); } else { assert(c2[code.len() as int] == bytes[0]); }
    }
    assert(starts_ok(c2, s2));
    lemma_starts_unique(c2, s2);
}
// cutting off the last instruction
pub proof fn lemma_truncate(code: Seq<u8>)
    requires stream_ok(code), code.len() > 0
    ensures stream_ok(code.subrange(0, starts(code).last())), starts(code.subrange(0, starts(code).last())) == starts(code).drop_last(),
            0 <= starts(code).last() < code.len()
{
    let st = starts(code);
    let p = st.last();
    let c2 = code.subrange(0, p);
    let s2 = st.drop_last();
    let n = st.len() as int;
    assert(st[n - 1] == p);
    assert forall|i: int| 0 <= i < s2.len() implies 0 <= #[trigger] s2[i] < c2.len() && op_at(c2, s2[i]) != Opcode::Invalid
        && nxt(c2, s2, i) == (if i + 1 < s2.len() { s2[i + 1] } else { c2.len() as int }) by {
        lemma_starts_mono(code, st, i, n - 1);
        assert(nxt(code, st, i) == st[i + 1]);
        assert(ilen(op_at(code, st[i])) >= 1);
        assert(c2[s2[i]] == code[st[i]]);
    }
    if n == 1 { assert(p == 0); } else { lemma_starts_mono(code, st, 0, n - 1); assert(ilen(op_at(code, st[0])) >= 1); }
    assert(starts_ok(c2, s2));
    lemma_starts_unique(c2, s2);
}
// rewriting bytes strictly inside one instruction (its operands) keeps the instruction boundaries
pub proof fn lemma_patch(code: Seq<u8>, c2: Seq<u8>, k: int)
    requires stream_ok(code), 0 <= k < starts(code).len(), c2.len() == code.len(),
             forall|i: int| 0 <= i < code.len() && !(starts(code)[k] < i < nxt(code, starts(code), k)) ==> c2[i] == code[i]
    ensures stream_ok(c2), starts(c2) == starts(code)
{
    let st = starts(code);
    assert forall|i: int| 0 <= i < st.len() implies c2[#[trigger] st[i]] == code[st[i]] by {
        if i < k { lemma_starts_mono(code, st, i, k); assert(ilen(op_at(code, st[i])) >= 1); }
        if i > k { lemma_starts_mono(code, st, k, i); }
    }
    assert forall|i: int| 0 <= i < st.len() implies #[trigger] nxt(c2, st, i) == (if i + 1 < st.len() { st[i + 1] } else { c2.len() as int }) by {
        assert(nxt(code, st, i) == (if i + 1 < st.len() { st[i + 1] } else { code.len() as int }));
    }
    assert(starts_ok(c2, st));
    lemma_starts_unique(c2, st);
}
pub proof fn lemma_empty_stream(code: Seq<u8>)
    requires code.len() == 0 ensures stream_ok(code), starts(code).len() == 0
{
    assert(starts_ok(code, Seq::<int>::empty()));
    lemma_starts_unique(code, Seq::<int>::empty());
}

// ================= representation invariant of the compiler =================
pub open spec fn loops_ok(ls: Seq<LoopContext>, code: Seq<u8>, st: Seq<int>) -> bool {
    forall|k: int, j: int| 0 <= k < ls.len() && 0 <= j < ls[k].break_positions@.len() ==>
        st.contains(#[trigger] ls[k].break_positions@[j] as int) && op_at(code, ls[k].break_positions@[j] as int) == Opcode::Jump
}
pub open spec fn swf(s: &CompilationScope) -> bool {
    let code = s.instructions.code@;
    &&& s.instructions.lines@.len() == code.len()
    &&& stream_ok(code)
    &&& (code.len() > 0 ==> s.last_ins.position == starts(code).last() && s.last_ins.opcode == op_at(code, starts(code).last()))
    &&& loops_ok(s.loop_stack@, code, starts(code))
}
// the record of the instruction before the last one is accurate (it is not after remove_last_pop, until the next emit)
pub open spec fn fresh(s: &CompilationScope) -> bool {
    let st = starts(s.instructions.code@);
    st.len() >= 2 ==> s.prev_ins.position == st[st.len() - 2] && s.prev_ins.opcode == op_at(s.instructions.code@, st[st.len() - 2])
}
pub open spec fn cwf(c: &Compiler) -> bool {
    &&& c.scopes@.len() == c.scope_index + 1
    &&& forall|i: int| 0 <= i < c.scopes@.len() ==> swf(&#[trigger] c.scopes@[i])
}
pub open spec fn sc(c: &Compiler) -> CompilationScope { c.scopes@[c.scope_index as int] }
pub open spec fn code(c: &Compiler) -> Seq<u8> { sc(c).instructions.code@ }
pub open spec fn lns(c: &Compiler) -> Seq<usize> { sc(c).instructions.lines@ }
pub open spec fn is_start(c: &Compiler, p: int) -> bool { starts(code(c)).contains(p) }

// everything but the scope stack is unchanged
pub open spec fn rest_same(o: &Compiler, f: &Compiler) -> bool {
    f.constants == o.constants && f.symtab == o.symtab && f.scope_index == o.scope_index && f.filters == o.filters
        && f.filter_end == o.filter_end && f.encoding_error == o.encoding_error && f.scopes@.len() == o.scopes@.len()
        && forall|j: int| 0 <= j < o.scopes@.len() && j != o.scope_index ==> f.scopes@[j] == o.scopes@[j]
}
pub open spec fn lctx_ext(a: LoopContext, b: LoopContext, mark: int) -> bool {
    a.label == b.label && a.begin == b.begin && a.break_positions@.len() <= b.break_positions@.len()
        && b.break_positions@.subrange(0, a.break_positions@.len() as int) == a.break_positions@
        && forall|j: int| a.break_positions@.len() <= j < b.break_positions@.len() ==> #[trigger] b.break_positions@[j] >= mark
}
pub open spec fn loops_ext(a: Seq<LoopContext>, b: Seq<LoopContext>, mark: int) -> bool {
    a.len() == b.len() && forall|k: int| 0 <= k < a.len() ==> lctx_ext(#[trigger] a[k], b[k], mark)
}
pub uninterp spec fn st_depth(t: &SymbolTable) -> nat;      // number of enclosing symbol tables
// what every code-generating function does to the compiler: it appends to the current scope's stream (everything that
// was there stays byte for byte), records `break` placeholders only in what it appended, and leaves the scope stack,
// the block depth and the symbol-table nesting as it found them
pub open spec fn ext0(o: &Compiler, f: &Compiler) -> bool {
    &&& cwf(f) && f.scope_index == o.scope_index && f.scopes@.len() == o.scopes@.len()
    &&& forall|j: int| 0 <= j < o.scope_index ==> f.scopes@[j] == o.scopes@[j]
    &&& is_prefix(code(o), code(f)) && lns(o).len() == code(o).len() && lns(o).len() <= lns(f).len() && lns(f).subrange(0, lns(o).len() as int) == lns(o)
    &&& sc(f).is_filter == sc(o).is_filter
    &&& loops_ext(sc(o).loop_stack@, sc(f).loop_stack@, code(o).len() as int)
    &&& st_depth(&f.symtab) == st_depth(&o.symtab)
    &&& (o.encoding_error is Some ==> f.encoding_error is Some)
}
pub open spec fn ext(o: &Compiler, f: &Compiler) -> bool { ext0(o, f) && sc(f).scope_depth == sc(o).scope_depth }
pub open spec fn tail_ok(o: &Compiler, f: &Compiler) -> bool {
    &&& (code(f).len() == code(o).len() ==> code(f) == code(o) && lns(f) == lns(o) && sc(f).last_ins == sc(o).last_ins && sc(f).prev_ins == sc(o).prev_ins)
    &&& (code(f).len() > code(o).len() ==> sc(f).last_ins.position >= code(o).len())
}
pub open spec fn gen(o: &Compiler, f: &Compiler) -> bool { ext(o, f) && tail_ok(o, f) }
// statements also leave the previous-instruction record accurate whenever they emitted anything
pub open spec fn gen_s(o: &Compiler, f: &Compiler) -> bool { gen(o, f) && (code(f).len() > code(o).len() ==> fresh(&sc(f))) }

pub broadcast proof fn lemma_ext_trans(a: &Compiler, b: &Compiler, c: &Compiler)
    requires #[trigger] ext0(a, b), #[trigger] ext0(b, c)
    ensures ext0(a, c)
{
    assert(code(c).subrange(0, code(a).len() as int) =~= code(b).subrange(0, code(a).len() as int));
    assert(lns(c).subrange(0, lns(a).len() as int) =~= lns(b).subrange(0, lns(a).len() as int));
    let la = sc(a).loop_stack@; let lb = sc(b).loop_stack@; let lc = sc(c).loop_stack@;
    assert forall|k: int| 0 <= k < la.len() implies lctx_ext(#[trigger] la[k], lc[k], code(a).len() as int) by {
        assert(lctx_ext(la[k], lb[k], code(a).len() as int));
        assert(lctx_ext(lb[k], lc[k], code(b).len() as int));
        let x = la[k].break_positions@; let y = lb[k].break_positions@; let z = lc[k].break_positions@;
        assert(z.subrange(0, x.len() as int) =~= y.subrange(0, x.len() as int));
        assert forall|j: int| x.len() <= j < z.len() implies #[trigger] z[j] >= code(a).len() by {
            if j < y.len() { assert(z.subrange(0, y.len() as int)[j] == y[j]); }
        }
    }
}

// ================= the stream-modifying helpers keep the invariant =================
pub open spec fn others_same(o: &Compiler, f: &Compiler) -> bool {
    f.scope_index == o.scope_index && f.scopes@.len() == o.scopes@.len()
        && (forall|j: int| 0 <= j < o.scopes@.len() && j != o.scope_index ==> f.scopes@[j] == o.scopes@[j])
        && f.constants == o.constants && f.symtab == o.symtab && f.filters == o.filters && f.filter_end == o.filter_end
        && (o.encoding_error is Some ==> f.encoding_error is Some)
}
pub open spec fn scope_meta_same(o: &Compiler, f: &Compiler) -> bool {
    sc(f).loop_stack == sc(o).loop_stack && sc(f).scope_depth == sc(o).scope_depth && sc(f).is_filter == sc(o).is_filter
}
pub proof fn lemma_cwf_other_scopes(o: &Compiler, f: &Compiler)
    requires cwf(o), others_same(o, f), swf(&sc(f))
    ensures cwf(f)
{
    assert forall|i: int| 0 <= i < f.scopes@.len() implies swf(&#[trigger] f.scopes@[i]) by {
        if i != o.scope_index { assert(f.scopes@[i] == o.scopes@[i]); assert(swf(&o.scopes@[i])); }
    }
}
pub proof fn lemma_emit(o: &Compiler, f: &Compiler, op: Opcode, operands: Seq<usize>)
    requires cwf(o), op != Opcode::Invalid, operands.len() >= opcode_widths(op).len(), others_same(o, f), scope_meta_same(o, f),
        code(f) == code(o) + ins_bytes(op, operands), lns(f).len() == code(f).len(), lns(o).len() <= lns(f).len(), lns(f).subrange(0, lns(o).len() as int) == lns(o),
        sc(f).last_ins.opcode == op, sc(f).last_ins.position == code(o).len(), sc(f).prev_ins == sc(o).last_ins,
    ensures cwf(f), fresh(&sc(f)), ext(o, f), starts(code(f)) == starts(code(o)).push(code(o).len() as int),
{
    let bytes = ins_bytes(op, operands);
    lemma_op_of_byte(op);
    assert(bytes.len() == ilen(op));
    assert(bytes[0] == byte_of(op));
    assert(swf(&sc(o)));
    lemma_append(code(o), op, bytes);
    let st = starts(code(o)); let s2 = starts(code(f));
    let n = st.len() as int;
    assert(s2[n] == code(o).len());
    assert(s2.last() == code(o).len());
    assert(code(f)[code(o).len() as int] == bytes[0]);
    assert forall|i: int| 0 <= i < n implies code(f)[#[trigger] st[i]] == code(o)[st[i]] by { assert(starts_ok(code(o), st)); }
    let ls = sc(f).loop_stack@;
    assert forall|k: int, j: int| 0 <= k < ls.len() && 0 <= j < ls[k].break_positions@.len() implies
        s2.contains(#[trigger] ls[k].break_positions@[j] as int) && op_at(code(f), ls[k].break_positions@[j] as int) == Opcode::Jump by {
        let bp = ls[k].break_positions@[j] as int;
        assert(st.contains(bp) && op_at(code(o), bp) == Opcode::Jump);
        let i = choose|i: int| 0 <= i < st.len() && st[i] == bp;
        assert(s2[i] == bp);
    }
    assert(swf(&sc(f)));
    lemma_cwf_other_scopes(o, f);
    if n >= 1 { assert(s2[n - 1] == st[n - 1]); assert(st.last() == st[n - 1]); }
    assert(fresh(&sc(f)));
    assert(code(f).subrange(0, code(o).len() as int) =~= code(o));
    let la = sc(o).loop_stack@;
    assert forall|k: int| 0 <= k < la.len() implies lctx_ext(#[trigger] la[k], ls[k], code(o).len() as int) by {
        assert(la[k].break_positions@.subrange(0, la[k].break_positions@.len() as int) =~= la[k].break_positions@);
    }
    assert(ext(o, f));
}
// rewriting the operand of the instruction at `pos` (an instruction with exactly one operand)
pub open spec fn patched(co: Seq<u8>, cf: Seq<u8>, pos: int, operand: usize) -> bool {
    let op = op_at(co, pos);
    cf == co.subrange(0, pos) + ins_bytes(op, seq![operand]) + co.subrange(pos + ilen(op), co.len() as int)
}
pub proof fn lemma_patched(o: &Compiler, f: &Compiler, pos: int, operand: usize)
    requires cwf(o), is_start(o, pos), ilen(op_at(code(o), pos)) == 2 || ilen(op_at(code(o), pos)) == 3, others_same(o, f), scope_meta_same(o, f),
        patched(code(o), code(f), pos, operand), lns(f) == lns(o), sc(f).last_ins == sc(o).last_ins, sc(f).prev_ins == sc(o).prev_ins,
    ensures cwf(f), starts(code(f)) == starts(code(o)), code(f).len() == code(o).len(),
        forall|p: int| #[trigger] is_start(o, p) ==> op_at(code(f), p) == op_at(code(o), p),
        fresh(&sc(o)) ==> fresh(&sc(f)),
        forall|i: int| 0 <= i < code(o).len() && !(pos < i < pos + ilen(op_at(code(o), pos))) ==> code(f)[i] == code(o)[i],
        forall|p: int| #[trigger] is_start(o, p) ==> is_start(f, p),
{
    let co = code(o); let cf = code(f); let st = starts(co);
    let op = op_at(co, pos);
    assert(swf(&sc(o)));
    let k = choose|k: int| 0 <= k < st.len() && st[k] == pos;
    assert(starts_ok(co, st));
    assert(op != Opcode::Invalid);
    lemma_op_of_byte(op);
    assert(nxt(co, st, k) <= co.len());
    let bytes = ins_bytes(op, seq![operand]);
    assert(bytes.len() == ilen(op));
    assert(cf.len() == co.len());
    assert forall|i: int| 0 <= i < co.len() && !(pos < i < pos + ilen(op)) implies cf[i] == co[i] by {
        if i == pos { assert(cf[pos] == bytes[0]); assert(bytes[0] == byte_of(op)); assert(op_of(co[pos]) == op); assert(co[pos] == byte_of(op)) by { lemma_byte_of_op(co[pos]); } }
    }
    lemma_patch(co, cf, k);
    assert forall|p: int| #[trigger] is_start(o, p) implies op_at(cf, p) == op_at(co, p) by {
        let i = choose|i: int| 0 <= i < st.len() && st[i] == p;
        if i < k { lemma_starts_mono(co, st, i, k); assert(ilen(op_at(co, st[i])) >= 1); }
        if i > k { lemma_starts_mono(co, st, k, i); }
    }
    let ls = sc(f).loop_stack@;
    assert forall|kk: int, j: int| 0 <= kk < ls.len() && 0 <= j < ls[kk].break_positions@.len() implies
        st.contains(#[trigger] ls[kk].break_positions@[j] as int) && op_at(cf, ls[kk].break_positions@[j] as int) == Opcode::Jump by {
        let bp = ls[kk].break_positions@[j] as int;
        assert(st.contains(bp) && op_at(co, bp) == Opcode::Jump);
        assert(is_start(o, bp));
    }
    if co.len() > 0 { assert(st.contains(st.last())) by { assert(st[st.len() - 1] == st.last()); } assert(is_start(o, st.last())); }
    assert(swf(&sc(f)));
    lemma_cwf_other_scopes(o, f);
    if fresh(&sc(o)) && st.len() >= 2 { assert(st.contains(st[st.len() - 2])); assert(is_start(o, st[st.len() - 2])); }
}
// op_of is injective on valid bytes: a byte that decodes to a valid opcode is that opcode's byte
pub proof fn lemma_byte_of_op(b: u8) requires op_of(b) != Opcode::Invalid ensures byte_of(op_of(b)) == b {}
// a change behind the end of an earlier state keeps `ext0` from that state
pub proof fn lemma_patched_ext(a: &Compiler, o: &Compiler, f: &Compiler)
    requires ext0(a, o), cwf(f), code(f).len() == code(o).len(), lns(f) == lns(o), others_same(o, f), scope_meta_same(o, f),
        forall|i: int| 0 <= i < code(a).len() ==> code(f)[i] == code(o)[i],
        st_depth(&f.symtab) == st_depth(&o.symtab),
    ensures ext0(a, f)
{
    assert(code(f).subrange(0, code(a).len() as int) =~= code(o).subrange(0, code(a).len() as int));
    assert forall|j: int| 0 <= j < a.scope_index implies f.scopes@[j] == a.scopes@[j] by { assert(f.scopes@[j] == o.scopes@[j]); }
}
pub proof fn lemma_patched_gen(a: &Compiler, o: &Compiler, f: &Compiler)
    requires gen(a, o), cwf(f), code(f).len() == code(o).len(), lns(f) == lns(o), others_same(o, f), scope_meta_same(o, f),
        forall|i: int| 0 <= i < code(a).len() ==> code(f)[i] == code(o)[i],
        st_depth(&f.symtab) == st_depth(&o.symtab), sc(f).last_ins.position == sc(o).last_ins.position, sc(f).prev_ins == sc(o).prev_ins,
        code(o).len() == code(a).len() ==> sc(f).last_ins == sc(o).last_ins,
    ensures gen(a, f)
{
    lemma_patched_ext(a, o, f);
    if code(f).len() == code(a).len() { assert(code(f) =~= code(a)); }
}
pub proof fn lemma_start_bounds(c: &Compiler, p: int)
    requires cwf(c), is_start(c, p)
    ensures 0 <= p, p + ilen(op_at(code(c), p)) <= code(c).len(), op_at(code(c), p) != Opcode::Invalid
{
    assert(swf(&sc(c)));
    let st = starts(code(c));
    assert(starts_ok(code(c), st));
    let k = choose|k: int| 0 <= k < st.len() && st[k] == p;
    assert(nxt(code(c), st, k) <= code(c).len());
}
pub proof fn lemma_removed(o: &Compiler, f: &Compiler)
    requires cwf(o), fresh(&sc(o)), code(o).len() > 0, sc(o).last_ins.opcode == Opcode::Pop, others_same(o, f), scope_meta_same(o, f),
        code(f) == code(o).subrange(0, sc(o).last_ins.position as int), lns(f) == lns(o).subrange(0, sc(o).last_ins.position as int), sc(f).last_ins == sc(o).prev_ins,
    ensures cwf(f), starts(code(f)) == starts(code(o)).drop_last(), sc(o).last_ins.position < code(o).len(),
        forall|a: &Compiler| #[trigger] ext0(a, o) && sc(o).last_ins.position >= code(a).len() && st_depth(&f.symtab) == st_depth(&o.symtab) ==> ext0(a, f),
{
    let co = code(o); let cf = code(f); let st = starts(co);
    assert(swf(&sc(o)));
    assert(starts_ok(co, st));
    lemma_truncate(co);
    let s2 = starts(cf);
    let n = st.len() as int;
    let ls = sc(f).loop_stack@;
    assert forall|kk: int, j: int| 0 <= kk < ls.len() && 0 <= j < ls[kk].break_positions@.len() implies
        s2.contains(#[trigger] ls[kk].break_positions@[j] as int) && op_at(cf, ls[kk].break_positions@[j] as int) == Opcode::Jump by {
        let bp = ls[kk].break_positions@[j] as int;
        assert(st.contains(bp) && op_at(co, bp) == Opcode::Jump);
        let i = choose|i: int| 0 <= i < st.len() && st[i] == bp;
        assert(i != n - 1);
        assert(s2[i] == bp);
        lemma_starts_mono(co, st, i, n - 1);
        assert(ilen(op_at(co, st[i])) >= 1);
    }
    if cf.len() > 0 {
        assert(n >= 2);
        assert(s2.last() == st[n - 2]);
        lemma_starts_mono(co, st, n - 2, n - 1);
        assert(ilen(op_at(co, st[n - 2])) >= 1);
    }
    assert(swf(&sc(f)));
    lemma_cwf_other_scopes(o, f);
    assert forall|a: &Compiler| #[trigger] ext0(a, o) && sc(o).last_ins.position >= code(a).len() && st_depth(&f.symtab) == st_depth(&o.symtab) implies ext0(a, f) by {
        assert(cf.subrange(0, code(a).len() as int) =~= co.subrange(0, code(a).len() as int));
        assert(lns(f).subrange(0, lns(a).len() as int) =~= lns(o).subrange(0, lns(a).len() as int));
        assert forall|j: int| 0 <= j < a.scope_index implies f.scopes@[j] == a.scopes@[j] by { assert(f.scopes@[j] == o.scopes@[j]); }
    }
}
pub proof fn lemma_replaced(o: &Compiler, f: &Compiler)
    requires cwf(o), code(o).len() > 0, sc(o).last_ins.opcode == Opcode::Pop, others_same(o, f), scope_meta_same(o, f),
        code(f) == code(o).subrange(0, sc(o).last_ins.position as int) + seq![byte_of(Opcode::ReturnValue)] + code(o).subrange(sc(o).last_ins.position + 1, code(o).len() as int),
        lns(f) == lns(o), sc(f).last_ins.opcode == Opcode::ReturnValue, sc(f).last_ins.position == sc(o).last_ins.position,
    ensures cwf(f), code(f).len() == code(o).len(),
        forall|a: &Compiler| #[trigger] ext0(a, o) && sc(o).last_ins.position >= code(a).len() && st_depth(&f.symtab) == st_depth(&o.symtab) ==> ext0(a, f),
{
    let co = code(o); let cf = code(f); let st = starts(co);
    assert(swf(&sc(o)));
    assert(starts_ok(co, st));
    let n = st.len() as int;
    let p = st[n - 1];
    assert(p == sc(o).last_ins.position);
    assert(nxt(co, st, n - 1) == co.len());
    assert(ilen(Opcode::Pop) == 1);
    assert(p + 1 == co.len());
    assert(cf.len() == co.len());
    assert(cf[p] == 27u8);
    assert(forall|i: int| 0 <= i < p ==> cf[i] == co[i]);
    lemma_replaced_starts(co, cf, st);
    let ls = sc(f).loop_stack@;
    assert forall|kk: int, j: int| 0 <= kk < ls.len() && 0 <= j < ls[kk].break_positions@.len() implies
        st.contains(#[trigger] ls[kk].break_positions@[j] as int) && op_at(cf, ls[kk].break_positions@[j] as int) == Opcode::Jump by {
        let bp = ls[kk].break_positions@[j] as int;
        assert(st.contains(bp) && op_at(co, bp) == Opcode::Jump);
        let i = choose|i: int| 0 <= i < st.len() && st[i] == bp;
        assert(i != n - 1);
        lemma_starts_mono(co, st, i, n - 1);
        assert(ilen(op_at(co, st[i])) >= 1);
    }
    assert(swf(&sc(f)));
    lemma_cwf_other_scopes(o, f);
    assert forall|a: &Compiler| #[trigger] ext0(a, o) && sc(o).last_ins.position >= code(a).len() && st_depth(&f.symtab) == st_depth(&o.symtab) implies ext0(a, f) by {
        lemma_patched_ext(a, o, f);
    }
}
pub proof fn lemma_replaced_starts(co: Seq<u8>, cf: Seq<u8>, st: Seq<int>)
    requires starts_ok(co, st), co.len() > 0, cf.len() == co.len(), st.last() + 1 == co.len(), op_at(cf, st.last()) == Opcode::ReturnValue,
        forall|i: int| 0 <= i < st.last() ==> cf[i] == co[i],
    ensures stream_ok(cf), starts(cf) == st
{
    let n = st.len() as int;
    assert forall|i: int| 0 <= i < n implies 0 <= #[trigger] st[i] < cf.len() && op_at(cf, st[i]) != Opcode::Invalid by {
        if i < n - 1 { lemma_starts_mono(co, st, i, n - 1); assert(ilen(op_at(co, st[i])) >= 1); }
    }
    assert forall|i: int| 0 <= i < n implies #[trigger] nxt(cf, st, i) == (if i + 1 < n { st[i + 1] } else { cf.len() as int }) by {
        if i < n - 1 { lemma_starts_mono(co, st, i, n - 1); assert(ilen(op_at(co, st[i])) >= 1); assert(nxt(co, st, i) == st[i + 1]); }
    }
    assert(starts_ok(cf, st));
    lemma_starts_unique(cf, st);
}

// ================= shims for what the code generator calls outside this file =================
#[verifier::external_body] pub fn str_is(s: &str, lit: &str) -> (r: bool) ensures r == (s@ == lit@) { s == lit }
#[verifier::external_body] pub fn string_as_str(s: &String) -> (r: &str) ensures r@ == s@ { s.as_str() }
#[verifier::external_body] pub fn fmt_str() -> (r: &'static str) { "" }
// AST shapes the parser never hands to the compiler of an error-free program (Statement::Invalid: parser unit, statement
// contracts; a Builtin identifier other than stdin/stdout/stderr: the scanner's keyword table) - listed as an assumption
#[verifier::external_body] pub fn ast_invariant_violation() -> ! { panic!() }
#[verifier::external_body] pub fn obj_Integer(v: i64) -> (r: Object) { unimplemented!() }
#[verifier::external_body] pub fn obj_Float(v: f64) -> (r: Object) { unimplemented!() }
#[verifier::external_body] pub fn obj_Str(v: String) -> (r: Object) { unimplemented!() }
#[verifier::external_body] pub fn obj_Char(v: char) -> (r: Object) { unimplemented!() }
#[verifier::external_body] pub fn obj_Byte(v: u8) -> (r: Object) { unimplemented!() }
#[verifier::external_body] pub fn obj_Null() -> (r: Object) { unimplemented!() }
#[verifier::external_body] pub fn obj_file_Stdin() -> (r: Object) { unimplemented!() }
#[verifier::external_body] pub fn obj_file_Stdout() -> (r: Object) { unimplemented!() }
#[verifier::external_body] pub fn obj_file_Stderr() -> (r: Object) { unimplemented!() }
#[verifier::external_body] pub fn obj_func(instructions: Instructions, num_locals: usize, num_params: usize, line: usize) -> (r: Object) { unimplemented!() }
#[verifier::external_body] pub fn rc_object(o: Object) -> (r: Rc<Object>) { unimplemented!() }
#[verifier::external_body] pub fn rc_clone_symbol(s: &Rc<Symbol>) -> (r: Rc<Symbol>) ensures r == *s { s.clone() }
#[verifier::external_body] pub fn prop_as_usize(p: &PacketPropType) -> (r: usize) { unimplemented!() }
#[verifier::external_body] pub fn last_stmt(v: &Vec<Statement>) -> (r: Option<&Statement>) ensures r is Some == (v@.len() > 0) { v.last() }
// the symbol table (symtab unit): none of these operations changes how many tables enclose the current one
// C04: what the table answers is the symtab unit's business (innermost visible binding, free-variable capture); here the answers are
// uninterpreted functions of the table, the name and the depth, so that the code generator's use of them can be stated
pub uninterp spec fn defined_sym(t: &SymbolTable, name: Seq<char>, depth: usize) -> Symbol;      // the symbol define() creates
pub uninterp spec fn resolved_sym(t: &SymbolTable, name: Seq<char>, depth: usize) -> Option<Symbol>;   // what resolve() answers
#[verifier::external_body] pub fn symtab_define(t: &mut SymbolTable, name: &String, depth: usize) -> (r: Rc<Symbol>) ensures st_depth(final(t)) == st_depth(old(t)), *r == defined_sym(old(t), name@, depth) { unimplemented!() }
#[verifier::external_body] pub fn symtab_define_function_name(t: &mut SymbolTable, name: &String) -> (r: Rc<Symbol>) ensures st_depth(final(t)) == st_depth(old(t)) { unimplemented!() }
#[verifier::external_body] pub fn symtab_resolve(t: &mut SymbolTable, name: &String, depth: usize) -> (r: Option<Rc<Symbol>>)
    ensures st_depth(final(t)) == st_depth(old(t)), (r is Some) == (resolved_sym(old(t), name@, depth) is Some), r matches Some(s) ==> *s == resolved_sym(old(t), name@, depth)->0
{ unimplemented!() }
pub uninterp spec fn after_leave(t: &SymbolTable, depth: usize) -> SymbolTable;    // the table once the bindings deeper than `depth` are hidden
#[verifier::external_body] pub fn symtab_leave_block(t: &mut SymbolTable, depth: usize) ensures st_depth(final(t)) == st_depth(old(t)), *final(t) == after_leave(old(t), depth) { unimplemented!() }
#[verifier::external_body] pub fn symtab_get_num_definitions(t: &SymbolTable) -> (r: usize) { unimplemented!() }
#[verifier::external_body] pub fn symtab_free_symbols_clone(t: &SymbolTable) -> (r: Vec<Rc<Symbol>>) { unimplemented!() }
#[verifier::external_body] pub fn symtab_clone(t: &SymbolTable) -> (r: SymbolTable) ensures st_depth(&r) == st_depth(t) { unimplemented!() }
#[verifier::external_body] pub fn symtab_new_enclosed(outer: SymbolTable) -> (r: SymbolTable) ensures st_depth(&r) == st_depth(&outer) + 1 { unimplemented!() }
#[verifier::external_body] pub fn symtab_outer_clone(t: &SymbolTable) -> (r: SymbolTable) requires st_depth(t) > 0 ensures st_depth(&r) == st_depth(t) - 1 { unimplemented!() }
// consuming iteration over a vector -> index loop: the element is moved out, the vector keeps its length
#[verifier::external_body]
pub fn vec_take_stmt(v: &mut Vec<Statement>, i: usize) -> (r: Statement) requires i < old(v)@.len() ensures final(v)@.len() == old(v)@.len(), r == old(v)@[i as int] { std::mem::replace(&mut v[i], Statement::Invalid) }
#[verifier::external_body]
pub fn vec_take_expr(v: &mut Vec<Expression>, i: usize) -> (r: Expression) requires i < old(v)@.len() ensures final(v)@.len() == old(v)@.len(), r == old(v)@[i as int] { std::mem::replace(&mut v[i], Expression::Invalid) }
#[verifier::external_body]
pub fn vec_take_pair(v: &mut Vec<(Expression, Expression)>, i: usize) -> (r: (Expression, Expression)) requires i < old(v)@.len() ensures final(v)@.len() == old(v)@.len(), r == old(v)@[i as int] { unimplemented!() }

pub proof fn lemma_gen_refl(o: &Compiler, f: &Compiler)
    requires cwf(o), f.scopes@ == o.scopes@, f.scope_index == o.scope_index, st_depth(&f.symtab) == st_depth(&o.symtab), o.encoding_error is Some ==> f.encoding_error is Some
    ensures gen_s(o, f)
{
    assert(code(f).subrange(0, code(o).len() as int) =~= code(o));
    assert(lns(f).subrange(0, lns(o).len() as int) =~= lns(o));
    assert(swf(&sc(o)));
    let la = sc(o).loop_stack@;
    assert forall|k: int| 0 <= k < la.len() implies lctx_ext(#[trigger] la[k], la[k], code(o).len() as int) by {
        assert(la[k].break_positions@.subrange(0, la[k].break_positions@.len() as int) =~= la[k].break_positions@);
    }
}

// assumption (listed): the parser gives every match expression at least one arm (it appends the default arm) and every arm at least one pattern
#[verifier::external_body] pub fn first_pattern(arms: &Vec<MatchArm>) -> (r: &MatchPattern) { arms.first().unwrap().patterns.first().unwrap() }
#[verifier::external_body] pub fn pattern_matches_type(a: &MatchPattern, b: &MatchPattern) -> (r: bool) { unimplemented!() }
#[verifier::external_body] pub fn block_clone(b: &BlockStatement) -> (r: BlockStatement) ensures r == *b { unimplemented!() }
#[verifier::external_body] pub fn string_clone(s: &String) -> (r: String) ensures r@ == s@ { s.clone() }
// recorded jump placeholders: starts of 3-byte instructions emitted after the state `o`
pub open spec fn jumps_ok(c: &Compiler, o: &Compiler, v: Seq<usize>, from: int) -> bool {
    forall|j: int| from <= j < v.len() ==> is_start(c, #[trigger] v[j] as int) && ilen(op_at(code(c), v[j] as int)) == 3 && v[j] >= code(o).len()
}
#[verifier::external_body] pub fn filter_pattern_clone(p: &FilterPattern) -> (r: FilterPattern) ensures r == *p { unimplemented!() }
#[verifier::external_body] pub fn rc_compiled_fn(instructions: Instructions, num_locals: usize, num_params: usize, line: usize) -> (r: Rc<CompiledFunction>) { unimplemented!() }
pub broadcast proof fn lemma_gen_trans(a: &Compiler, b: &Compiler, c: &Compiler)
    requires #[trigger] gen(a, b), #[trigger] gen(b, c)
    ensures gen(a, c)
{
    lemma_ext_trans(a, b, c);
}
pub broadcast proof fn lemma_gen_s_trans(a: &Compiler, b: &Compiler, c: &Compiler)
    requires #[trigger] gen_s(a, b), #[trigger] gen_s(b, c)
    ensures gen_s(a, c)
{
    lemma_ext_trans(a, b, c);
}
// an instruction start of an earlier state is an instruction start, with the same opcode, of every extension of that state
pub broadcast proof fn lemma_start_kept(a: &Compiler, b: &Compiler, p: int)
    requires #[trigger] ext0(a, b), cwf(a), #[trigger] is_start(a, p)
    ensures is_start(b, p), op_at(code(b), p) == op_at(code(a), p)
{
    assert(swf(&sc(a))); assert(swf(&sc(b)));
    lemma_prefix_boundary(code(a), code(b));
    let sa = starts(code(a)); let sb = starts(code(b));
    let i = choose|i: int| 0 <= i < sa.len() && sa[i] == p;
    assert(sb.subrange(0, sa.len() as int)[i] == sb[i]);
    assert(starts_ok(code(a), sa));
    assert(code(b).subrange(0, code(a).len() as int)[p] == code(b)[p]);
}
pub proof fn lemma_entered(o: &Compiler, f: &Compiler)
    requires cwf(o), f.scopes@.len() == o.scopes@.len() + 1, f.scope_index == o.scope_index + 1,
        forall|j: int| 0 <= j < o.scopes@.len() ==> f.scopes@[j] == o.scopes@[j],
        code(f).len() == 0, lns(f).len() == 0, sc(f).loop_stack@.len() == 0,
    ensures cwf(f)
{
    lemma_empty_stream(code(f));
    assert(swf(&sc(f)));
    assert forall|i: int| 0 <= i < f.scopes@.len() implies swf(&#[trigger] f.scopes@[i]) by {
        if i < o.scopes@.len() { assert(swf(&o.scopes@[i])); }
    }
}

// assumptions about sizes (listed in the evidence)
#[verifier::external_body] pub proof fn axiom_pairs_len(v: &Vec<(Expression, Expression)>) ensures v@.len() * 2 <= usize::MAX {}
#[verifier::external_body] pub proof fn axiom_depth_bounded(s: &CompilationScope) ensures s.scope_depth < usize::MAX {}
pub proof fn lemma_removed_starts(o: &Compiler, f: &Compiler)
    requires cwf(o), cwf(f), fresh(&sc(o)), code(o).len() > 0, code(f) == code(o).subrange(0, sc(o).last_ins.position as int), starts(code(f)) == starts(code(o)).drop_last(),
        sc(f).last_ins == sc(o).prev_ins,
    ensures forall|p: int| #[trigger] is_start(o, p) && p < sc(o).last_ins.position ==> is_start(f, p) && op_at(code(f), p) == op_at(code(o), p) && sc(f).last_ins.position >= p
{
    let st = starts(code(o));
    let n = st.len() as int;
    assert(swf(&sc(o)));
    assert(starts_ok(code(o), st));
    assert forall|p: int| #[trigger] is_start(o, p) && p < sc(o).last_ins.position implies is_start(f, p) && op_at(code(f), p) == op_at(code(o), p) && sc(f).last_ins.position >= p by {
        let i = choose|i: int| 0 <= i < st.len() && st[i] == p;
        assert(st.drop_last()[i] == p);
        assert(i < n - 1);
        if i < n - 2 { lemma_starts_mono(code(o), st, i, n - 2); assert(ilen(op_at(code(o), st[i])) >= 1); }
    }
}
// the state right after enter_scope (and while the parameters are being defined)
pub open spec fn entered(o: &Compiler, f: &Compiler) -> bool {
    &&& cwf(f) && f.scope_index == o.scope_index + 1 && f.scopes@.len() == o.scopes@.len() + 1
    &&& forall|j: int| 0 <= j < o.scopes@.len() ==> f.scopes@[j] == o.scopes@[j]
    &&& code(f).len() == 0 && sc(f).loop_stack@.len() == 0 && sc(f).scope_depth == 0
    &&& st_depth(&f.symtab) == st_depth(&o.symtab) + 1
    &&& (o.encoding_error is Some ==> f.encoding_error is Some)
}
pub proof fn lemma_left(o: &Compiler, e: &Compiler, b: &Compiler, f: &Compiler)
    requires cwf(o), entered(o, e), ext0(e, b), f.scopes@ == b.scopes@.drop_last(), f.scope_index == b.scope_index - 1, st_depth(&f.symtab) == st_depth(&b.symtab) - 1,
        b.encoding_error is Some ==> f.encoding_error is Some, e.encoding_error is Some ==> b.encoding_error is Some,
    ensures gen_s(o, f)
{
    assert(f.scopes@ =~= o.scopes@);
    lemma_gen_refl(o, f);
}

// ================= loops: the loop stack =================
// f is o with only the current scope's loop stack replaced
pub open spec fn only_loops_differ(o: &Compiler, f: &Compiler) -> bool {
    others_same(o, f) && f.encoding_error == o.encoding_error && sc(f).instructions == sc(o).instructions && sc(f).last_ins == sc(o).last_ins && sc(f).prev_ins == sc(o).prev_ins
        && sc(f).scope_depth == sc(o).scope_depth && sc(f).is_filter == sc(o).is_filter
}
pub proof fn lemma_loop_pushed(o: &Compiler, f: &Compiler)
    requires cwf(o), only_loops_differ(o, f), sc(f).loop_stack@.len() == sc(o).loop_stack@.len() + 1,
        sc(f).loop_stack@.subrange(0, sc(o).loop_stack@.len() as int) == sc(o).loop_stack@, sc(f).loop_stack@.last().break_positions@.len() == 0,
    ensures cwf(f)
{
    let lo = sc(o).loop_stack@; let lf = sc(f).loop_stack@;
    assert(swf(&sc(o)));
    assert forall|k: int, j: int| 0 <= k < lf.len() && 0 <= j < lf[k].break_positions@.len() implies
        starts(code(f)).contains(#[trigger] lf[k].break_positions@[j] as int) && op_at(code(f), lf[k].break_positions@[j] as int) == Opcode::Jump by {
        if k < lo.len() { assert(lf.subrange(0, lo.len() as int)[k] == lf[k]); assert(lf[k] == lo[k]); }
    }
    assert(swf(&sc(f)));
    lemma_cwf_other_scopes(o, f);
}
pub proof fn lemma_loop_popped(s0: &Compiler, s1: &Compiler, s3: &Compiler, s4: &Compiler)
    requires cwf(s0), only_loops_differ(s0, s1), sc(s1).loop_stack@.len() == sc(s0).loop_stack@.len() + 1,
        sc(s1).loop_stack@.subrange(0, sc(s0).loop_stack@.len() as int) == sc(s0).loop_stack@, sc(s1).loop_stack@.last().break_positions@.len() == 0,
        gen(s1, s3), code(s3).len() > code(s1).len(), fresh(&sc(s3)),
        only_loops_differ(s3, s4), sc(s4).loop_stack@ == sc(s3).loop_stack@.drop_last(),
    ensures cwf(s4), gen_s(s0, s4),
        forall|j: int| 0 <= j < sc(s3).loop_stack@.last().break_positions@.len() ==> {
            let bp = #[trigger] sc(s3).loop_stack@.last().break_positions@[j];
            is_start(s4, bp as int) && op_at(code(s4), bp as int) == Opcode::Jump && bp >= code(s0).len() }
{
    let l0 = sc(s0).loop_stack@; let l1 = sc(s1).loop_stack@; let l3 = sc(s3).loop_stack@; let l4 = sc(s4).loop_stack@;
    let n = l0.len() as int;
    assert(swf(&sc(s3)));
    assert(l3.len() == n + 1);
    assert forall|k: int, j: int| 0 <= k < l4.len() && 0 <= j < l4[k].break_positions@.len() implies
        starts(code(s4)).contains(#[trigger] l4[k].break_positions@[j] as int) && op_at(code(s4), l4[k].break_positions@[j] as int) == Opcode::Jump by {
        assert(l4[k] == l3[k]);
    }
    assert(swf(&sc(s4)));
    lemma_cwf_other_scopes(s3, s4);
    assert forall|k: int| 0 <= k < n implies lctx_ext(#[trigger] l0[k], l4[k], code(s0).len() as int) by {
        assert(l1.subrange(0, n)[k] == l1[k]);
        assert(lctx_ext(l1[k], l3[k], code(s1).len() as int));
        assert(l4[k] == l3[k]);
    }
    assert forall|j: int| 0 <= j < s0.scope_index implies s4.scopes@[j] == s0.scopes@[j] by { assert(s4.scopes@[j] == s3.scopes@[j]); assert(s1.scopes@[j] == s0.scopes@[j]); }
    assert(ext0(s0, s4));
    assert(lctx_ext(l1[n], l3[n], code(s1).len() as int));
    assert(l3.last() == l3[n]);
    assert forall|j: int| 0 <= j < l3[n].break_positions@.len() implies {
            let bp = #[trigger] l3[n].break_positions@[j];
            is_start(s4, bp as int) && op_at(code(s4), bp as int) == Opcode::Jump && bp >= code(s0).len() } by {
        assert(l1.last() == l1[n]);
    }
}
// a `break` placeholder (the Jump just emitted, at `pos`) recorded in loop context k
pub open spec fn break_recorded(o: &Compiler, f: &Compiler, k: int, pos: usize) -> bool {
    let lo = sc(o).loop_stack@; let lf = sc(f).loop_stack@;
    only_loops_differ(o, f) && 0 <= k < lo.len() && lf.len() == lo.len()
        && (forall|i: int| 0 <= i < lo.len() && i != k ==> lf[i] == lo[i])
        && lf[k].label == lo[k].label && lf[k].begin == lo[k].begin && lf[k].break_positions@ == lo[k].break_positions@.push(pos)
}
pub proof fn lemma_break_recorded(o: &Compiler, f: &Compiler, k: int, pos: usize)
    requires cwf(o), code(o).len() > 0, sc(o).last_ins.position == pos, sc(o).last_ins.opcode == Opcode::Jump, break_recorded(o, f, k, pos)
    ensures cwf(f), fresh(&sc(o)) ==> fresh(&sc(f)),
        forall|a: &Compiler| #[trigger] gen_s(a, o) && pos >= code(a).len() ==> gen_s(a, f),
{
    let lo = sc(o).loop_stack@; let lf = sc(f).loop_stack@;
    let st = starts(code(o));
    assert(swf(&sc(o)));
    assert(st[st.len() - 1] == pos);
    assert forall|kk: int, j: int| 0 <= kk < lf.len() && 0 <= j < lf[kk].break_positions@.len() implies
        st.contains(#[trigger] lf[kk].break_positions@[j] as int) && op_at(code(f), lf[kk].break_positions@[j] as int) == Opcode::Jump by {
        if kk != k { assert(lf[kk] == lo[kk]); }
        else if j < lo[k].break_positions@.len() { assert(lf[k].break_positions@[j] == lo[k].break_positions@[j]); }
    }
    assert(swf(&sc(f)));
    lemma_cwf_other_scopes(o, f);
    assert forall|a: &Compiler| #[trigger] gen_s(a, o) && pos >= code(a).len() implies gen_s(a, f) by {
        let la = sc(a).loop_stack@;
        assert forall|i: int| 0 <= i < la.len() implies lctx_ext(#[trigger] la[i], lf[i], code(a).len() as int) by {
            assert(lctx_ext(la[i], lo[i], code(a).len() as int));
            if i == k {
                let x = la[i].break_positions@; let y = lo[k].break_positions@; let z = lf[k].break_positions@;
                assert(z.subrange(0, x.len() as int) =~= y.subrange(0, x.len() as int));
            }
        }
        assert forall|j: int| 0 <= j < a.scope_index implies f.scopes@[j] == a.scopes@[j] by { assert(f.scopes@[j] == o.scopes@[j]); }
    }
}
#[verifier::external_body]
pub fn loopctx_label_is(ls: &Vec<LoopContext>, k: usize, name: &String) -> (r: bool) requires k < ls@.len() { unimplemented!() }
#[verifier::external_body]
pub fn loopctx_push_break(ls: &mut Vec<LoopContext>, k: usize, pos: usize)
    requires k < old(ls)@.len()
    ensures final(ls)@.len() == old(ls)@.len(), forall|i: int| 0 <= i < old(ls)@.len() && i != k ==> final(ls)@[i] == old(ls)@[i],
        final(ls)@[k as int].label == old(ls)@[k as int].label, final(ls)@[k as int].begin == old(ls)@[k as int].begin,
        final(ls)@[k as int].break_positions@ == old(ls)@[k as int].break_positions@.push(pos)
{ unimplemented!() }

// ================= the shapes the properties name =================
// tag: `seg` is what compile_expression / compile_block_statement appended for `e` (uninterpreted; its only axiom is the
// defining one at the two functions' exits, so it constrains nothing but which call produced which bytes)
pub uninterp spec fn emitted_by(e: Expression, seg: Seq<u8>) -> bool;
pub uninterp spec fn block_emitted_by(b: BlockStatement, seg: Seq<u8>) -> bool;
pub open spec fn seg(c: &Compiler, from: int, to: int) -> Seq<u8> { code(c).subrange(from, to) }
pub open spec fn target_at(c: &Compiler, p: int) -> int { code(c)[p] as int * 256 + code(c)[p + 1] as int }
pub open spec fn has_op(c: &Compiler, p: int, op: Opcode) -> bool { 0 <= p < code(c).len() && code(c)[p] == byte_of(op) }
pub open spec fn ok_enc(c: &Compiler) -> bool { c.encoding_error is None }
// C06  a && b:   <a>  JumpIfFalseNoPop end  Pop  <b>  end:
pub open spec fn and_at(o: &Compiler, f: &Compiler, left: Expression, right: Expression, line: usize, p: int) -> bool {
    code(o).len() <= p && p + 4 <= code(f).len() && emitted_by(left, seg(f, code(o).len() as int, p))
        && has_op(f, p, Opcode::JumpIfFalseNoPop) && (ok_enc(f) ==> target_at(f, p + 1) == code(f).len()) && has_op(f, p + 3, Opcode::Pop)
        && emitted_by(right, seg(f, p + 4, code(f).len() as int)) && lns(f)[p] == line
}
pub open spec fn and_shape(o: &Compiler, f: &Compiler, left: Expression, right: Expression, line: usize) -> bool {
    exists|p: int| #[trigger] and_at(o, f, left, right, line, p)
}
// C06  a || b:   <a>  JumpIfFalseNoPop rhs  Jump end  rhs: Pop  <b>  end:
pub open spec fn or_at(o: &Compiler, f: &Compiler, left: Expression, right: Expression, line: usize, p: int) -> bool {
    code(o).len() <= p && p + 7 <= code(f).len() && emitted_by(left, seg(f, code(o).len() as int, p))
        && has_op(f, p, Opcode::JumpIfFalseNoPop) && (ok_enc(f) ==> target_at(f, p + 1) == p + 6) && has_op(f, p + 3, Opcode::Jump)
        && (ok_enc(f) ==> target_at(f, p + 4) == code(f).len()) && has_op(f, p + 6, Opcode::Pop)
        && emitted_by(right, seg(f, p + 7, code(f).len() as int)) && lns(f)[p] == line
}
pub open spec fn or_shape(o: &Compiler, f: &Compiler, left: Expression, right: Expression, line: usize) -> bool {
    exists|p: int| #[trigger] or_at(o, f, left, right, line, p)
}
// C06  if c {..} else ..:   <c>  JumpIfFalse else  <then>  Jump end  else: <else>  end:
pub open spec fn if_at(o: &Compiler, f: &Compiler, cond: Expression, p: int, q: int) -> bool {
    code(o).len() <= p && p + 3 <= q && q + 3 <= code(f).len() && emitted_by(cond, seg(f, code(o).len() as int, p))
        && has_op(f, p, Opcode::JumpIfFalse) && (ok_enc(f) ==> target_at(f, p + 1) == q + 3) && has_op(f, q, Opcode::Jump)
        && (ok_enc(f) ==> target_at(f, q + 1) == code(f).len())
}
pub open spec fn if_shape(o: &Compiler, f: &Compiler, cond: Expression) -> bool {
    exists|p: int, q: int| #[trigger] if_at(o, f, cond, p, q)
}
// C06  while c {..}:   begin: <c>  JumpIfFalse end  <body>  Jump begin  end:
pub open spec fn while_at(o: &Compiler, f: &Compiler, cond: Expression, p: int) -> bool {
    code(o).len() <= p && p + 6 <= code(f).len() && emitted_by(cond, seg(f, code(o).len() as int, p))
        && has_op(f, p, Opcode::JumpIfFalse) && (ok_enc(f) ==> target_at(f, p + 1) == code(f).len())
        && has_op(f, code(f).len() - 3, Opcode::Jump) && (ok_enc(f) ==> target_at(f, code(f).len() - 2) == code(o).len())
}
pub open spec fn while_shape(o: &Compiler, f: &Compiler, cond: Expression) -> bool {
    exists|p: int| #[trigger] while_at(o, f, cond, p)
}
pub proof fn lemma_target(v: usize)
    requires v <= 0xffff ensures hi(v) as int * 256 + lo(v) as int == v
{
    let x = v as u16;
    assert(x == v);
    assert((x / 256) as u8 == x / 256);
    assert((x % 256) as u8 == x % 256);
}
pub proof fn lemma_fits_jump(op: Opcode, v: usize)
    requires ilen(op) == 3, fits_all(op, seq![v]) ensures v <= 0xffff
{
    assert(opcode_widths(op)[0] == 2);
    assert(fits(opcode_widths(op)[0], seq![v][0]));
}
// what a patch of the 3-byte jump at p to target v leaves in the stream
pub proof fn lemma_patched_jump(co: Seq<u8>, cf: Seq<u8>, p: int, v: usize)
    requires 0 <= p, p + 3 <= co.len(), ilen(op_at(co, p)) == 3, patched(co, cf, p, v)
    ensures cf.len() == co.len(), cf[p] == byte_of(op_at(co, p)), cf[p + 1] == hi(v), cf[p + 2] == lo(v),
        forall|i: int| 0 <= i < co.len() && !(p <= i < p + 3) ==> cf[i] == co[i]
{
    let op = op_at(co, p);
    let b = ins_bytes(op, seq![v]);
    assert(b.len() == 3);
    assert(cf == co.subrange(0, p) + b + co.subrange(p + 3, co.len() as int));
    assert(cf[p] == b[0]); assert(cf[p + 1] == b[1]); assert(cf[p + 2] == b[2]);
    assert forall|i: int| 0 <= i < co.len() && !(p <= i < p + 3) implies cf[i] == co[i] by {
        if i < p { assert(cf[i] == co.subrange(0, p)[i]); } else { assert(cf[i] == co.subrange(p + 3, co.len() as int)[i - p - 3]); }
    }
}
pub proof fn lemma_and_shape(o: &Compiler, s1: &Compiler, s2: &Compiler, s4: &Compiler, f: &Compiler, left: Expression, right: Expression, line: usize)
    requires code(o).len() <= code(s1).len(), emitted_by(left, seg(s1, code(o).len() as int, code(s1).len() as int)),
        is_prefix(code(s1), code(s4)), code(s4).len() >= code(s1).len() + 4, lns(s4).len() == code(s4).len(),
        op_at(code(s4), code(s1).len() as int) == Opcode::JumpIfFalseNoPop, code(s4)[(code(s1).len() + 3) as int] == byte_of(Opcode::Pop),
        lns(s2).len() == code(s1).len() + 3, lns(s2)[code(s1).len() as int] == line, lns(s2).len() <= lns(s4).len(), lns(s4).subrange(0, lns(s2).len() as int) == lns(s2),
        emitted_by(right, seg(s4, (code(s1).len() + 4) as int, code(s4).len() as int)),
        patched(code(s4), code(f), code(s1).len() as int, code(s4).len() as usize), lns(f) == lns(s4), code(s4).len() <= usize::MAX,
        fits_all(Opcode::JumpIfFalseNoPop, seq![code(s4).len() as usize]) || f.encoding_error is Some,
    ensures and_shape(o, f, left, right, line)
{
    let p = code(s1).len() as int;
    let v = code(s4).len() as usize;
    lemma_patched_jump(code(s4), code(f), p, v);
    assert(seg(f, code(o).len() as int, p) =~= seg(s1, code(o).len() as int, p)) by {
        assert forall|i: int| 0 <= i < p implies code(f)[i] == code(s1)[i] by { assert(code(s4).subrange(0, p)[i] == code(s4)[i]); }
    }
    assert(seg(f, p + 4, code(f).len() as int) =~= seg(s4, p + 4, code(s4).len() as int));
    if ok_enc(f) { lemma_fits_jump(Opcode::JumpIfFalseNoPop, v); lemma_target(v); assert(target_at(f, p + 1) == code(f).len()); }
    assert(has_op(f, p, Opcode::JumpIfFalseNoPop));
    assert(has_op(f, p + 3, Opcode::Pop));
    assert(lns(f)[p] == line) by { assert(lns(s4).subrange(0, lns(s2).len() as int)[p] == lns(s4)[p]); }
    assert(and_at(o, f, left, right, line, p));
}
pub proof fn lemma_or_shape(o: &Compiler, s1: &Compiler, s3: &Compiler, s4: &Compiler, s6: &Compiler, f: &Compiler, left: Expression, right: Expression, line: usize)
    requires code(o).len() <= code(s1).len(), emitted_by(left, seg(s1, code(o).len() as int, code(s1).len() as int)),
        is_prefix(code(s1), code(s3)), code(s3).len() == code(s1).len() + 6, lns(s3).len() == code(s3).len(), code(s3).len() <= usize::MAX,
        op_at(code(s3), code(s1).len() as int) == Opcode::JumpIfFalseNoPop, op_at(code(s3), (code(s1).len() + 3) as int) == Opcode::Jump, lns(s3)[code(s1).len() as int] == line,
        patched(code(s3), code(s4), code(s1).len() as int, code(s3).len() as usize), lns(s4) == lns(s3),
        fits_all(Opcode::JumpIfFalseNoPop, seq![code(s3).len() as usize]) || s4.encoding_error is Some,
        is_prefix(code(s4), code(s6)), lns(s4).len() <= lns(s6).len(), lns(s6).subrange(0, lns(s4).len() as int) == lns(s4), code(s6).len() >= code(s1).len() + 7, code(s6).len() <= usize::MAX,
        code(s6)[(code(s1).len() + 6) as int] == byte_of(Opcode::Pop), emitted_by(right, seg(s6, (code(s1).len() + 7) as int, code(s6).len() as int)),
        patched(code(s6), code(f), (code(s1).len() + 3) as int, code(s6).len() as usize), lns(f) == lns(s6),
        fits_all(Opcode::Jump, seq![code(s6).len() as usize]) || f.encoding_error is Some, s4.encoding_error is Some ==> f.encoding_error is Some,
    ensures or_shape(o, f, left, right, line)
{
    let p = code(s1).len() as int;
    lemma_patched_jump(code(s3), code(s4), p, code(s3).len() as usize);
    assert forall|i: int| 0 <= i < p + 6 implies code(s6)[i] == code(s4)[i] by { assert(code(s6).subrange(0, code(s4).len() as int)[i] == code(s6)[i]); }
    assert(op_at(code(s6), p + 3) == Opcode::Jump);
    lemma_patched_jump(code(s6), code(f), p + 3, code(s6).len() as usize);
    assert(seg(f, code(o).len() as int, p) =~= seg(s1, code(o).len() as int, p)) by {
        assert forall|i: int| 0 <= i < p implies code(f)[i] == code(s1)[i] by { assert(code(s3).subrange(0, p)[i] == code(s3)[i]); }
    }
    assert(seg(f, p + 7, code(f).len() as int) =~= seg(s6, p + 7, code(s6).len() as int));
    lemma_byte_of_op(code(s3)[p]);
    if ok_enc(f) {
        lemma_fits_jump(Opcode::JumpIfFalseNoPop, code(s3).len() as usize); lemma_target(code(s3).len() as usize);
        lemma_fits_jump(Opcode::Jump, code(s6).len() as usize); lemma_target(code(s6).len() as usize);
        assert(target_at(f, p + 1) == p + 6);
        assert(target_at(f, p + 4) == code(f).len());
    }
    assert(lns(f)[p] == line) by { assert(lns(s6).subrange(0, lns(s4).len() as int)[p] == lns(s6)[p]); }
    assert(has_op(f, p, Opcode::JumpIfFalseNoPop));
    assert(has_op(f, p + 3, Opcode::Jump));
    assert(has_op(f, p + 6, Opcode::Pop));
    assert(or_at(o, f, left, right, line, p));
}
pub proof fn lemma_if_shape(o: &Compiler, s1: &Compiler, sq: &Compiler, s7: &Compiler, s8: &Compiler, f: &Compiler, cond: Expression)
    requires code(o).len() <= code(s1).len(), emitted_by(cond, seg(s1, code(o).len() as int, code(s1).len() as int)),
        is_prefix(code(s1), code(sq)), code(sq).len() >= code(s1).len() + 6, code(sq).len() <= usize::MAX,
        op_at(code(sq), code(s1).len() as int) == Opcode::JumpIfFalse, op_at(code(sq), code(sq).len() - 3) == Opcode::Jump,
        patched(code(sq), code(s7), code(s1).len() as int, code(sq).len() as usize),
        fits_all(Opcode::JumpIfFalse, seq![code(sq).len() as usize]) || s7.encoding_error is Some,
        is_prefix(code(s7), code(s8)), code(s8).len() <= usize::MAX,
        patched(code(s8), code(f), code(sq).len() - 3, code(s8).len() as usize),
        fits_all(Opcode::Jump, seq![code(s8).len() as usize]) || f.encoding_error is Some, s7.encoding_error is Some ==> f.encoding_error is Some,
    ensures if_shape(o, f, cond)
{
    let p = code(s1).len() as int;
    let q = code(sq).len() - 3;
    lemma_patched_jump(code(sq), code(s7), p, code(sq).len() as usize);
    assert forall|i: int| 0 <= i < q + 3 implies code(s8)[i] == code(s7)[i] by { assert(code(s8).subrange(0, code(s7).len() as int)[i] == code(s8)[i]); }
    assert(op_at(code(s8), q) == Opcode::Jump);
    lemma_patched_jump(code(s8), code(f), q, code(s8).len() as usize);
    assert(seg(f, code(o).len() as int, p) =~= seg(s1, code(o).len() as int, p)) by {
        assert forall|i: int| 0 <= i < p implies code(f)[i] == code(s1)[i] by { assert(code(sq).subrange(0, p)[i] == code(sq)[i]); }
    }
    lemma_byte_of_op(code(sq)[p]);
    if ok_enc(f) {
        lemma_fits_jump(Opcode::JumpIfFalse, code(sq).len() as usize); lemma_target(code(sq).len() as usize);
        lemma_fits_jump(Opcode::Jump, code(s8).len() as usize); lemma_target(code(s8).len() as usize);
        assert(target_at(f, p + 1) == q + 3);
        assert(target_at(f, q + 1) == code(f).len());
    }
    assert(has_op(f, p, Opcode::JumpIfFalse));
    assert(has_op(f, q, Opcode::Jump));
    assert(if_at(o, f, cond, p, q));
}

// C13: the instruction that can fail at run time for an expression node carries the line of the node's own token
pub open spec fn is_logical(s: Seq<char>) -> bool { s == "&&"@ || s == "||"@ }
pub open spec fn op_line(e: Expression) -> Option<usize> {
    match e {
        Expression::Binary(b) => if is_logical(b.operator@) { None } else { Some(b.token.line) },
        Expression::Unary(u) => Some(u.token.line),
        Expression::Index(i) => Some(i.token.line),
        Expression::Call(c) => Some(c.token.line),
        Expression::Prop(p) => Some(p.token.line),
        _ => None,
    }
}
pub open spec fn last_line_is(o: &Compiler, f: &Compiler, line: usize) -> bool {
    code(f).len() > code(o).len() && sc(f).last_ins.position >= code(o).len() && sc(f).last_ins.position < lns(f).len() && lns(f)[sc(f).last_ins.position as int] == line
}
// the opcode each binary operator compiles to ('<' and '<=' are compiled as '>' and '>=' with the operands swapped)
pub open spec fn infix_opcode(s: Seq<char>) -> Opcode {
    if s == "+"@ { Opcode::Add } else if s == "-"@ { Opcode::Sub } else if s == "*"@ { Opcode::Mul } else if s == "/"@ { Opcode::Div } else if s == "%"@ { Opcode::Mod }
    else if s == "=="@ { Opcode::Equal } else if s == "!="@ { Opcode::NotEqual } else if s == ">"@ || s == "<"@ { Opcode::Greater } else if s == ">="@ || s == "<="@ { Opcode::GreaterEq }
    else if s == "&"@ { Opcode::And } else if s == "|"@ { Opcode::Or } else if s == "^"@ { Opcode::Xor } else if s == "<<"@ { Opcode::ShiftLeft } else if s == ">>"@ { Opcode::ShiftRight }
    else { Opcode::Invalid }
}
pub open spec fn unary_opcode(s: Seq<char>) -> Opcode {
    if s == "!"@ { Opcode::Bang } else if s == "-"@ { Opcode::Minus } else if s == "~"@ { Opcode::Not } else if s == "$"@ { Opcode::Dollar } else { Opcode::Invalid }
}
pub proof fn lemma_strlits()
    ensures "&&"@ != "||"@, "+"@.len() == 1, "-"@.len() == 1, "<<"@.len() == 2,
{
    reveal_strlit("&&"); reveal_strlit("||"); reveal_strlit("+"); reveal_strlit("-"); reveal_strlit("<<");
    assert("&&"@[0] == '&'); assert("||"@[0] == '|');
}

// loops:   begin: <body>  Jump begin            while:   begin: <c>  JumpIfFalse end  <body>  Jump begin  end:
pub open spec fn loop_tail(o: &Compiler, f: &Compiler) -> bool {
    code(f).len() >= code(o).len() + 3 && has_op(f, code(f).len() - 3, Opcode::Jump) && (ok_enc(f) ==> target_at(f, code(f).len() - 2) == code(o).len())
}
pub open spec fn while_jumps(o: &Compiler, f: &Compiler, p: int) -> bool {
    code(o).len() <= p && p + 6 <= code(f).len() && has_op(f, p, Opcode::JumpIfFalse) && (ok_enc(f) ==> target_at(f, p + 1) == code(f).len()) && loop_tail(o, f)
}
pub open spec fn while_loop_shape(o: &Compiler, f: &Compiler) -> bool { exists|p: int| #[trigger] while_jumps(o, f, p) }
pub proof fn lemma_starts_disjoint(c: &Compiler, a: int, b: int)
    requires cwf(c), is_start(c, a), is_start(c, b), a != b
    ensures a + ilen(op_at(code(c), a)) <= b || b + ilen(op_at(code(c), b)) <= a
{
    let st = starts(code(c));
    assert(swf(&sc(c)));
    assert(starts_ok(code(c), st));
    let i = choose|i: int| 0 <= i < st.len() && st[i] == a;
    let j = choose|j: int| 0 <= j < st.len() && st[j] == b;
    if i < j { lemma_starts_mono(code(c), st, i, j); } else { lemma_starts_mono(code(c), st, j, i); }
}
// the loop-back Jump just emitted (operand `begin`), seen from the state the loop statement started in
pub proof fn lemma_loop_tail(o: &Compiler, sb: &Compiler, f: &Compiler, begin: usize)
    requires begin == code(o).len(), code(o).len() <= code(sb).len(), code(f) == code(sb) + ins_bytes(Opcode::Jump, seq![begin]),
        fits_all(Opcode::Jump, seq![begin]) || f.encoding_error is Some,
    ensures loop_tail(o, f)
{
    let b = ins_bytes(Opcode::Jump, seq![begin]);
    assert(b.len() == 3);
    let n = code(f).len() as int;
    assert(code(f)[n - 3] == b[0]); assert(code(f)[n - 2] == b[1]); assert(code(f)[n - 1] == b[2]);
    if ok_enc(f) { lemma_fits_jump(Opcode::Jump, begin); lemma_target(begin); }
}
// a patch of another 3-byte jump keeps the loop's own jumps
pub proof fn lemma_tail_kept(o: &Compiler, s: &Compiler, f: &Compiler, pos: int)
    requires cwf(s), loop_tail(o, s), is_start(s, pos), is_start(s, code(s).len() - 3), pos != code(s).len() - 3, ilen(op_at(code(s), pos)) == 3,
        code(f).len() == code(s).len(), forall|i: int| 0 <= i < code(s).len() && !(pos < i < pos + 3) ==> code(f)[i] == code(s)[i],
        f.encoding_error is None ==> s.encoding_error is None,
    ensures loop_tail(o, f)
{
    lemma_starts_disjoint(s, pos, code(s).len() - 3);
    lemma_byte_of_op(code(s)[code(s).len() - 3]);
}
pub proof fn lemma_while_kept(o: &Compiler, s: &Compiler, f: &Compiler, pos: int, p: int)
    requires cwf(s), while_jumps(o, s, p), is_start(s, pos), is_start(s, code(s).len() - 3), is_start(s, p), pos != code(s).len() - 3, pos != p, ilen(op_at(code(s), pos)) == 3,
        code(f).len() == code(s).len(), forall|i: int| 0 <= i < code(s).len() && !(pos < i < pos + 3) ==> code(f)[i] == code(s)[i],
        f.encoding_error is None ==> s.encoding_error is None,
    ensures while_jumps(o, f, p)
{
    lemma_tail_kept(o, s, f, pos);
    lemma_starts_disjoint(s, pos, p);
    lemma_byte_of_op(code(s)[p]);
}
// the exit jump of a while loop patched to the end of the loop
pub proof fn lemma_while_jumps(o: &Compiler, s: &Compiler, f: &Compiler, p: int)
    requires loop_tail(o, s), code(o).len() <= p, p + 6 <= code(s).len(), op_at(code(s), p) == Opcode::JumpIfFalse, code(s).len() <= usize::MAX,
        patched(code(s), code(f), p, code(s).len() as usize), fits_all(Opcode::JumpIfFalse, seq![code(s).len() as usize]) || f.encoding_error is Some,
        f.encoding_error is None ==> s.encoding_error is None,
    ensures while_jumps(o, f, p)
{
    lemma_patched_jump(code(s), code(f), p, code(s).len() as usize);
    if ok_enc(f) { lemma_fits_jump(Opcode::JumpIfFalse, code(s).len() as usize); lemma_target(code(s).len() as usize); }
}
pub proof fn lemma_breaks_before(sb: &Compiler)
    requires cwf(sb), sc(sb).loop_stack@.len() > 0
    ensures forall|j: int| 0 <= j < sc(sb).loop_stack@.last().break_positions@.len() ==> #[trigger] sc(sb).loop_stack@.last().break_positions@[j] + 3 <= code(sb).len()
{
    let ls = sc(sb).loop_stack@;
    let n = ls.len() as int;
    assert(swf(&sc(sb)));
    assert forall|j: int| 0 <= j < ls.last().break_positions@.len() implies #[trigger] ls.last().break_positions@[j] + 3 <= code(sb).len() by {
        assert(ls.last() == ls[n - 1]);
        let bp = ls[n - 1].break_positions@[j] as int;
        assert(is_start(sb, bp));
        lemma_start_bounds(sb, bp);
    }
}
// one break placeholder patched: the loop's own jumps (p < 0: a `loop`, only the loop-back jump; p >= 0: a `while`, also its exit jump at p) stay
pub proof fn lemma_jumps_kept(o: &Compiler, s: &Compiler, f: &Compiler, pos: int, p: int)
    requires cwf(s), loop_tail(o, s), is_start(s, pos), is_start(s, code(s).len() - 3), pos + 3 <= code(s).len() - 3, op_at(code(s), pos) == Opcode::Jump,
        p >= 0 ==> while_jumps(o, s, p) && is_start(s, p),
        code(f).len() == code(s).len(), forall|i: int| 0 <= i < code(s).len() && !(pos < i < pos + 3) ==> code(f)[i] == code(s)[i],
        f.encoding_error is None ==> s.encoding_error is None,
    ensures loop_tail(o, f), p >= 0 ==> while_jumps(o, f, p)
{
    lemma_tail_kept(o, s, f, pos);
    if p >= 0 { lemma_byte_of_op(code(s)[p]); lemma_while_kept(o, s, f, pos, p); }
}

// C09: the operands of a binary operator are compiled in source order, except '<' and '<=' which are compiled as '>' / '>='
// on the swapped operands
pub open spec fn swapped(s: Seq<char>) -> bool { s == "<"@ || s == "<="@ }
pub open spec fn binary_at(o: &Compiler, f: &Compiler, b: BinaryExpr, p: int) -> bool {
    code(o).len() <= p && p <= sc(f).last_ins.position && sc(f).last_ins.position < code(f).len()
        && emitted_by(if swapped(b.operator@) { *b.right } else { *b.left }, seg(f, code(o).len() as int, p))
        && emitted_by(if swapped(b.operator@) { *b.left } else { *b.right }, seg(f, p, sc(f).last_ins.position as int))
}
pub open spec fn binary_shape(o: &Compiler, f: &Compiler, b: BinaryExpr) -> bool { exists|p: int| #[trigger] binary_at(o, f, b, p) }
pub broadcast proof fn lemma_seg_kept(a: &Compiler, b: &Compiler, x: int, y: int)
    requires #[trigger] ext0(a, b), 0 <= x <= y <= code(a).len()
    ensures #[trigger] seg(b, x, y) == seg(a, x, y)
{
    assert forall|i: int| 0 <= i < code(a).len() implies code(b)[i] == code(a)[i] by { assert(code(b).subrange(0, code(a).len() as int)[i] == code(b)[i]); }
    assert(seg(b, x, y) =~= seg(a, x, y));
}
// Compiler::new registers the builtin functions and variables in a fresh symbol table (two loops over static tables that
// touch nothing but that table): replaced by this shim
#[verifier::external_body] pub fn symtab_with_builtins() -> (r: SymbolTable) ensures st_depth(&r) == 0 { unimplemented!() }
pub proof fn lemma_new(c: &Compiler)
    requires c.scopes@.len() == 1, c.scope_index == 0, code(c).len() == 0, lns(c).len() == 0, sc(c).loop_stack@.len() == 0
    ensures cwf(c)
{
    lemma_empty_stream(code(c));
    assert(swf(&sc(c)));
}

// C04: the instruction that reads / writes a resolved symbol is the one of the symbol's own scope, with the symbol's own index
pub open spec fn load_op(s: SymbolScope) -> Opcode {
    match s { SymbolScope::Global => Opcode::GetGlobal, SymbolScope::Local => Opcode::GetLocal, SymbolScope::BuiltinFn => Opcode::GetBuiltinFn,
              SymbolScope::BuiltinVar => Opcode::GetBuiltinVar, SymbolScope::Free => Opcode::GetFree, SymbolScope::Function => Opcode::CurrClosure }
}
pub open spec fn store_op(s: SymbolScope) -> Opcode {
    match s { SymbolScope::Global => Opcode::SetGlobal, SymbolScope::Local => Opcode::SetLocal, SymbolScope::Free => Opcode::SetFree, _ => Opcode::Invalid }
}
pub open spec fn define_op(s: SymbolScope) -> Opcode { if s == SymbolScope::Global { Opcode::DefineGlobal } else { Opcode::DefineLocal } }
pub open spec fn appended_ins(o: &Compiler, f: &Compiler, op: Opcode, operand: usize) -> bool { code(f) == code(o) + ins_bytes(op, seq![operand]) }
pub open spec fn ends_with_ins(f: &Compiler, op: Opcode, operand: usize) -> bool {
    code(f).len() >= ilen(op) && code(f).subrange(code(f).len() - ilen(op), code(f).len() as int) == ins_bytes(op, seq![operand]) && sc(f).last_ins.opcode == op
}

// C04: a function literal leaves, in the enclosing scope, one load per captured (free) symbol - through the instruction of the symbol's
// own scope and index, in the order the inner table recorded them - followed by Closure(function constant, number of captures)
pub open spec fn loads_bytes(fs: Seq<Rc<Symbol>>, n: int) -> Seq<u8>
    decreases n
{
    if n <= 0 { Seq::<u8>::empty() } else { loads_bytes(fs, n - 1) + ins_bytes(load_op(fs[n - 1].scope), seq![fs[n - 1].index]) }
}
pub open spec fn closure_at(o: &Compiler, f: &Compiler, fs: Seq<Rc<Symbol>>, idx: usize) -> bool {
    code(f) == code(o) + loads_bytes(fs, fs.len() as int) + ins_bytes(Opcode::Closure, seq![idx, fs.len() as usize])
}
pub open spec fn closure_shape(o: &Compiler, f: &Compiler) -> bool { exists|fs: Seq<Rc<Symbol>>, idx: usize| #[trigger] closure_at(o, f, fs, idx) }
