"""C12: format_obj and format_buf (builtins/print.rs) against the reference renderer of the prelude; the print builtins' length accounting."""
P = "src/builtins/print.rs"
F = "src/builtins/functions.rs"
OB = "src/object/mod.rs"

INV = ("inv(render(parts@, 0, args@, 1), parts@, args@, idx_fmt as int, idx_arg as int, s0, cat(collector.0@), in_spec, in_spec_format, "
       "curr_spec_idx@, curr_spec_padding@, jn(curr_spec_just), curr_spec_width@, nfn(num_fmt))")
PIECE = "fmt_piece(padding@, jn(justify), width_str@, nfn(num_fmt), *obj)"

RW = [
    dict(rule="R3", re=r"String::from\((\"[^\"]*\")\)", to=r"str_to_string(\1)", why="String::from(&str) shim"),
    dict(rule="R3", re=r"String::new\(\)", to="string_new()", why="String::new shim"),
]

GOAL = "render(f@, 0, args@, 1)"
def PRINT(name, stream, nl):
    other = "se" if stream == "so" else "so"
    mac = "print" if stream == "so" else "eprint"
    tail = " + seq!['\\n']" if nl else ""
    plus = " + 1" if nl else ""
    return dict(kind="fn", file=F, path="builtin_" + name, ret="r", props=["C12"],
                ensures=["args@.len() == 0 ==> r is Err",
                         "args@.len() > 0 && !(*args@[0] is Str) ==> r is Err",
                         "*args@[0] matches Object::Str(f) ==> (args@.len() > 0 ==> (%s is Err ==> r is Err))" % GOAL,
                         # the rendered text (plus a newline for the ln variants) goes to the right stream, nothing to the other, and its length in bytes is returned
                         "*args@[0] matches Object::Str(f) ==> (args@.len() > 0 ==> (%s matches R::Ok(t) ==> (r matches Ok(o) && *o == Object::Integer((blen(t)%s) as i64) && final(%s).written() == old(%s).written() + t%s)))" % (GOAL, plus, stream, stream, tail),
                         "final(%s).written() == old(%s).written()" % (other, other)],
                prologue="let ghost w0 = %s.written();" % stream,
                rewrites=[
                    dict(rule="R7", re=r"fn builtin_%s\(args: Vec<Rc<Object>>\)" % name, to="fn builtin_%s(args: Vec<Rc<Object>>, so: &mut Out, se: &mut Out)" % name, expect=1, strict=True,
                         why="stdout and stderr become &mut ghost-text parameters"),
                    dict(rule="R1", re=r"let mut len = 0;", to="let mut len: i64 = 0;", why="type annotation"),
                    dict(rule="R5", re=r"for s in &collector\.0 (/\*@L0@\*/)\{(/\*@LB0@\*/)", to=r"proof { axiom_blen_basic(); axiom_in_memory(collector.0@); assert(collector.0@.take(0) =~= Seq::<String>::empty()); } let mut pi: usize = 0; while pi < collector.0.len() \1{ let s = &collector.0[pi]; pi += 1; \2", expect=1, why="for over &Vec -> index loop in the same order"),
                    dict(rule="R3f", re=r"\b%s!\(\"\{\}\", s\);" % mac, to="out_print(%s, s);" % stream, why="%s! -> ghost-text shim" % mac),
                    dict(rule="R3f", re=r"\b%sln!\(\);" % mac, to="out_newline(%s);" % stream, why="%sln!() -> ghost-text shim" % mac),
                    dict(rule="R3", re=r"s\.len\(\) as i64", to="string_len(s) as i64", why="String::len behind its contract"),
                ],
                loops={0: dict(invariant=["pi <= collector.0@.len()", "%s.written() == w0 + cat(collector.0@.take(pi as int))" % stream, "len == blen(cat(collector.0@.take(pi as int)))",
                                          "%s.written() == old(%s).written()" % (other, other), "blen(cat(collector.0@)) < 0x4000_0000_0000_0000"],
                               decreases="collector.0@.len() - pi",
                               body_prologue="proof { lemma_cat_take(collector.0@, pi as int - 1); axiom_blen_add(cat(collector.0@.take(pi as int - 1)), collector.0@[pi as int - 1]@); lemma_blen_prefix(collector.0@, pi as int); assert((w0 + cat(collector.0@.take(pi as int - 1))) + collector.0@[pi as int - 1]@ =~= w0 + (cat(collector.0@.take(pi as int - 1)) + collector.0@[pi as int - 1]@)); }",
                               after="proof { assert(collector.0@.take(collector.0@.len() as int) =~= collector.0@); axiom_blen_basic(); axiom_blen_add(cat(collector.0@), seq!['\\n']); assert((w0 + cat(collector.0@)) + seq!['\\n'] =~= w0 + (cat(collector.0@) + seq!['\\n'])); }")})

UNIT = dict(
    name="format",
    rlimit=400,
    prelude="units/format/prelude.rs",
    uses="use std::rc::Rc;",
    lemmas={"lemma_cat_push": ["C12"], "lemma_close_ge": ["C12"], "lemma_close": ["C12"], "lemma_pre_pre": ["C12"], "lemma_pre_empty": ["C12"], "lemma_scan_step": ["C12"], "lemma_render_plain": ["C12"], "lemma_render_spec": ["C12"], "lemma_close_lower": ["C12"], "lemma_scan_mono": ["C12"], "lemma_body_bad": ["C12"], "lemma_cat_take": ["C12"], "lemma_blen_prefix": ["C12"]},
    global_rewrites=RW,
    items=[
        dict(kind="enum", file=OB, path="Object"),
        dict(kind="enum", file=P, path="NumberFormat"),
        dict(kind="enum", file=P, path="SpecJustify"),
        dict(kind="struct", file=P, path="Collector"),
        dict(kind="fn", file=P, path="impl fmt::Write for Collector::write_str", ret="r", props=["C12"], free=True, impl="Collector",
             ensures=["r is Ok", "final(self).0@.len() == old(self).0@.len() + 1 && final(self).0@.drop_last() == old(self).0@ && final(self).0@.last()@ == s@"],
             rewrites=[dict(rule="R10", re=r"fmt::Result", to="Result<(), FmtError>", expect=1, strict=True, why="trait impl method -> inherent method; fmt::Result = Result<(), fmt::Error>"),
                       dict(rule="R3", re=r"s\.to_string\(\)", to="str_to_string(s)", why="str::to_string shim")]),
        dict(kind="fn", file=P, path="format_obj", ret="r", props=["C12"],
             ensures=["r is Ok <==> %s is Some" % PIECE,
                      "r is Ok ==> final(collector).0@.len() == old(collector).0@.len() + 1 && final(collector).0@.drop_last() == old(collector).0@ && Some(final(collector).0@.last()@) == %s" % PIECE,
                      "r is Err ==> final(collector).0@ == old(collector).0@"],
             rewrites=[
                 dict(rule="R3", re=r"width_str\.is_empty\(\)", to="str_is_empty(width_str)", why="str::is_empty shim"),
                 dict(rule="R3", re=r"width_str\s*\.parse\(\)\s*\.map_err\(\|_: std::num::ParseIntError\| \"Failed to parse width\"\.to_string\(\)\)\?", to="str_parse_usize(width_str)?", why="str::parse::<usize> behind its contract; error text dropped"),
                 dict(rule="R3f", re=r"format!\(\"\{:b\}\", \*num as usize\)", to="fmt_radix(*num as usize, 1)", why="format!({:b}) shim"),
                 dict(rule="R3f", re=r"format!\(\"\{:o\}\", \*num as usize\)", to="fmt_radix(*num as usize, 2)", why="format!({:o}) shim"),
                 dict(rule="R3f", re=r"format!\(\"\{:x\}\", \*num as usize\)", to="fmt_radix(*num as usize, 3)", why="format!({:x}) shim"),
                 dict(rule="R3f", re=r"format!\(\"\{:X\}\", \*num as usize\)", to="fmt_radix(*num as usize, 4)", why="format!({:X}) shim"),
                 dict(rule="R3", re=r"Err\((str_to_string\(\"[^\"]*\"\)|String::from\(\"[^\"]*\"\))\)\?", to=r"return Err(\1)", why="`Err(e)?` in expression position -> return Err(e)"),
                 dict(rule="R3", re=r"\bt\.to_string\(\)", to="string_clone(t)", why="String::to_string shim (equal text)"),
                 dict(rule="R3f", re=r"format!\(\"\{\}\", o\)", to="obj_display(o)", why="Display for Object shim"),
                 dict(rule="R3", re=r"padding\.is_empty\(\)", to="str_is_empty(padding)", why="str::is_empty shim"),
                 dict(rule="R3", re=r"\{ \" \" \}", to="{ space() }", why="string literal shim"),
                 dict(rule="R3", re=r"width\.saturating_sub\(formatted\.len\(\)\)", to="sat_sub(width, string_len(&formatted))", why="usize::saturating_sub / String::len behind contracts"),
                 dict(rule="R3", re=r"padding\.repeat\(width_pad\)", to="str_repeat(padding, width_pad)", why="str::repeat behind its contract"),
                 dict(rule="R3f", re=r"format!\(\"\{\}\{\}\", formatted, padded\)", to="concat2(&formatted, &padded)", why="format!({}{}) -> concatenation shim"),
                 dict(rule="R3f", re=r"format!\(\"\{\}\{\}\", padded, formatted\)", to="concat2(&padded, &formatted)", why="format!({}{}) -> concatenation shim"),
                 dict(rule="R3f", re=r"write!\(collector, \"\{\}\", formatted_output\)\.map_err\(\|e\| e\.to_string\(\)\)\?;", to="collector_write(collector, &formatted_output);", why="write! through Collector::write_str, which cannot fail"),
             ]),
        dict(kind="fn", file=P, path="format_buf", ret="r", props=["C12"],
             ensures=["args@.len() == 0 ==> r is Err",
                      "args@.len() > 0 && !(*args@[0] is Str) ==> r is Err",
                      # the text collected is the reference rendering of the format string over the values
                      "*args@[0] matches Object::Str(f) ==> (args@.len() > 0 ==> (render(f@, 0, args@, 1) matches R::Ok(t) ==> (r matches Ok(c) && cat(c.0@) == t)))",
                      # a specifier without a matching argument, an unparsable width, a number format on a non-integer: runtime error
                      "*args@[0] matches Object::Str(f) ==> (args@.len() > 0 ==> (render(f@, 0, args@, 1) is Err ==> r is Err))"],
             prologue="let ghost mut s0: int = 0;",
             rewrites=[
                 dict(rule="R3", re=r"fmt\.chars\(\)\.collect\(\)", to="string_chars(fmt)", why="chars().collect() shim: the same characters in order"),
                 dict(rule="R3f", re=r"write!\(collector, \"\{\{\"\)\.map_err\(\|e\| e\.to_string\(\)\)\?;", to="collector_write_char(&mut collector, '{');", why="write!(\"{{\") emits one '{'"),
                 dict(rule="R3f", re=r"write!\(collector, \"\}\}\"\)\.map_err\(\|e\| e\.to_string\(\)\)\?;", to="collector_write_char(&mut collector, '}');", why="write!(\"}}\") emits one '}'"),
                 dict(rule="R3f", re=r"write!\(collector, \"\{\}\", curr\)\.map_err\(\|e\| e\.to_string\(\)\)\?;", to="collector_write_char(&mut collector, curr);", why="write!(\"{}\", char) emits that char"),
                 dict(rule="R3", re=r"curr_spec_(idx|width|padding)\.is_empty\(\)", to=r"string_is_empty(&curr_spec_\1)", why="String::is_empty shim"),
                 dict(rule="R3", re=r"&curr_spec_padding,", to="curr_spec_padding.as_str(),", why="&String -> &str deref coercion made explicit"),
                 dict(rule="R3", re=r"&curr_spec_width,", to="curr_spec_width.as_str(),", why="&String -> &str deref coercion made explicit"),
                 dict(rule="R3", re=r"curr_spec_idx\.parse::<usize>\(\)\.map_err\(\|e\| e\.to_string\(\)\)\?", to="str_parse_usize(curr_spec_idx.as_str())?", why="str::parse::<usize> behind its contract"),
                 dict(rule="R3", re=r"curr_spec_width\.clone\(\)", to="string_clone(&curr_spec_width)", why="String::clone shim"),
                 dict(rule="R3", re=r"curr_spec_(width|idx|padding)\.push\(curr\)", to=r"string_push(&mut curr_spec_\1, curr)", why="String::push shim"),
                 dict(rule="R3", re=r"&args\[(\w+)\],", to=r"&*args[\1],", why="&Rc<Object> -> &Object deref coercion made explicit"),
             ],
             loops={0: dict(
                 invariant=["*args@[0] matches Object::Str(f) && parts@ == f@", "idx_fmt <= parts@.len()", "1 <= idx_arg <= args@.len()", INV],
                 decreases="parts@.len() - idx_fmt",
                 body_prologue=("proof { if !in_spec { s0 = idx_fmt as int; } "
                                "lemma_render_plain(parts@, idx_fmt as int, args@, idx_arg as int); "
                                "if in_spec && !(render(parts@, 0, args@, 1) is Unspec) { lemma_render_spec(parts@, s0, idx_fmt as int, args@, idx_arg as int); lemma_scan_step(parts@, s0 + 1, idx_fmt as int); lemma_body_bad(parts@, s0, idx_fmt as int, args@, idx_arg as int); } "
                                "lemma_scan_step(parts@, idx_fmt as int + 1, idx_fmt as int + 1); "
                                "let out0 = cat(collector.0@); assert forall|t: Seq<char>, r: R| #[trigger] pre(out0, pre(t, r)) == pre(out0 + t, r) by { lemma_pre_pre(out0, t, r); } }"),
                 after=("proof { lemma_render_plain(parts@, idx_fmt as int, args@, idx_arg as int); if in_spec && !(render(parts@, 0, args@, 1) is Unspec) { lemma_render_spec(parts@, s0, idx_fmt as int, args@, idx_arg as int); } lemma_pre_empty(cat(collector.0@)); }"))}),
            dict(kind="fn", file=F, path="builtin_format", ret="r", props=["C12"],
             ensures=["args@.len() == 0 ==> r is Err", "args@.len() > 0 && !(*args@[0] is Str) ==> r is Err",
                      "*args@[0] matches Object::Str(f) ==> (args@.len() > 0 ==> (%s is Err ==> r is Err))" % GOAL,
                      "*args@[0] matches Object::Str(f) ==> (args@.len() > 0 ==> (%s matches R::Ok(t) ==> (r matches Ok(o) && (*o matches Object::Str(s) && s@ == t))))" % GOAL],
             rewrites=[dict(rule="R3", re=r"collector\.0\.into_iter\(\)\.collect\(\)", to="strings_concat(collector.0)", why="into_iter().collect::<String>() -> concatenation shim")]),
    ] + [PRINT(n, st, nl) for (n, st, nl) in (("print", "so", False), ("println", "so", True), ("eprint", "se", False), ("eprintln", "se", True))],
)
