global size_of usize == 8;

// ---- payload types of Object: opaque here ----
#[verifier::external_body] pub struct Array { _p: () }
#[verifier::external_body] pub struct HMap { _p: () }
#[verifier::external_body] pub struct FileHandle { _p: () }
#[verifier::external_body] pub struct ErrorObj { _p: () }
#[verifier::external_body] pub struct Pcap { _p: () }
#[verifier::external_body] pub struct PcapPacket { _p: () }
#[verifier::external_body] pub struct Ethernet { _p: () }
#[verifier::external_body] pub struct Vlan { _p: () }
#[verifier::external_body] pub struct Ipv4Packet { _p: () }
#[verifier::external_body] pub struct Ipv6Packet { _p: () }
#[verifier::external_body] pub struct Udp { _p: () }
#[verifier::external_body] pub struct Tcp { _p: () }
#[verifier::external_body] pub struct BuiltinFunction { _p: () }
#[verifier::external_body] pub struct CompiledFunction { _p: () }
#[verifier::external_body] pub struct Closure { _p: () }

// ---- std's text primitives, uninterpreted: the same function on the code side (shim contracts) and in the reference renderer ----
pub uninterp spec fn parse_usize(s: Seq<char>) -> Option<usize>;       // str::parse::<usize>
pub uninterp spec fn radix_text(n: usize, nf: int) -> Seq<char>;       // {:b} {:o} {:x} {:X} of a usize (nf = 1..4)
pub uninterp spec fn display(o: Object) -> Seq<char>;                  // Display for Object
pub uninterp spec fn blen(s: Seq<char>) -> nat;                        // str::len: bytes of the UTF-8 encoding (= chars for ASCII)
pub uninterp spec fn rep(s: Seq<char>, n: nat) -> Seq<char>;           // str::repeat

#[verifier::external_body] pub fn str_to_string(s: &str) -> (r: String) ensures r@ == s@ { s.to_string() }
#[verifier::external_body] pub fn str_is_empty(s: &str) -> (r: bool) ensures r == (s@.len() == 0) { s.is_empty() }
#[verifier::external_body] pub fn string_is_empty(s: &String) -> (r: bool) ensures r == (s@.len() == 0) { s.is_empty() }
#[verifier::external_body] pub fn str_parse_usize(s: &str) -> (r: Result<usize, String>)
    ensures r is Ok <==> parse_usize(s@) is Some, r matches Ok(v) ==> parse_usize(s@) == Some(v) { unimplemented!() }
#[verifier::external_body] pub fn fmt_radix(n: usize, nf: u8) -> (r: String) ensures r@ == radix_text(n, nf as int) { unimplemented!() }
#[verifier::external_body] pub fn obj_display(o: &Object) -> (r: String) ensures r@ == display(*o) { unimplemented!() }
#[verifier::external_body] pub fn string_clone(s: &String) -> (r: String) ensures r@ == s@ { s.clone() }
#[verifier::external_body] pub fn string_len(s: &String) -> (r: usize) ensures r == blen(s@) { s.len() }
#[verifier::external_body] pub fn str_repeat(s: &str, n: usize) -> (r: String) ensures r@ == rep(s@, n as nat) { s.repeat(n) }
#[verifier::external_body] pub fn concat2(a: &String, b: &String) -> (r: String) ensures r@ == a@ + b@ { unimplemented!() }
#[verifier::external_body] pub fn string_new() -> (r: String) ensures r@ == Seq::<char>::empty() { String::new() }
#[verifier::external_body] pub fn string_push(s: &mut String, c: char) ensures final(s)@ == old(s)@.push(c) { s.push(c) }
#[verifier::external_body] pub fn string_chars(s: &String) -> (r: Vec<char>) ensures r@ == s@ { s.chars().collect() }
#[verifier::external_body] pub fn space() -> (r: &'static str) ensures r@ == seq![' '] { " " }

#[verifier::external_body] pub struct FmtError { _p: () }
// ---- what a Collector holds: the concatenation of its pieces ----
pub open spec fn cat(v: Seq<String>) -> Seq<char> decreases v.len() { if v.len() == 0 { Seq::<char>::empty() } else { cat(v.drop_last()) + v.last()@ } }
pub proof fn lemma_cat_push(v: Seq<String>, x: String) ensures cat(v.push(x)) == cat(v) + x@ { assert(v.push(x).drop_last() =~= v); }
// write!(collector, ..) goes through Collector::write_str (verified below) and cannot fail
#[verifier::external_body] pub fn collector_write(c: &mut Collector, s: &String)
    ensures final(c).0@.len() == old(c).0@.len() + 1, final(c).0@.drop_last() == old(c).0@, final(c).0@.last()@ == s@ { unimplemented!() }
#[verifier::external_body] pub fn collector_write_char(c: &mut Collector, ch: char)
    ensures final(c).0@.len() == old(c).0@.len() + 1, final(c).0@.drop_last() == old(c).0@, final(c).0@.last()@ == seq![ch] { unimplemented!() }

pub open spec fn jn(j: SpecJustify) -> int { match j { SpecJustify::Default => 0, SpecJustify::Left => 1, SpecJustify::Right => 2 } }
pub open spec fn nfn(n: NumberFormat) -> int { match n { NumberFormat::None => 0, NumberFormat::Boolean => 1, NumberFormat::Octal => 2, NumberFormat::Hex => 3, NumberFormat::HexaDecimal => 4 } }

// ================= the reference renderer (C12) =================
// text of a value under a number format: integers in binary/octal/hex when asked, everything else through Display
// (strings without their quotes); a number format on a non-integer has no rendering
pub open spec fn text_of(nf: int, o: Object) -> Option<Seq<char>> {
    if nf == 0 { Some(match o { Object::Str(t) => t@, _ => display(o) }) }
    else { match o { Object::Integer(n) => Some(radix_text(n as usize, nf)), _ => None } }
}
// one rendered specifier: the text padded with the fill (default space) to the width; integers go right unless told otherwise
pub open spec fn fmt_piece(fill: Seq<char>, just: int, width: Seq<char>, nf: int, o: Object) -> Option<Seq<char>> {
    let w = if width.len() == 0 { Some(0usize) } else { parse_usize(width) };
    match (w, text_of(nf, o)) {
        (Some(wv), Some(t)) => {
            let f = if fill.len() == 0 { seq![' '] } else { fill };
            let n = if wv as int > blen(t) { (wv as int - blen(t)) as nat } else { 0nat };
            let right = just == 2 || (just == 0 && o is Integer);
            Some(if right { rep(f, n) + t } else { t + rep(f, n) })
        }
        _ => None,
    }
}
pub open spec fn is_digit(c: char) -> bool { '0' <= c && c <= '9' }
pub open spec fn is_just(c: char) -> bool { c == '<' || c == '>' }
pub open spec fn just_of(c: char) -> int { if c == '<' { 1 } else { 2 } }
pub open spec fn nf_of(c: char) -> int { if c == 'b' { 1 } else if c == 'o' { 2 } else if c == 'x' { 3 } else if c == 'X' { 4 } else { 0 } }
// a specifier body  [index] [ ':' [[fill] ('<'|'>')] [width] [b|o|x|X] ]  read left to right; ph is the position in that grammar:
// 0 index digits, 1 just after ':', 2 fill read (an alignment character follows), 3 width digits, 4 number format read
pub struct St { pub ph: int, pub idx: Seq<char>, pub fill: Seq<char>, pub just: int, pub width: Seq<char>, pub nf: int }
pub open spec fn st0() -> St { St { ph: 0, idx: Seq::empty(), fill: Seq::empty(), just: 0, width: Seq::empty(), nf: 0 } }
pub open spec fn la(p: Seq<char>, k: int) -> char { if 0 <= k + 1 < p.len() { p[k + 1] } else { '\0' } }
pub open spec fn step(st: St, c: char, nx: char) -> Option<St> {
    if c == '{' { None }
    else if st.ph == 0 {
        if is_digit(c) { Some(St { idx: st.idx.push(c), ..st }) } else if c == ':' { Some(St { ph: 1, ..st }) } else { None }
    } else if st.ph == 1 {
        if is_just(nx) { Some(St { ph: 2, fill: seq![c], ..st }) }            // any character directly before '<' or '>' is the fill
        else if is_just(c) { Some(St { ph: 3, just: just_of(c), ..st }) }
        else if is_digit(c) { Some(St { ph: 3, width: st.width.push(c), ..st }) }
        else if nf_of(c) != 0 { Some(St { ph: 4, nf: nf_of(c), ..st }) }
        else { None }
    } else if st.ph == 2 {
        if is_just(c) { Some(St { ph: 3, just: just_of(c), ..st }) } else { None }
    } else if st.ph == 3 {
        if is_digit(c) { Some(St { width: st.width.push(c), ..st }) } else if nf_of(c) != 0 { Some(St { ph: 4, nf: nf_of(c), ..st }) } else { None }
    } else { None }
}
// the body p[s..k) read so far; None: not a prefix of any specifier of the grammar
#[verifier::opaque]
pub open spec fn scan(p: Seq<char>, s: int, k: int) -> Option<St> decreases k - s {
    if k <= s { Some(st0()) } else { match scan(p, s, k - 1) { None => None, Some(st) => step(st, p[k - 1], la(p, k - 1)) } }
}
// first '}' at or after k (p.len() if none)
pub open spec fn close(p: Seq<char>, k: int) -> int decreases p.len() - k {
    if k < 0 || k >= p.len() { p.len() as int } else if p[k] == '}' { k } else { close(p, k + 1) }
}
pub proof fn lemma_close_ge(p: Seq<char>, k: int) requires 0 <= k <= p.len() ensures k <= close(p, k) <= p.len() decreases p.len() - k
{ if k < p.len() && p[k] != '}' { lemma_close_ge(p, k + 1); } }
pub proof fn lemma_close(p: Seq<char>, s: int, i: int)
    requires 0 <= s <= i <= p.len(), forall|k: int| s <= k < i ==> p[k] != '}',
    ensures i < p.len() && p[i] == '}' ==> close(p, s) == i, i == p.len() ==> close(p, s) == p.len()
    decreases i - s
{ if s < i { lemma_close(p, s + 1, i); } }

pub enum R { Unspec, Err, Ok(Seq<char>) }   // Unspec: the format string is outside the grammar, nothing is claimed
pub open spec fn pre(s: Seq<char>, r: R) -> R { match r { R::Ok(t) => R::Ok(s + t), R::Err => R::Err, R::Unspec => R::Unspec } }
// which argument a finished specifier shows, and the next positional index: unindexed ones go left to right,
// index n is the (n+1)-th value; no such argument: None
pub open spec fn select(st: St, alen: int, ia: int) -> Option<(int, int)> {
    if st.idx.len() == 0 { if ia < alen { Some((ia, ia + 1)) } else { None } }
    else { match parse_usize(st.idx) { Some(n) => if n as int + 1 < alen { Some((n as int + 1, ia)) } else { None }, None => None } }
}
pub open spec fn piece(st: St, a: Seq<Rc<Object>>, ia: int) -> Option<(Seq<char>, int)> {
    match select(st, a.len() as int, ia) {
        Some((k, ia2)) => match fmt_piece(st.fill, st.just, st.width, st.nf, *a[k]) { Some(t) => Some((t, ia2)), None => None },
        None => None,
    }
}
// the reference rendering of p[i..) with the values a[1..) (a[0] is the format string), ia the next positional argument
#[verifier::opaque]
pub open spec fn render(p: Seq<char>, i: int, a: Seq<Rc<Object>>, ia: int) -> R
    decreases p.len() - i via render_dec
{
    if i < 0 { R::Unspec } else if i >= p.len() { R::Ok(Seq::empty()) }
    else if p[i] == '{' {
        if la(p, i) == '{' { pre(seq!['{'], render(p, i + 2, a, ia)) }
        else {
            let j = close(p, i + 1);
            if j >= p.len() { R::Unspec } else {
                match scan(p, i + 1, j) {
                    None => R::Unspec,
                    Some(st) => if st.ph == 2 { R::Unspec } else {
                        match piece(st, a, ia) { None => R::Err, Some((t, ia2)) => pre(t, render(p, j + 1, a, ia2)) }
                    }
                }
            }
        }
    } else if p[i] == '}' { if la(p, i) == '}' { pre(seq!['}'], render(p, i + 2, a, ia)) } else { R::Unspec } }
    else { pre(seq![p[i]], render(p, i + 1, a, ia)) }
}
#[via_fn] proof fn render_dec(p: Seq<char>, i: int, a: Seq<Rc<Object>>, ia: int) { if 0 <= i < p.len() { lemma_close_ge(p, i + 1); } }

// ---- the simulation relation between the reference state and format_buf's variables ----
pub open spec fn rel(st: St, nxt_is_just: bool, isf: bool, idx: Seq<char>, pad: Seq<char>, just: int, width: Seq<char>, nf: int) -> bool {
    &&& 0 <= st.ph <= 4
    &&& idx =~= st.idx
    &&& (st.ph <= 1 ==> st.fill.len() == 0 && st.just == 0 && st.width.len() == 0 && st.nf == 0 && width.len() == 0 && pad.len() == 0 && just == 0 && nf == 0)
    &&& (st.ph == 0 <==> !isf)
    &&& (st.ph == 2 ==> st.just == 0 && st.width.len() == 0 && st.nf == 0 && width =~= st.fill && st.fill.len() == 1 && pad.len() == 0 && just == 0 && nf == 0 && nxt_is_just)
    &&& (st.ph == 3 ==> st.nf == 0 && (st.just != 0 || st.width.len() > 0))
    &&& (st.ph >= 3 ==> pad =~= st.fill && just == st.just && width =~= st.width && nf == st.nf)
    &&& (st.ph == 4 ==> st.nf != 0)
}
pub open spec fn cur(p: Seq<char>, i: int) -> char { if 0 <= i < p.len() { p[i] } else { '\0' } }
// the loop invariant of format_buf: either nothing is claimed, or what is collected so far plus the reference rendering of the rest is the reference rendering of the whole
pub open spec fn inv(goal: R, p: Seq<char>, a: Seq<Rc<Object>>, i: int, ia: int, s0: int, out: Seq<char>,
                     in_spec: bool, isf: bool, idx: Seq<char>, pad: Seq<char>, just: int, width: Seq<char>, nf: int) -> bool {
    goal is Unspec || (
        if !in_spec {
            goal == pre(out, render(p, i, a, ia)) && !isf && idx.len() == 0 && pad.len() == 0 && just == 0 && width.len() == 0 && nf == 0
        } else {
            &&& goal == pre(out, render(p, s0, a, ia))
            &&& 0 <= s0 < i && p[s0] == '{' && la(p, s0) != '{'
            &&& (forall|k: int| s0 < k < i ==> p[k] != '}')
            &&& (scan(p, s0 + 1, i) matches Some(st) && rel(st, is_just(cur(p, i)), isf, idx, pad, just, width, nf))
        })
}
pub proof fn lemma_pre_pre(s: Seq<char>, t: Seq<char>, r: R) ensures pre(s, pre(t, r)) == pre(s + t, r)
{ match r { R::Ok(u) => { assert(s + (t + u) =~= (s + t) + u); } _ => {} } }
pub proof fn lemma_pre_empty(s: Seq<char>) ensures pre(s, R::Ok(Seq::empty())) == R::Ok(s) { assert(s + Seq::<char>::empty() =~= s); }
#[verifier::external_body] pub fn sat_sub(a: usize, b: usize) -> (r: usize) ensures r == (if a > b { (a - b) as usize } else { 0usize }) { a.saturating_sub(b) }

// ---- the reference renderer, one case at a time (render and scan are opaque; these are their unfoldings) ----
pub proof fn lemma_scan_step(p: Seq<char>, s: int, i: int)
    requires s <= i
    ensures scan(p, s, i + 1) == (match scan(p, s, i) { None => None::<St>, Some(st) => step(st, p[i], la(p, i)) }), scan(p, s, s) == Some(st0())
{ reveal_with_fuel(scan, 2); }
pub proof fn lemma_render_plain(p: Seq<char>, i: int, a: Seq<Rc<Object>>, ia: int)
    requires 0 <= i
    ensures
        i >= p.len() ==> render(p, i, a, ia) == R::Ok(Seq::empty()),
        i < p.len() && p[i] != '{' && p[i] != '}' ==> render(p, i, a, ia) == pre(seq![p[i]], render(p, i + 1, a, ia)),
        i < p.len() && p[i] == '{' && la(p, i) == '{' ==> render(p, i, a, ia) == pre(seq!['{'], render(p, i + 2, a, ia)),
        i < p.len() && p[i] == '}' && la(p, i) == '}' ==> render(p, i, a, ia) == pre(seq!['}'], render(p, i + 2, a, ia)),
        i < p.len() && p[i] == '}' && la(p, i) != '}' ==> render(p, i, a, ia) is Unspec,
{ reveal_with_fuel(render, 2); }
// a specifier opened at s0 whose body p(s0, i) holds no '}':
pub proof fn lemma_render_spec(p: Seq<char>, s0: int, i: int, a: Seq<Rc<Object>>, ia: int)
    requires 0 <= s0 < i <= p.len(), p[s0] == '{', la(p, s0) != '{', forall|k: int| s0 < k < i ==> p[k] != '}'
    ensures
        // the string ends inside it: outside the grammar
        i == p.len() ==> render(p, s0, a, ia) is Unspec,
        // it is closed at i: outside the grammar if the body is, else the selected value formatted, then the rest
        i < p.len() && p[i] == '}' ==> render(p, s0, a, ia) == (match scan(p, s0 + 1, i) {
            None => R::Unspec,
            Some(st) => if st.ph == 2 { R::Unspec } else { match piece(st, a, ia) { None => R::Err, Some((t, ia2)) => pre(t, render(p, i + 1, a, ia2)) } } }),
{ reveal_with_fuel(render, 2); lemma_close(p, s0 + 1, i); }

pub proof fn lemma_close_lower(p: Seq<char>, s: int, i: int)
    requires 0 <= s <= i <= p.len(), forall|k: int| s <= k < i ==> p[k] != '}',
    ensures i <= close(p, s) <= p.len()
    decreases i - s
{ if s < i { lemma_close_lower(p, s + 1, i); } else { lemma_close_ge(p, s); } }
pub proof fn lemma_scan_mono(p: Seq<char>, s: int, i: int, j: int)
    requires s <= i <= j, scan(p, s, i) is None
    ensures scan(p, s, j) is None
    decreases j - i
{ if i < j { lemma_scan_mono(p, s, i, j - 1); lemma_scan_step(p, s, j - 1); } }
// a body that has left the grammar makes the whole string unspecified, whatever follows
pub proof fn lemma_body_bad(p: Seq<char>, s0: int, i: int, a: Seq<Rc<Object>>, ia: int)
    requires 0 <= s0 < i < p.len(), p[s0] == '{', la(p, s0) != '{', forall|k: int| s0 < k < i ==> p[k] != '}'
    ensures p[i] != '}' && scan(p, s0 + 1, i + 1) is None ==> render(p, s0, a, ia) is Unspec
{
    if p[i] != '}' && scan(p, s0 + 1, i + 1) is None {
        lemma_close_lower(p, s0 + 1, i + 1);
        let j = close(p, s0 + 1);
        if j < p.len() { lemma_scan_mono(p, s0 + 1, i + 1, j); }
        reveal_with_fuel(render, 2);
    }
}

// ---- the print builtins: stdout / stderr as ghost text, lengths in bytes ----
#[verifier::external_body] pub struct Out { _p: () }
impl Out { pub uninterp spec fn written(&self) -> Seq<char>; }
#[verifier::external_body] pub fn out_print(o: &mut Out, s: &String) ensures final(o).written() == old(o).written() + s@ { unimplemented!() }
#[verifier::external_body] pub fn out_newline(o: &mut Out) ensures final(o).written() == old(o).written() + seq!['\n'] { unimplemented!() }
#[verifier::external_body] pub fn strings_concat(v: Vec<String>) -> (r: String) ensures r@ == cat(v@) { unimplemented!() }
// UTF-8 length is additive, a newline is one byte, and the text held in memory is shorter than 2^62 bytes (trusted)
#[verifier::external_body] pub proof fn axiom_blen_add(a: Seq<char>, b: Seq<char>) ensures blen(a + b) == blen(a) + blen(b) { }
#[verifier::external_body] pub proof fn axiom_blen_basic() ensures blen(Seq::<char>::empty()) == 0, blen(seq!['\n']) == 1 { }
#[verifier::external_body] pub proof fn axiom_in_memory(v: Seq<String>) ensures blen(cat(v)) < 0x4000_0000_0000_0000 { }
pub proof fn lemma_cat_take(v: Seq<String>, k: int) requires 0 <= k < v.len() ensures cat(v.take(k + 1)) == cat(v.take(k)) + v[k]@
{ assert(v.take(k + 1) =~= v.take(k).push(v[k])); lemma_cat_push(v.take(k), v[k]); }
pub proof fn lemma_blen_prefix(v: Seq<String>, k: int) requires 0 <= k <= v.len() ensures blen(cat(v.take(k))) <= blen(cat(v)) decreases v.len() - k
{ if k < v.len() { lemma_blen_prefix(v, k + 1); lemma_cat_take(v, k); axiom_blen_add(cat(v.take(k)), v[k]@); } else { assert(v.take(k) =~= v); } }
