"""C01 (Verus): the expression-parsing functions of parser/rules.rs on their real bodies. For every token stream each of
them is panic-free (no index, slice or unwrap can fail), records diagnostics only by appending, consumes input monotonically,
and every loop of its own terminates (decreases: input left + look-ahead slots not yet at end of input). The recursive entries
- parse_expression (which calls through the function values of PARSE_RULES) and parse_statement - are behind one assumed
contract (`mono`), so what is NOT proved here is the termination of the recursion itself (depth is bounded by the tokens
consumed: stated, not proved)."""
PM = "src/parser/mod.rs"
RU = "src/parser/rules.rs"
PR = "src/parser/precedence.rs"
T = "src/scanner/token.rs"
AE = "src/parser/ast/expr.rs"
AS = "src/parser/ast/stmt.rs"

RW = [
    dict(rule="R1", re=r"self\.(previous|current|peek_next)\.clone\(\)", to=r"clone_token(&self.\1)", why="Token::clone -> structural copy shim"),
    dict(rule="R1", re=r"\btoken_ident\.clone\(\)", to="clone_token(&token_ident)", why="Token::clone shim"),
    dict(rule="R1", re=r"\btoken_ident\.literal\.clone\(\)", to="string_clone(&token_ident.literal)", why="String::clone shim"),
    dict(rule="R1", re=r"self\.current\.literal\.clone\(\)", to="string_clone(&self.current.literal)", why="String::clone shim"),
    dict(rule="R1", re=r"self\.(previous|current|peek_next)\.ttype == \*ttype", to=r"tt_eq(&self.\1.ttype, ttype)", why="derived PartialEq on TokenType -> shim"),
    dict(rule="R3", re=r"self\.scanner\.next_token\(\)", to="scanner_next_token(&mut self.scanner)", why="Scanner::next_token behind the scanner unit's contract"),
    dict(rule="R3", re=r"self\.scanner\.get_line\(\)", to="scanner_get_line(&self.scanner)", why="Scanner::get_line shim"),
    dict(rule="R3f", re=r"(?<!&)format!\((?:[^()]|\((?:[^()]|\([^()]*\))*\))*\)", to="fmt_any()", why="format! message text dropped"),
    dict(rule="R3", re=r"self\.parse_expression\(", to="parse_expression_shim(self, ", why="the Pratt loop behind the assumed contract `mono`"),
    dict(rule="R3", re=r"self\.parse_statement\(\)", to="parse_statement_shim(self)", why="the statement parser behind the assumed contract `mono`"),
    dict(rule="R3", re=r"self\.peek_invalid_assignment\(", to="peek_invalid_assignment_shim(self, ", why="peek_invalid_assignment (verified in the parser unit) behind its contract"),
    dict(rule="R3", re=r"self\.push_error\(", to="push_error_shim(self, ", why="push_error behind the contract verified in the parser unit"),
    dict(rule="R3", re=r"self\.push_error_at\(", to="push_error_at_shim(self, ", why="push_error_at behind the contract verified in the parser unit"),
    dict(rule="R3", re=r"self\.peek_error\(", to="peek_error_shim(self, ", why="peek_error behind the contract verified in the parser unit"),
    dict(rule="R3", re=r"self\.curr_precedence\(\)", to="curr_precedence_shim(self)", why="curr_precedence (verified in the pins unit) behind a shim"),
    dict(rule="R0", re=r"\(&mut self, _: bool\)", to="(&mut self, _unused: bool)", why="`_` parameter named"),
    dict(rule="R3", re=r"Token::new\(", to="token_new(", why="Token::new shim"),
    dict(rule="R3", re=r"String::new\(\)", to="string_new()", why="String::new shim"),
    dict(rule="R3", re=r"(\"[^\"]*\")\.to_string\(\)", to=r"str_to_string(\1)", why="str::to_string shim"),
]
E = ["mono(old(self), final(self))"]


def m(path, file=RU, **kw):
    d = dict(kind="fn", file=file, path="Parser::" + path, props=["C01"], ensures=E)
    d.update(kw)
    return d


TYPES = [dict(kind="enum", file=T, path="TokenType"), dict(kind="struct", file=T, path="Token"), dict(kind="enum", file=PR, path="Precedence", attrs=["#[derive(Clone, Copy)]"])] + \
    [dict(kind=k, file=AE, path=p) for k, p in [("enum", "AccessType", ),  ("struct", "ParseContext"), ("struct", "Underscore"), ("struct", "Identifier"), ("struct", "BuiltinID"), ("struct", "StringLiteral"),
                                               ("struct", "CharLiteral"), ("struct", "ByteLiteral"), ("struct", "IntegerLiteral"), ("struct", "FloatLiteral"), ("struct", "NullLiteral"), ("struct", "UnaryExpr"),
                                               ("struct", "BinaryExpr"), ("struct", "BooleanExpr"), ("enum", "ElseIfExpr"), ("struct", "IfExpr"), ("enum", "MatchPattern"), ("struct", "MatchArm"),
                                               ("struct", "MatchExpr"), ("struct", "FunctionLiteral"), ("struct", "CallExpr"), ("struct", "ArrayLiteral"), ("struct", "HashLiteral"), ("struct", "IndexExpr"),
                                               ("struct", "AssignExpr"), ("struct", "RangeExpr"), ("struct", "PktPropExpr"), ("struct", "DotExpr"), ("enum", "Expression")]] + \
    [dict(kind=k, file=AS, path=p) for k, p in [("struct", "LetStmt"), ("struct", "ReturnStmt"), ("struct", "ContinueStmt"), ("struct", "BreakStmt"), ("struct", "LoopStmt"), ("struct", "WhileStmt"),
                                               ("struct", "ExpressionStmt"), ("struct", "BlockStatement"), ("enum", "FilterPattern"), ("struct", "FilterStmt"), ("enum", "Statement")]] + \
    [dict(kind="struct", file=PM, path="Parser")]

NT = ["nerr(final(self)) == nerr(old(self))", "final(self).scanner.left() <= old(self).scanner.left()",
      "final(self).current.ttype == old(self).peek_next.ttype", "final(self).previous.ttype == old(self).current.ttype", "final(self).in_match_pattern == old(self).in_match_pattern",
      "measure(final(self)) <= measure(old(self))", "!(old(self).current.ttype == TokenType::Eof && old(self).peek_next.ttype == TokenType::Eof) ==> measure(final(self)) < measure(old(self))", "mono(old(self), final(self))"]

UNIT = dict(
    name="exprparse",
    prelude="units/exprparse/prelude.rs",
    uses="",
    lemmas={},
    global_rewrites=RW,
    items=TYPES + [
        m("next_token", file=PM, ensures=NT),
        m("curr_token_is", file=PM, ret="r", ensures=["r == (self.current.ttype == *ttype)"]),
        m("peek_token_is", file=PM, ret="r", ensures=["r == (self.peek_next.ttype == *ttype)"]),
        m("expect_peek", file=PM, ret="r", ensures=E + ["measure(final(self)) <= measure(old(self))", "r ==> final(self).current.ttype == *ttype"]),
        m("peek_access_type", ret="r", ensures=[]),
        m("parse_null"), m("parse_underscore"), m("parse_builtin_id"), m("parse_boolean"),
        # literals: the std parsers on the token text are shims with arbitrary results; the radix slices need the scanner's token invariant
        m("parse_identifier", rewrites=[dict(rule="R6", re=r"PACKET_PROP_MAP\.get\(&value\)", to="prop_map_get(&value)", expect=1, why="lazy_static HashMap lookup shim"),
                                         dict(rule="R1", re=r"value: \*ptype,", to="value: clone_prop(&ptype),", expect=1, why="Copy of an opaque enum -> shim")]),
        m("parse_decimal", rewrites=[dict(rule="R3", re=r"self\.current\.literal\.parse\(\)", to="parse_i64(&self.current.literal)", expect=1, why="str::parse::<i64> shim")]),
        m("parse_float", rewrites=[dict(rule="R3", re=r"self\.current\.literal\.parse\(\)", to="parse_f64(&self.current.literal)", expect=1, why="str::parse::<f64> shim")]),
        m("parse_string", rewrites=[dict(rule="R3", re=r"self\.current\.literal\.parse\(\)", to="parse_string_lit(&self.current.literal)", expect=1, why="str::parse::<String> shim")]),
        m("parse_char", rewrites=[dict(rule="R3", re=r"self\.current\.literal\.parse\(\)", to="parse_char_lit(&self.current.literal)", expect=1, why="str::parse::<char> shim")]),
        m("parse_byte", rewrites=[dict(rule="R3", re=r"self\.current\.literal\.bytes\(\)\.next\(\)", to="first_byte(&self.current.literal)", expect=1, why="bytes().next() shim")]),
    ] + [m("parse_%s" % n, requires=["old(self).current.literal@.len() >= 2"],
           rewrites=[dict(rule="R3", re=r"&(\w+(?:\.\w+)*)\.literal\[2\.\.\]", to=r"str_tail2(&\1.literal)", expect=1, strict=True, why="&literal[2..] -> shim whose precondition is that the string has at least 2 (ASCII) characters"),
                     dict(rule="R3", re=r"i64::from_str_radix\(str_value, \d+\)", to="i64_from_str_radix(str_value)", expect=1, why="std parser shim"),
                     dict(rule="R1", re=r"\btoken\.clone\(\)", to="clone_token(&token)", why="Token::clone shim")]) for n in ("octal", "hexadecimal", "binary")] + [
        m("parse_grouped"),
        m("parse_function_params", ret="r", loops={0: dict(invariant=["mono(old(self), self)"], decreases="measure(self)")}),
        m("parse_expression_list", ret="r", loops={0: dict(invariant=["mono(old(self), self)"], decreases="measure(self)")}),
        m("parse_block_statement", ret="r", loops={0: dict(invariant=["mono(old(self), self)"], decreases="measure(self), (if self.current.ttype != TokenType::Eof { 1nat } else { 0nat })")}),
        m("parse_function_expression"), m("parse_call_expression"), m("parse_array_literal"), m("parse_index_expression"),
        m("parse_dollar_expression"),
        m("parse_prefix_expression"), m("parse_infix_expression"), m("parse_assignment_expression"),
        m("parse_ranges", ret="r", rewrites=[dict(rule="R4", re=r"let is_valid_range = matches!\(.*?\n        \);", to="let is_valid_range = same_range_kind(&left, &right);", expect=1, why="matches! with reference patterns -> predicate shim (its value only selects Ok/Err)")]),
        m("parse_range_expression"),
        m("parse_dot_expression"),
        m("parse_if_expr", decreases="measure(old(self))"),
        dict(kind="fn", file=AE, path="MatchPattern::is_default", ret="r", ensures=["r == (*self is Default)"], props=["C01"]),
        dict(kind="fn", file=AE, path="MatchArm::is_default", ret="r", ensures=[], props=["C01"],
             rewrites=[dict(rule="R5", re=r"self\.patterns\.iter\(\)\.any\(\|(\w+)\| \1\.is_default\(\)\)", to="count_defaults(&self.patterns) > 0", why="iter().any(closure) -> counting shim")]),
        m("convert_to_pattern_list", ret="r", ensures=[], decreases="expr",
          rewrites=[dict(rule="R4", re=r"match expr\.operator\.as_ref\(\) \{\s*// bitwise OR operator\s*\"\|\" =>", to="match () { _ if str_is_pipe(&expr.operator) =>", expect=1, why="match on a &str literal -> guard over a string-equality shim")]),
        m("parse_match_pattern", ret="r",
          rewrites=[dict(rule="R4", re=r"if let Ok\(ref patterns\) = patterns \{", to="if let Ok(patterns) = &patterns {", expect=1, why="ref pattern -> borrow of the scrutinee"),
                    dict(rule="R5", re=r"patterns\s*\.iter\(\)\s*\.filter\(\|&pattern\| pattern\.is_default\(\)\)\s*\.count\(\)", to="count_defaults(patterns)", expect=1, why="iter().filter(closure).count() -> counting shim (result <= len)")]),
        m("parse_match_expr", rewrites=[dict(rule="R3", re=r"statements: \[(Statement::Expr\(ExpressionStmt \{.*?\}\))\]\s*\.to_vec\(\),", to=r"statements: vec![\1],", expect=1, why="[x].to_vec() (needs Clone) -> vec![x] (same one-element vector)")], loops={0: dict(invariant=["mono(old(self), self)", "def_arm ==> arms@.len() > 0"], decreases="measure(self)")}),
        # the Pratt loop itself: it makes progress on every turn (the next token is consumed before the infix parser runs)
        m("parse_expression", file=PM,
          rewrites=[dict(rule="R1", re=r"precedence <= Precedence::Assignment", to="prec_le_assignment(precedence)", expect=1, why="derived PartialOrd on Precedence -> shim (the flag only selects a diagnostic)"),
                    dict(rule="R7", re=r"self\.curr_prefix\(\)", to="curr_prefix_shim(self)", expect=1, strict=True, why="table lookup of a function value -> tag"),
                    dict(rule="R7", re=r"prefix\(self, property\)", to="call_prefix(prefix, self, property)", expect=1, strict=True, why="indirect call -> dispatch shim with the common contract of the prefix parsers"),
                    dict(rule="R7", re=r"&self\.peek_infix\(\)", to="&peek_infix_shim(self)", expect=1, strict=True, why="table lookup of a function value -> tag"),
                    dict(rule="R7", re=r"infix\(self, left_expr\)", to="call_infix(infix, self, left_expr)", expect=1, strict=True, why="indirect call -> dispatch shim with the common contract of the infix parsers"),
                    dict(rule="R3", re=r"self\.peek_valid_expression\(precedence\)", to="peek_valid_expression_shim(self, precedence)", expect=1, why="peek_valid_expression behind the contract verified in the pins unit + the prec unit's table facts"),
                    dict(rule="R3", re=r"self\.no_prefix_parse_error\(\)", to="no_prefix_parse_error_shim(self)", expect=1, why="records one diagnostic")],
          loops={0: dict(invariant=["mono(old(self), self)"], decreases="measure(self)")}),
        m("parse_hash_literal", loops={0: dict(invariant=["mono(old(self), self)"], decreases="measure(self)")}),
    ],
)
