global size_of usize == 8;

// ---- the scanner behind the contract proved in the scanner unit (next_token: progress, Eof at end of input) ----
#[verifier::external_body] pub struct Scanner { _p: () }
impl Scanner { pub uninterp spec fn left(&self) -> nat; }
#[verifier::external_body]
pub fn scanner_next_token(s: &mut Scanner) -> (t: Token)
    ensures final(s).left() <= old(s).left(), t.ttype != TokenType::Eof ==> final(s).left() < old(s).left(),
{ unimplemented!() }
#[verifier::external_body] pub fn scanner_get_line(s: &Scanner) -> (r: usize) { unimplemented!() }

pub type ParseError = String;
pub type ParseErrors = Vec<ParseError>;
#[verifier::external_body] pub struct PacketPropType { _p: () }

pub open spec fn nerr(p: &Parser) -> nat { p.errors@.len() }
// termination measure of every token-consuming loop: 3 x input left + 2 x [look-ahead not Eof] + [current not Eof]:
// next_token never increases it and strictly decreases it unless both slots already hold Eof (a NUL character in the
// text makes the scanner answer Eof in mid-input, so Eof is not assumed to be absorbing)
pub open spec fn measure(p: &Parser) -> nat {
    3 * p.scanner.left() + (if p.peek_next.ttype != TokenType::Eof { 2nat } else { 0nat }) + (if p.current.ttype != TokenType::Eof { 1nat } else { 0nat })
}
// what every parsing function may do to the parser: diagnostics only grow, input is only consumed
pub open spec fn mono(a: &Parser, b: &Parser) -> bool { nerr(b) >= nerr(a) && measure(b) <= measure(a) }

#[verifier::external_body] pub fn clone_token(t: &Token) -> (r: Token) ensures r.ttype == t.ttype, r.line == t.line, r.literal@ == t.literal@ { unimplemented!() }
#[verifier::external_body] pub fn string_clone(s: &String) -> (r: String) ensures r@ == s@ { s.clone() }
#[verifier::external_body] pub fn string_new() -> (r: String) { String::new() }
#[verifier::external_body] pub fn str_to_string(s: &str) -> (r: String) { s.to_string() }
#[verifier::external_body] pub fn tt_eq(a: &TokenType, b: &TokenType) -> (r: bool) ensures r == (*a == *b) { unimplemented!() }
#[verifier::external_body] pub fn fmt_any() -> (r: String) { String::new() }
#[verifier::external_body] pub fn token_new(ttype: TokenType, literal: &str, line: usize) -> (r: Token) ensures r.ttype == ttype, r.line == line { unimplemented!() }

// the recursive entries: the Pratt loop (calls through the function values of PARSE_RULES) and the statement parser
#[verifier::external_body]
pub fn parse_expression_shim(p: &mut Parser, precedence: Precedence, property: bool) -> (r: Expression) ensures mono(old(p), final(p)) { unimplemented!() }
#[verifier::external_body]
pub fn parse_statement_shim(p: &mut Parser) -> (r: Result<Statement, ParseError>) ensures mono(old(p), final(p)) { unimplemented!() }
#[verifier::external_body]
pub fn peek_invalid_assignment_shim(p: &mut Parser, can_assign: bool) ensures mono(old(p), final(p)) { unimplemented!() }

// std parsers on the token text: arbitrary results (no obligation depends on the value)
#[verifier::external_body] pub fn parse_i64(s: &String) -> (r: Result<i64, ()>) { unimplemented!() }
#[verifier::external_body] pub fn parse_f64(s: &String) -> (r: Result<f64, ()>) { unimplemented!() }
#[verifier::external_body] pub fn parse_string_lit(s: &String) -> (r: Result<String, ()>) { unimplemented!() }
#[verifier::external_body] pub fn parse_char_lit(s: &String) -> (r: Result<char, ()>) { unimplemented!() }
#[verifier::external_body] pub fn first_byte(s: &String) -> (r: Option<u8>) { unimplemented!() }
#[verifier::external_body] pub fn str_tail2(s: &String) -> (r: &str) requires s@.len() >= 2 { &s[2..] }
#[verifier::external_body] pub fn i64_from_str_radix(s: &str) -> (r: Result<i64, ()>) { unimplemented!() }
#[verifier::external_body] pub fn prop_map_get(name: &String) -> (r: Option<PacketPropType>) { unimplemented!() }
#[verifier::external_body] pub fn clone_prop(p: &PacketPropType) -> (r: PacketPropType) { unimplemented!() }
#[verifier::external_body] pub fn str_is_pipe(s: &String) -> (r: bool) { s == "|" }
#[verifier::external_body] pub fn count_defaults(v: &Vec<MatchPattern>) -> (r: usize) ensures r <= v@.len() { unimplemented!() }
// error recording (push_error* call synchronize; all verified in the parser unit): exactly one diagnostic more, input only consumed
#[verifier::external_body]
pub fn push_error_shim(p: &mut Parser, err: &str) ensures mono(old(p), final(p)), nerr(final(p)) == nerr(old(p)) + 1, measure(final(p)) <= measure(old(p)) { unimplemented!() }
#[verifier::external_body]
pub fn push_error_at_shim(p: &mut Parser, err: &str, line: usize) ensures mono(old(p), final(p)), nerr(final(p)) == nerr(old(p)) + 1, measure(final(p)) <= measure(old(p)) { unimplemented!() }
#[verifier::external_body]
pub fn peek_error_shim(p: &mut Parser, ttype: &TokenType) ensures mono(old(p), final(p)), nerr(final(p)) == nerr(old(p)) + 1, measure(final(p)) <= measure(old(p)) { unimplemented!() }
#[verifier::external_body] pub fn curr_precedence_shim(p: &Parser) -> (r: Precedence) { unimplemented!() }
#[verifier::external_body] pub fn same_range_kind(l: &Expression, r: &Expression) -> (b: bool) { unimplemented!() }

// ---- parse_expression: the Pratt loop. The prefix / infix parsers are function values taken from PARSE_RULES (R7): the
// indirect calls go through dispatch shims carrying the contract every one of them is verified against above (`mono`).
pub struct FnId(pub usize);
pub uninterp spec fn has_infix(t: TokenType) -> bool;
pub uninterp spec fn peek_continues(p: &Parser, precedence: Precedence) -> bool;    // peek_valid_expression (pins unit)
#[verifier::external_body] pub fn curr_prefix_shim(p: &Parser) -> (r: Option<FnId>) { unimplemented!() }
#[verifier::external_body] pub fn peek_infix_shim(p: &Parser) -> (r: Option<FnId>) ensures r is Some <==> has_infix(p.peek_next.ttype) { unimplemented!() }
#[verifier::external_body] pub fn call_prefix(f: FnId, p: &mut Parser, property: bool) -> (r: Expression) ensures mono(old(p), final(p)) { unimplemented!() }
#[verifier::external_body] pub fn call_infix(f: &FnId, p: &mut Parser, left: Expression) -> (r: Expression) ensures mono(old(p), final(p)) { unimplemented!() }
// peek_valid_expression (verified in the pins unit) is false at ';' and at end of input, and - table facts of the prec unit
// (Kani, every token: a level above Lowest has an infix parser; right-associative tokens are above Lowest) - true only for a
// token that has an infix parser
#[verifier::external_body]
pub fn peek_valid_expression_shim(p: &Parser, precedence: Precedence) -> (r: bool)
    ensures r ==> p.peek_next.ttype != TokenType::Eof && has_infix(p.peek_next.ttype)
{ unimplemented!() }
#[verifier::external_body] pub fn prec_le_assignment(p: Precedence) -> (r: bool) { unimplemented!() }
#[verifier::external_body]
pub fn no_prefix_parse_error_shim(p: &mut Parser) ensures mono(old(p), final(p)), nerr(final(p)) == nerr(old(p)) + 1 { unimplemented!() }
