global size_of usize == 8;
// ---- layer objects: only what the caching discipline needs: a parsed layer remembers the buffer it was parsed
// from (raw) and the offset its header starts at (start); `offset` is where its payload starts ----
#[verifier::external_body] pub struct Vlan { _p: () }
impl Vlan {
    pub uninterp spec fn raw(&self) -> Rc<Vec<u8>>;
    pub uninterp spec fn start(&self) -> usize;
    pub uninterp spec fn offset(&self) -> usize;
    pub uninterp spec fn inner(&self) -> Option<Rc<Object>>;
}
#[verifier::external_body]
pub fn vlan_from_bytes(raw: Rc<Vec<u8>>, off: usize) -> (r: Result<Vlan, PacketError>)
    ensures r matches Ok(l) ==> l.raw() == raw && l.start() == off && l.inner() is None
{ unimplemented!() }
#[verifier::external_body] pub fn vlan_rawdata(l: &Rc<Vlan>) -> (r: Rc<Vec<u8>>) ensures r == l.raw() { unimplemented!() }
#[verifier::external_body] pub fn vlan_offset(l: &Rc<Vlan>) -> (r: usize) ensures r == l.offset() { unimplemented!() }
#[verifier::external_body] pub fn vlan_inner(l: &Rc<Vlan>) -> (r: Option<Rc<Object>>) ensures r == l.inner() { unimplemented!() }
#[verifier::external_body]
pub fn vlan_cache_inner(l: &Rc<Vlan>, child: Rc<Object>)
    requires child_ok(*child, l.raw(), l.offset())
{ unimplemented!() }
#[verifier::external_body] pub fn vlan_assign_inner(l: &Rc<Vlan>, child: Rc<Object>) { unimplemented!() }
#[verifier::external_body] pub struct Ipv4Packet { _p: () }
impl Ipv4Packet {
    pub uninterp spec fn raw(&self) -> Rc<Vec<u8>>;
    pub uninterp spec fn start(&self) -> usize;
    pub uninterp spec fn offset(&self) -> usize;
    pub uninterp spec fn inner(&self) -> Option<Rc<Object>>;
}
#[verifier::external_body]
pub fn ipv4packet_from_bytes(raw: Rc<Vec<u8>>, off: usize) -> (r: Result<Ipv4Packet, PacketError>)
    ensures r matches Ok(l) ==> l.raw() == raw && l.start() == off && l.inner() is None
{ unimplemented!() }
#[verifier::external_body] pub fn ipv4packet_rawdata(l: &Rc<Ipv4Packet>) -> (r: Rc<Vec<u8>>) ensures r == l.raw() { unimplemented!() }
#[verifier::external_body] pub fn ipv4packet_offset(l: &Rc<Ipv4Packet>) -> (r: usize) ensures r == l.offset() { unimplemented!() }
#[verifier::external_body] pub fn ipv4packet_inner(l: &Rc<Ipv4Packet>) -> (r: Option<Rc<Object>>) ensures r == l.inner() { unimplemented!() }
#[verifier::external_body]
pub fn ipv4packet_cache_inner(l: &Rc<Ipv4Packet>, child: Rc<Object>)
    requires child_ok(*child, l.raw(), l.offset())
{ unimplemented!() }
#[verifier::external_body] pub fn ipv4packet_assign_inner(l: &Rc<Ipv4Packet>, child: Rc<Object>) { unimplemented!() }
#[verifier::external_body] pub struct Ipv6Packet { _p: () }
impl Ipv6Packet {
    pub uninterp spec fn raw(&self) -> Rc<Vec<u8>>;
    pub uninterp spec fn start(&self) -> usize;
    pub uninterp spec fn offset(&self) -> usize;
    pub uninterp spec fn inner(&self) -> Option<Rc<Object>>;
}
#[verifier::external_body]
pub fn ipv6packet_from_bytes(raw: Rc<Vec<u8>>, off: usize) -> (r: Result<Ipv6Packet, PacketError>)
    ensures r matches Ok(l) ==> l.raw() == raw && l.start() == off && l.inner() is None
{ unimplemented!() }
#[verifier::external_body] pub fn ipv6packet_rawdata(l: &Rc<Ipv6Packet>) -> (r: Rc<Vec<u8>>) ensures r == l.raw() { unimplemented!() }
#[verifier::external_body] pub fn ipv6packet_offset(l: &Rc<Ipv6Packet>) -> (r: usize) ensures r == l.offset() { unimplemented!() }
#[verifier::external_body] pub fn ipv6packet_inner(l: &Rc<Ipv6Packet>) -> (r: Option<Rc<Object>>) ensures r == l.inner() { unimplemented!() }
#[verifier::external_body]
pub fn ipv6packet_cache_inner(l: &Rc<Ipv6Packet>, child: Rc<Object>)
    requires child_ok(*child, l.raw(), l.offset())
{ unimplemented!() }
#[verifier::external_body] pub fn ipv6packet_assign_inner(l: &Rc<Ipv6Packet>, child: Rc<Object>) { unimplemented!() }
#[verifier::external_body] pub struct Udp { _p: () }
impl Udp {
    pub uninterp spec fn raw(&self) -> Rc<Vec<u8>>;
    pub uninterp spec fn start(&self) -> usize;
    pub uninterp spec fn offset(&self) -> usize;
    pub uninterp spec fn inner(&self) -> Option<Rc<Object>>;
}
#[verifier::external_body]
pub fn udp_from_bytes(raw: Rc<Vec<u8>>, off: usize) -> (r: Result<Udp, PacketError>)
    ensures r matches Ok(l) ==> l.raw() == raw && l.start() == off && l.inner() is None
{ unimplemented!() }
#[verifier::external_body] pub fn udp_rawdata(l: &Rc<Udp>) -> (r: Rc<Vec<u8>>) ensures r == l.raw() { unimplemented!() }
#[verifier::external_body] pub fn udp_offset(l: &Rc<Udp>) -> (r: usize) ensures r == l.offset() { unimplemented!() }
#[verifier::external_body] pub fn udp_inner(l: &Rc<Udp>) -> (r: Option<Rc<Object>>) ensures r == l.inner() { unimplemented!() }
#[verifier::external_body]
pub fn udp_cache_inner(l: &Rc<Udp>, child: Rc<Object>)
    requires child_ok(*child, l.raw(), l.offset())
{ unimplemented!() }
#[verifier::external_body] pub fn udp_assign_inner(l: &Rc<Udp>, child: Rc<Object>) { unimplemented!() }
#[verifier::external_body] pub struct Tcp { _p: () }
impl Tcp {
    pub uninterp spec fn raw(&self) -> Rc<Vec<u8>>;
    pub uninterp spec fn start(&self) -> usize;
    pub uninterp spec fn offset(&self) -> usize;
    pub uninterp spec fn inner(&self) -> Option<Rc<Object>>;
}
#[verifier::external_body]
pub fn tcp_from_bytes(raw: Rc<Vec<u8>>, off: usize) -> (r: Result<Tcp, PacketError>)
    ensures r matches Ok(l) ==> l.raw() == raw && l.start() == off && l.inner() is None
{ unimplemented!() }
#[verifier::external_body] pub fn tcp_rawdata(l: &Rc<Tcp>) -> (r: Rc<Vec<u8>>) ensures r == l.raw() { unimplemented!() }
#[verifier::external_body] pub fn tcp_offset(l: &Rc<Tcp>) -> (r: usize) ensures r == l.offset() { unimplemented!() }
#[verifier::external_body] pub fn tcp_inner(l: &Rc<Tcp>) -> (r: Option<Rc<Object>>) ensures r == l.inner() { unimplemented!() }
#[verifier::external_body]
pub fn tcp_cache_inner(l: &Rc<Tcp>, child: Rc<Object>)
    requires child_ok(*child, l.raw(), l.offset())
{ unimplemented!() }
#[verifier::external_body] pub fn tcp_assign_inner(l: &Rc<Tcp>, child: Rc<Object>) { unimplemented!() }
#[verifier::external_body] pub struct Ethernet { _p: () }
impl Ethernet {
    pub uninterp spec fn raw(&self) -> Rc<Vec<u8>>;
    pub uninterp spec fn start(&self) -> usize;
    pub uninterp spec fn offset(&self) -> usize;
    pub uninterp spec fn inner(&self) -> Option<Rc<Object>>;
}
#[verifier::external_body]
pub fn ethernet_from_bytes(raw: Rc<Vec<u8>>, off: usize) -> (r: Result<Ethernet, PacketError>)
    ensures r matches Ok(l) ==> l.raw() == raw && l.start() == off && l.inner() is None
{ unimplemented!() }
#[verifier::external_body] pub fn ethernet_rawdata(l: &Rc<Ethernet>) -> (r: Rc<Vec<u8>>) ensures r == l.raw() { unimplemented!() }
#[verifier::external_body] pub fn ethernet_offset(l: &Rc<Ethernet>) -> (r: usize) ensures r == l.offset() { unimplemented!() }
#[verifier::external_body] pub fn ethernet_inner(l: &Rc<Ethernet>) -> (r: Option<Rc<Object>>) ensures r == l.inner() { unimplemented!() }
#[verifier::external_body]
pub fn ethernet_cache_inner(l: &Rc<Ethernet>, child: Rc<Object>)
    requires child_ok(*child, l.raw(), l.offset())
{ unimplemented!() }
#[verifier::external_body] pub fn ethernet_assign_inner(l: &Rc<Ethernet>, child: Rc<Object>) { unimplemented!() }

#[verifier::external_body] pub struct PcapPacket { _p: () }
impl PcapPacket { pub uninterp spec fn raw(&self) -> Rc<Vec<u8>>; pub uninterp spec fn inner(&self) -> Option<Rc<Object>>; }
#[verifier::external_body] pub fn packet_rawdata(l: &Rc<PcapPacket>) -> (r: Rc<Vec<u8>>) ensures r == l.raw() { unimplemented!() }
#[verifier::external_body] pub fn packet_inner(l: &Rc<PcapPacket>) -> (r: Option<Rc<Object>>) ensures r == l.inner() { unimplemented!() }
#[verifier::external_body]
pub fn packet_cache_inner(l: &Rc<PcapPacket>, child: Rc<Object>) requires child_ok(*child, l.raw(), 0) { unimplemented!() }
#[verifier::external_body] pub fn packet_assign_inner(l: &Rc<PcapPacket>, child: Rc<Object>) { unimplemented!() }

#[verifier::external_body] pub struct PacketError { _p: () }
#[verifier::external_body] pub struct RTError { _p: () }
#[verifier::external_body] pub struct ErrorObj { _p: () }
#[verifier::external_body] pub fn packet_err(e: PacketError) -> (r: ErrorObj) { unimplemented!() }

// the objects a layer getter may create (the real enum has 23 variants; the getters only build these)
pub enum Object { Null, Err(ErrorObj), Eth(Rc<Ethernet>), Vlan(Rc<Vlan>), Ipv4(Rc<Ipv4Packet>), Ipv6(Rc<Ipv6Packet>), Udp(Rc<Udp>), Tcp(Rc<Tcp>), Other }

// C15: what may be put into a parent's `inner` cache by a READ: a layer parsed from the same captured buffer,
// starting exactly where the parent's payload starts, with nothing cached below it yet. With that, the serialiser
// contracts of hdrser (header bytes ++ inner bytes / ++ raw[offset..]) compose to "bytes written == bytes captured".
// Error objects and anything else must not be cached.
pub open spec fn child_ok(o: Object, raw: Rc<Vec<u8>>, off: usize) -> bool {
    match o {
        Object::Eth(l) => l.raw() == raw && l.start() == off && l.inner() is None,
        Object::Vlan(l) => l.raw() == raw && l.start() == off && l.inner() is None,
        Object::Ipv4(l) => l.raw() == raw && l.start() == off && l.inner() is None,
        Object::Ipv6(l) => l.raw() == raw && l.start() == off && l.inner() is None,
        Object::Udp(l) => l.raw() == raw && l.start() == off && l.inner() is None,
        Object::Tcp(l) => l.raw() == raw && l.start() == off && l.inner() is None,
        _ => false,
    }
}

// ---- vocabulary of vm/pktprop.rs that a getter may use (constants from the RFCs / the protocol modules) ----
pub const ETHERNET_HEADER_SIZE: usize = 14;
pub const VLAN_HEADER_SIZE: usize = 4;
pub const IPV4_HEADER_SIZE: usize = 20;
pub const IPV6_HEADER_SIZE: usize = 40;
pub const UDP_HEADER_SIZE: usize = 8;
pub const TCP_HEADER_SIZE: usize = 20;
#[derive(PartialEq, Eq)]
pub struct EtherType(pub u16);
#[allow(non_snake_case, non_upper_case_globals)]
pub mod EtherTypes {
    use super::EtherType;
    pub const Ipv4: EtherType = EtherType(0x0800);
    pub const Ipv6: EtherType = EtherType(0x86DD);
    pub const Vlan: EtherType = EtherType(0x8100);
}
#[verifier::external_body] pub fn ethertype_of_eth(l: &Rc<Ethernet>) -> (r: EtherType) { unimplemented!() }
#[verifier::external_body] pub fn ethertype_of_vlan(l: &Rc<Vlan>) -> (r: EtherType) { unimplemented!() }
