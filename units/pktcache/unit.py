"""C15 (and the dispatch half of C16): the layer getters of vm/pktprop.rs. Each `PacketPropType::<Layer>` arm of
exec_prop_packet/eth/vlan/ipv4/ipv6 is extracted (R8) and verified: on a READ the arm returns the cached inner object or
parses the child from the parent's own buffer at the parent's payload offset, and caches only such a child
(never an error object)."""
P = "src/vm/pktprop.rs"

# (function, receiver variable, receiver type, prelude prefix, [(arm, child type, Object variant)])
GETTERS = [
    ("exec_prop_packet", "pkt", "PcapPacket", "packet", [("Eth", "Ethernet", "Eth")]),
    ("exec_prop_eth", "eth", "Ethernet", "ethernet", [("Vlan", "Vlan", "Vlan"), ("Ipv4", "Ipv4Packet", "Ipv4"), ("Ipv6", "Ipv6Packet", "Ipv6")]),
    ("exec_prop_vlan", "vlan", "Vlan", "vlan", [("Vlan", "Vlan", "Vlan"), ("Ipv4", "Ipv4Packet", "Ipv4"), ("Ipv6", "Ipv6Packet", "Ipv6")]),
    ("exec_prop_ipv4", "ipv4", "Ipv4Packet", "ipv4packet", [("Udp", "Udp", "Udp"), ("Tcp", "Tcp", "Tcp"), ("Ipv6", "Ipv6Packet", "Ipv6")]),
    ("exec_prop_ipv6", "ipv6", "Ipv6Packet", "ipv6packet", [("Udp", "Udp", "Udp"), ("Tcp", "Tcp", "Tcp")]),
]

def _counter_sub(first, rest):
    state = {"n": 0}
    def f(m):
        state["n"] += 1
        return m.expand(first if state["n"] == 1 else rest)
    return f

items = []
for fn, var, ty, pfx, arms in GETTERS:
    for arm, cty, variant in arms:
        off = "0" if ty == "PcapPacket" else "%s.offset()" % var
        rw = [
            # the first `.inner.replace(..)` of an arm is the ASSIGNMENT branch (setval), the second one caches a parsed child
            dict(rule="R2", re=r"%s\.inner\.replace\(Some\((\w+)\.clone\(\)\)\);" % var,
                 to=_counter_sub(r"%s_assign_inner(&%s, \1.clone());" % (pfx, var), r"%s_cache_inner(&%s, \1.clone());" % (pfx, var)),
                 expect=2, strict=True, why="RefCell::replace through Rc (interior mutability) -> shims: assignment (no obligation) / caching a parsed child (obligation child_ok)"),
            dict(rule="R2", re=r"if let Some\(inner\) = %s\.inner\.borrow\(\)\.as_ref\(\) \{" % var, to="if let Some(inner) = %s_inner(&%s) {" % (pfx, var), expect=1, why="RefCell erased: read of the cache"),
            dict(rule="R2", re=r"Rc::clone\(&%s\.rawdata\.borrow\(\)\)" % var, to="%s_rawdata(&%s)" % (pfx, var), expect=1, why="RefCell erased: the parent's buffer"),
            dict(rule="R2", re=r"\b%s\.offset\b" % var, to="%s_offset(&%s)" % (pfx, var), why="field of an opaque layer -> accessor shim"),
            dict(rule="R3", re=r"%s::from_bytes\(" % cty, to="%s_from_bytes(" % cty.lower(), expect=1, why="child parser behind its contract (hdrser/headers units): Ok(l) => l parsed from that buffer at that offset"),
            dict(rule="R3", re=r"ErrorObj::Packet\(e\)", to="packet_err(e)", expect=1, why="error object constructor shim"),
            dict(rule="R3", re=r"\b(eth|vlan)\.get_ethertype_raw\(\)", to=r"ethertype_of_\1(&\1)", why="accessor of an opaque layer -> shim (arbitrary EtherType)"),
        ]
        items.append(dict(
            kind="arm", file=P, path="VM::" + fn, arm="PacketPropType::" + arm, fn_name="get_%s_%s" % (var, arm.lower()),
            params="%s: Rc<%s>, setval: Option<Rc<Object>>, line: usize" % (var, ty), ret="r", ret_ty="Result<Rc<Object>, RTError>",
            wrap="Ok(%s)",
            ensures=[
                "r is Ok",
                # read with a cached child: that child; read without: a freshly parsed child of the right kind at the parent's payload offset, or an error object
                "setval is None && %s.inner() is Some ==> r == Ok::<Rc<Object>, RTError>(%s.inner().unwrap())" % (var, var),
                "setval is None && %s.inner() is None ==> (r matches Ok(o) && (*o is Err || (*o matches Object::%s(l) && l.raw() == %s.raw() && l.start() == %s)))" % (var, variant, var, off),
            ],
            props=["C15", "C16"], rewrites=rw))

UNIT = dict(
    name="pktcache",
    prelude="units/pktcache/prelude.rs",
    uses="use std::rc::Rc;",
    lemmas={},
    items=items,
)
