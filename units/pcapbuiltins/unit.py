"""C19 / C22 (Verus): builtin_pcap_read_next, builtin_pcap_read_all, builtin_pcap_write on their real bodies, against the stream
model of an open pcap handle: the complete records still ahead (in file order) followed by a clean end / truncated record
(next_packet fails with UnexpectedEof) or a damaged one (any other error). Pcap::next_packet itself is the pcapio unit's."""
F = "src/builtins/functions.rs"
OB = "src/object/mod.rs"
FH = "src/object/file.rs"
EO = "src/object/error.rs"

RW = [
    dict(rule="R2", re=r"RefCell<io::BufReader<fs::File>>", to="BufReaderFile", why="RefCell erased; std type opaque"),
    dict(rule="R2", re=r"RefCell<io::BufWriter<fs::File>>", to="BufWriterFile", why="RefCell erased; std type opaque"),
    dict(rule="R3", re=r"io::Error\b", to="IoError", why="std type opaque"),
    dict(rule="R3", re=r"std::string::FromUtf8Error", to="Utf8Error", why="std type opaque"),
    dict(rule="R3f", re=r"(?<!&)format!\((?:[^()]|\((?:[^()]|\([^()]*\))*\))*\)", to="fmt_any()", why="format! message text dropped"),
    dict(rule="R3", re=r"String::from\((\"[^\"]*\")\)", to=r"str_to_string(\1)", why="String::from(&str) shim"),
    dict(rule="R3", re=r"args\[(\d)\]\.as_ref\(\)", to=r"&*args[\1]", why="Rc::as_ref on an owned Rc -> deref"),
    dict(rule="R3", re=r"f\.next_packet\(\)", to="next_packet_shim(f, st)", why="Pcap::next_packet (state behind &self) -> shim over the explicit stream model"),
    dict(rule="R3", re=r"e\.kind\(\) == io::ErrorKind::UnexpectedEof", to="io_is_eof(&e)", why="io::Error::kind() == UnexpectedEof -> predicate shim"),
    dict(rule="R3", re=r"Array::new\(packets\)", to="array_new(packets)", why="opaque Array constructor shim"),
    dict(rule="R9", re=r"\(args: Vec<Rc<Object>>\) ->", to="(args: Vec<Rc<Object>>, st: &mut PcapStream) ->", why="the handle's stream state as an explicit (ghost-only) argument"),
]
H = "(*args@[0] matches Object::Pcap(f))"
N = "(if args@.len() == 2 { match *args@[1] { Object::Integer(n) => (n as usize) as nat, _ => 0nat } } else { usize::MAX as nat })"

UNIT = dict(
    name="pcapbuiltins",
    prelude=["units/pcapbuiltins/prelude.rs"],
    uses="use std::rc::Rc;",
    lemmas={},
    global_rewrites=RW,
    items=[
        dict(kind="enum", file=FH, path="FileHandle"),
        dict(kind="enum", file=EO, path="ErrorObj"),
        dict(kind="enum", file=OB, path="Object"),
        dict(kind="fn", file=F, path="builtin_pcap_read_next", ret="r", props=["C19", "C22", "C08"],
             ensures=[
                 "args@.len() != 1 ==> r is Err",
                 "args@.len() == 1 && !%s ==> r is Err" % H,
                 # the next record, in order, and the stream advanced by exactly that record
                 "args@.len() == 1 && %s && old(st).recs.len() > 0 ==> (r matches Ok(o) && *o == Object::Packet(old(st).recs[0]) && final(st).recs == old(st).recs.skip(1))" % H,
                 # after the last complete record: null at a clean end or truncated tail, an error object at a damaged one - never a runtime error
                 "args@.len() == 1 && %s && old(st).recs.len() == 0 ==> (r matches Ok(o) && (if old(st).damaged { *o is Err } else { *o == Object::Null }) && final(st).recs == old(st).recs)" % H,
             ]),
        dict(kind="fn", file=F, path="builtin_pcap_read_all", ret="r", props=["C19", "C22", "C08"],
             ensures=[
                 "(args@.len() == 0 || args@.len() > 2) ==> r is Err",
                 "(args@.len() == 1 || args@.len() == 2) && !%s ==> r is Err" % H,
                 "args@.len() == 2 && %s && !(*args@[1] is Integer) ==> r is Err" % H,
                 # pcap_read_all(f[, n]): the next min(n, remaining) records in file order, the stream advanced by as many;
                 # a damaged tail reached before n records were read is an error object
                 "(args@.len() == 1 || (args@.len() == 2 && *args@[1] is Integer)) && %s ==> ({ let n = %s; let k = old(st).recs.len();"
                 " r matches Ok(o) && (if n > k && old(st).damaged { *o is Err } else { *o matches Object::Arr(a) && is_packets(a.elems(), old(st).recs, min_nat(n, k)) && final(st).recs == old(st).recs.skip(min_nat(n, k) as int) }) })" % (H, N),
             ],
             rewrites=[dict(rule="R4", re=r"for _ in 0\.\.num_packets_to_read (/\*@L0@\*/)?\{", to=r"for rd in 0..num_packets_to_read \1{", expect=1, why="`_` loop pattern -> named counter (Verus needs a name for the invariant)"),
                       dict(rule="R1", re=r"let mut packets = Vec::new\(\);", to="let mut packets: Vec<Rc<Object>> = Vec::new();", why="type annotation the invariant needs")],
             loops={0: dict(invariant=["st.damaged == old(st).damaged", "1 <= args@.len() <= 2", "num_packets_to_read as nat == %s" % N, "*args@[0] matches Object::Pcap(ff) && ff == *f",
                                       "args@.len() == 2 ==> *args@[1] is Integer"],
                            invariant_except_break=["rd <= old(st).recs.len()", "packets@.len() == rd", "is_packets(packets@, old(st).recs, rd as nat)", "st.recs == old(st).recs.skip(rd as int)"],
                            ensures=["is_packets(packets@, old(st).recs, packets@.len() as nat)", "st.recs == old(st).recs.skip(packets@.len() as int)", "st.damaged == old(st).damaged",
                                     "packets@.len() == num_packets_to_read || (st.recs.len() == 0 && !st.damaged)", "packets@.len() <= num_packets_to_read"])}),
        dict(kind="fn", file=F, path="builtin_pcap_write", ret="r", props=["C22", "C19", "C08"],
             ensures=[
                 "args@.len() != 2 ==> r is Err",
                 "args@.len() == 2 && %s && *args@[1] is Packet ==> (r matches Ok(o) && (if os_fails() { *o is Err } else { *o is Integer }))" % H,
                 "args@.len() == 2 && (!%s || !(*args@[1] is Packet)) ==> r is Err" % H,
             ],
             rewrites=[dict(rule="R3", re=r"f\.write_all\(packet\.clone\(\)\)", to="pcap_write_all_shim(f, packet.clone())", expect=1, why="Pcap::write_all -> OS shim (fails arbitrarily)")]),
    ],
)
