global size_of usize == 8;

#[verifier::external_body] pub struct IoError { _p: () }
#[verifier::external_body] pub struct Utf8Error { _p: () }
#[verifier::external_body] pub struct PacketError { _p: () }
#[verifier::external_body] pub struct BufReaderFile { _p: () }
#[verifier::external_body] pub struct BufWriterFile { _p: () }
#[verifier::external_body] pub struct CompiledFunction { _p: () }
#[verifier::external_body] pub struct Closure { _p: () }
#[verifier::external_body] pub struct HMap { _p: () }
#[verifier::external_body] pub struct Pcap { _p: () }
#[verifier::external_body] pub struct PcapPacket { _p: () }
#[verifier::external_body] pub struct Ethernet { _p: () }
#[verifier::external_body] pub struct Vlan { _p: () }
#[verifier::external_body] pub struct Ipv4Packet { _p: () }
#[verifier::external_body] pub struct Ipv6Packet { _p: () }
#[verifier::external_body] pub struct Udp { _p: () }
#[verifier::external_body] pub struct Tcp { _p: () }
#[verifier::external_body] pub struct BuiltinFunction { _p: () }
#[verifier::external_body] pub struct Array { _p: () }
impl Array { pub uninterp spec fn elems(&self) -> Seq<Rc<Object>>; }
#[verifier::external_body] pub fn array_new(v: Vec<Rc<Object>>) -> (r: Array) ensures r.elems() == v@ { unimplemented!() }

#[verifier::external_body] pub fn str_to_string(s: &str) -> (r: String) ensures r@ == s@ { s.to_string() }
#[verifier::external_body] pub fn fmt_any() -> (r: String) { String::new() }

// ---- the stream model of an open pcap handle (C19): the complete records still ahead, in file order, and what lies behind
// them - a clean end / a truncated record (next_packet then fails with UnexpectedEof) or a damaged one (any other error).
// The handle's state lives behind &self in the real code (RefCell); here it is an explicit argument.
pub struct PcapStream { pub ghost recs: Seq<Rc<PcapPacket>>, pub ghost damaged: bool }
pub uninterp spec fn is_eof(e: IoError) -> bool;
#[verifier::external_body]
pub fn io_is_eof(e: &IoError) -> (r: bool) ensures r == is_eof(*e) { unimplemented!() }
#[verifier::external_body]
pub fn next_packet_shim(f: &Rc<Pcap>, st: &mut PcapStream) -> (r: Result<Rc<PcapPacket>, IoError>)
    ensures
        final(st).damaged == old(st).damaged,
        old(st).recs.len() > 0 ==> (r == Ok::<Rc<PcapPacket>, IoError>(old(st).recs[0]) && final(st).recs == old(st).recs.skip(1)),
        old(st).recs.len() == 0 ==> (final(st).recs == old(st).recs && (r matches Err(e) && is_eof(e) == !old(st).damaged)),
{ unimplemented!() }
// writing a packet: the OS may fail
pub uninterp spec fn os_fails() -> bool;
#[verifier::external_body]
pub fn pcap_write_all_shim(f: &Rc<Pcap>, p: Rc<PcapPacket>) -> (r: Result<usize, IoError>) ensures r is Err <==> os_fails() { unimplemented!() }

pub open spec fn min_nat(a: nat, b: nat) -> nat { if a <= b { a } else { b } }
pub open spec fn is_packets(a: Seq<Rc<Object>>, recs: Seq<Rc<PcapPacket>>, n: nat) -> bool {
    a.len() == n && n <= recs.len() && forall|i: int| 0 <= i < n ==> *#[trigger] a[i] == Object::Packet(recs[i])
}
