PC = "src/builtins/pcap.rs"
FH = "src/object/file.rs"

RW = [
    dict(rule="R2", re=r"RefCell<io::BufReader<fs::File>>", to="Stream", why="RefCell erased; the reader is the stream model"),
    dict(rule="R2", re=r"RefCell<io::BufWriter<fs::File>>", to="BufWriterFile", why="RefCell erased; std type opaque"),
    dict(rule="R2", re=r"RefCell<((?:[^<>]|<(?:[^<>]|<[^<>]*>)*>)*)>", to=r"\1", why="RefCell erased"),
    dict(rule="R2", re=r"RefCell::new\(((?:[^()]|\([^()]*\))*)\)", to=r"\1", why="RefCell erased"),
]

REC_OK = "(rem.len() >= 16 && record_caplen(rem) <= self.header.snaplen && rem.len() >= 16 + record_caplen(rem))"

UNIT = dict(
    name="pcapio",
    prelude="units/pcapio/prelude.rs",
    uses="use std::rc::Rc;",
    lemmas={},
    global_rewrites=RW,
    items=[
        dict(kind="enum", file=FH, path="FileHandle"),
        dict(kind="enum", file=PC, path="PcapTsFormat"),
        dict(kind="struct", file=PC, path="PcapGlobalHeader"),
        dict(kind="struct", file=PC, path="PcapPacketHeader"),
        dict(kind="struct", file=PC, path="PcapPacket"),
        dict(kind="struct", file=PC, path="Pcap"),
        dict(kind="fn", file=PC, path="Pcap::next_packet", ret="r",
             ensures=[
                 # reading from a file: the call succeeds exactly when the stream holds a complete record whose caplen
                 # does not exceed the snap length; it then returns that record and consumes exactly 16 + caplen bytes
                 "*self.file is Reader ==> ({ let rem = old(reader_st).rem(); (r is Ok <==> %s) })" % REC_OK,
                 "*self.file is Reader ==> ({ let rem = old(reader_st).rem(); r matches Ok(p) ==> p.header.ts_sec == le32(rem, 0) && p.header.ts_usec == le32(rem, 4) && p.header.caplen == le32(rem, 8) && p.header.wirelen == le32(rem, 12) && p.rawdata@ == rem.subrange(16, 16 + record_caplen(rem)) && p.inner is None && final(reader_st).rem() == rem.skip(16 + record_caplen(rem)) })",
                 # same for a pcap stream on stdin
                 "*self.file is Stdin ==> ({ let rem = old(stdin_st).rem(); (r is Ok <==> %s) })" % REC_OK,
                 "*self.file is Stdin ==> ({ let rem = old(stdin_st).rem(); r matches Ok(p) ==> p.header.caplen == le32(rem, 8) && p.rawdata@ == rem.subrange(16, 16 + record_caplen(rem)) && final(stdin_st).rem() == rem.skip(16 + record_caplen(rem)) })",
                 "!(*self.file is Reader) && !(*self.file is Stdin) ==> r is Err",
             ],
             props=["C19"],
             rewrites=[
                 dict(rule="R7", re=r"pub fn next_packet\(&self\)", to="pub fn next_packet(&self, reader_st: &mut Stream, stdin_st: &mut Stream)", expect=1, strict=True,
                      why="interior mutability made explicit: the file reader behind the handle and stdin become &mut stream parameters"),
                 dict(rule="R3", re=r"let mut packet_header_data = \[0u8; 16\];", to="let mut packet_header_data: [u8; 16] = [0u8, 0u8, 0u8, 0u8, 0u8, 0u8, 0u8, 0u8, 0u8, 0u8, 0u8, 0u8, 0u8, 0u8, 0u8, 0u8];", expect=1, why="array repeat expression -> explicit literal"),
                 dict(rule="R3", re=r"match self\.file\.as_ref\(\) \{", to="match &*self.file {", expect=1, why="Rc::as_ref -> deref"),
                 dict(rule="R3", re=r"reader\.borrow_mut\(\)\.read_exact\(&mut packet_header_data\)\?;", to="read_exact16(reader_st, &mut packet_header_data)?;", expect=1, why="Read::read_exact on the file reader -> stream shim"),
                 dict(rule="R3", re=r"io::stdin\(\)\.read_exact\(&mut packet_header_data\)\?;", to="read_exact16(stdin_st, &mut packet_header_data)?;", expect=1, why="Read::read_exact on stdin -> stream shim"),
                 dict(rule="R3", re=r"reader\.borrow_mut\(\)\.read_exact\(&mut packet_data\)\?;", to="read_exact_vec(reader_st, &mut packet_data)?;", expect=1, why="Read::read_exact on the file reader -> stream shim"),
                 dict(rule="R3", re=r"io::stdin\(\)\.read_exact\(&mut packet_data\)\?;", to="read_exact_vec(stdin_st, &mut packet_data)?;", expect=1, why="Read::read_exact on stdin -> stream shim"),
                 dict(rule="R3", re=r"PcapPacketHeader::from_bytes\(&packet_header_data\)\?", to="pkthdr_from_bytes(&packet_header_data)?", expect=2, why="record header codec behind its (Kani-proved) contract"),
                 dict(rule="R2", re=r"self\.header\.borrow\(\)\.snaplen", to="self.header.snaplen", expect=2, why="RefCell erased"),
                 dict(rule="R3", re=r"vec!\[0u8; packet_header\.caplen as usize\]", to="vec_zeroed(packet_header.caplen as usize)", expect=2, why="vec![0; n] shim"),
                 dict(rule="R3", re=r"io::Error::new\(\s*io::ErrorKind::InvalidData,\s*\"[^\"]*\",\s*\)", to="io_invalid_data()", why="io::Error constructor shim"),
                 dict(rule="R3", re=r"io::Result<", to="Result2<", expect=1, why="io::Result<T> = Result<T, io::Error>"),
             ]),
        dict(kind="fn", file=PC, path="Pcap::new_with_header", ret="r",
             ensures=[
                 "(*file is Writer || *file is Stdout) ==> r is Ok",   # model: writes do not fail
                 "r matches Ok(p) ==> p.header == global_header && p.file == file",
                 # exactly the 24 bytes of that header are written, to the handle's own stream
                 "*file is Writer ==> final(writer_st).written() == old(writer_st).written() + ghdr_bytes(global_header) && final(stdout_st).written() == old(stdout_st).written()",
                 "*file is Stdout ==> final(stdout_st).written() == old(stdout_st).written() + ghdr_bytes(global_header) && final(writer_st).written() == old(writer_st).written()",
             ], props=["C20", "C19"],
             rewrites=[
                 dict(rule="R7", re=r"fn new_with_header\(file: Rc<FileHandle>, global_header: PcapGlobalHeader\)", to="fn new_with_header(file: Rc<FileHandle>, global_header: PcapGlobalHeader, writer_st: &mut OutStream, stdout_st: &mut OutStream)", expect=1, strict=True,
                      why="interior mutability made explicit: the file writer behind the handle and stdout become &mut output-stream parameters"),
                 dict(rule="R10", re=r"let bytes: Vec<u8> = \(&global_header\)\.into\(\);", to="let bytes: Vec<u8> = ghdr_to_bytes(&global_header);", expect=1, why="From<&PcapGlobalHeader> for Vec<u8> behind its (Kani-proved) contract"),
                 dict(rule="R3", re=r"match file\.as_ref\(\) \{", to="match &*file {", expect=1, why="Rc::as_ref -> deref"),
                 dict(rule="R3", re=r"writer\.borrow_mut\(\)\.write_all\(&bytes\)\?;", to="write_all(writer_st, &bytes)?;", expect=1, why="Write::write_all on the file writer -> output-stream shim"),
                 dict(rule="R3", re=r"io::stdout\(\)\.write_all\(&bytes\)\?;", to="write_all(stdout_st, &bytes)?;", expect=1, why="Write::write_all on stdout -> output-stream shim"),
                 dict(rule="R3", re=r"io::Error::new\(\s*io::ErrorKind::InvalidData,\s*\"[^\"]*\",\s*\)", to="io_invalid_data()", why="io::Error constructor shim"),
                 dict(rule="R3", re=r"io::Result<", to="Result2<", expect=1, why="io::Result<T> = Result<T, io::Error>"),
             ]),
        dict(kind="fn", file=PC, path="Pcap::new_like", ret="r",
             ensures=[
                 # C20: the output stream's global header is the input's, field by field, and those are the bytes written
                 "r matches Ok(p) ==> p.header.magic_number == other.header.magic_number && p.header.version_major == other.header.version_major && p.header.version_minor == other.header.version_minor && p.header.thiszone == other.header.thiszone && p.header.sigfigs == other.header.sigfigs && p.header.snaplen == other.header.snaplen && p.header.linktype == other.header.linktype",
                 "*file is Stdout ==> r is Ok && final(stdout_st).written() == old(stdout_st).written() + ghdr_bytes(other.header)",
             ], props=["C20"],
             rewrites=[
                 dict(rule="R7", re=r"pub fn new_like\(file: Rc<FileHandle>, other: &Pcap\)", to="pub fn new_like(file: Rc<FileHandle>, other: &Pcap, writer_st: &mut OutStream, stdout_st: &mut OutStream)", expect=1, strict=True,
                      why="output streams made explicit (see new_with_header)"),
                 dict(rule="R2", re=r"let h = other\.header\.borrow\(\);", to="let h = &other.header;", expect=1, why="RefCell erased"),
                 dict(rule="R7", re=r"Self::new_with_header\(file, global_header\)", to="Self::new_with_header(file, global_header, writer_st, stdout_st)", expect=1, strict=True, why="output streams threaded through"),
                 dict(rule="R3", re=r"io::Result<", to="Result2<", expect=1, why="io::Result<T> = Result<T, io::Error>"),
             ]),
        dict(kind="raw", label="alias", text="pub type Result2<T> = Result<T, IoError>;\n"),
    ],
)
