global size_of usize == 8;

// ---- the stream model (as in fileio): a reader is a ghost sequence of pending bytes; read_exact(n) delivers the
// next n bytes, or fails with UnexpectedEof when fewer remain. Other I/O errors are outside the model (assumption). ----
#[verifier::external_body] pub struct Stream { _p: () }
impl Stream { pub uninterp spec fn rem(&self) -> Seq<u8>; }
#[verifier::external_body] pub struct IoError { _p: () }
#[verifier::external_body] pub struct Object { _p: () }
#[verifier::external_body] pub struct BufWriterFile { _p: () }

#[verifier::external_body]
pub fn read_exact16(st: &mut Stream, buf: &mut [u8; 16]) -> (r: Result<(), IoError>)
    ensures
        r is Ok <==> old(st).rem().len() >= 16,
        r is Ok ==> final(buf)@ == old(st).rem().subrange(0, 16) && final(st).rem() == old(st).rem().skip(16),
{ unimplemented!() }
#[verifier::external_body]
pub fn read_exact_vec(st: &mut Stream, buf: &mut Vec<u8>) -> (r: Result<(), IoError>)
    ensures
        r is Ok <==> old(st).rem().len() >= old(buf)@.len(),
        r is Ok ==> final(buf)@ == old(st).rem().subrange(0, old(buf)@.len() as int) && final(st).rem() == old(st).rem().skip(old(buf)@.len() as int),
        final(buf)@.len() == old(buf)@.len(),
{ unimplemented!() }
#[verifier::external_body]
pub fn vec_zeroed(n: usize) -> (r: Vec<u8>) ensures r@.len() == n { vec![0u8; n] }
#[verifier::external_body]
pub fn io_invalid_data() -> (r: IoError) { unimplemented!() }

// little-endian u32 at offset i (legacy pcap, as written by the capturing host)
pub open spec fn le32(b: Seq<u8>, i: int) -> int { b[i] as int + b[i + 1] as int * 256 + b[i + 2] as int * 65536 + b[i + 3] as int * 16777216 }

// PcapPacketHeader::from_bytes on exactly 16 bytes: contract proved on the real function by the Kani harness
// pcapcodec::c19_packet_header_codec (all 16 bytes symbolic)
#[verifier::external_body]
pub fn pkthdr_from_bytes(b: &[u8; 16]) -> (r: Result<PcapPacketHeader, IoError>)
    ensures r matches Ok(h) && h.ts_sec == le32(b@, 0) && h.ts_usec == le32(b@, 4) && h.caplen == le32(b@, 8) && h.wirelen == le32(b@, 12)
{ unimplemented!() }

pub open spec fn record_caplen(rem: Seq<u8>) -> int { le32(rem, 8) }

// ---- output side: a writer is the ghost sequence of bytes written so far; writes succeed (disk-full etc. are C22's) ----
#[verifier::external_body] pub struct OutStream { _p: () }
impl OutStream { pub uninterp spec fn written(&self) -> Seq<u8>; }
#[verifier::external_body]
pub fn write_all(st: &mut OutStream, bytes: &Vec<u8>) -> (r: Result<(), IoError>)
    ensures r is Ok, final(st).written() == old(st).written() + bytes@
{ unimplemented!() }
// From<&PcapGlobalHeader> for Vec<u8>: 24 bytes, little-endian fields (Kani: pcapcodec::c19_global_header_codec)
pub uninterp spec fn ghdr_bytes(h: PcapGlobalHeader) -> Seq<u8>;
#[verifier::external_body]
pub fn ghdr_to_bytes(h: &PcapGlobalHeader) -> (r: Vec<u8>) ensures r@ == ghdr_bytes(*h) { unimplemented!() }
pub const PCAP_MAGIC_US: u32 = 0xA1B2C3D4;
pub const PCAP_MAGIC_NS: u32 = 0xA1B23C4D;
