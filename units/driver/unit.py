M = "src/main.rs"

RW = [
    dict(rule="R3", re=r"Scanner::new\(source\)", to="scanner_new(source)", why="opaque constructor shim"),
    dict(rule="R3", re=r"Parser::new\(scanner\)", to="parser_new(scanner)", why="opaque constructor shim"),
    dict(rule="R3", re=r"parser\.parse_program\(\)", to="parser_parse_program(&mut parser)", why="Parser::parse_program behind its contract (diagnostics <-> clean program)"),
    dict(rule="R3", re=r"parser\.print_errors\(\)", to="parser_print_errors(parser)", why="Parser::print_errors behind its contract"),
    dict(rule="R3f", re=r"eprintln!\(\"\{\} parse errors\", parser\.parse_errors\(\)\.len\(\)\);", to="eprint_parse_error_count(parser_nerrors(parser));", why="eprintln! -> output shim"),
    dict(rule="R0", re=r"parser: &parser::Parser", to="parser: &Parser", why="module path dropped"),
]

UNIT = dict(
    name="driver",
    prelude="units/driver/prelude.rs",
    uses="use std::rc::Rc;",
    lemmas={},
    global_rewrites=RW,
    items=[
        dict(kind="fn", file=M, path="print_parse_errors", ret="r", ensures=["r == (parser.nerrors() > 0)"], props=["C01", "C23"]),
        dict(kind="fn", file=M, path="parse_program", ret="r",
             # Some(program) only for a program the parser accepted without diagnostics
             ensures=["r matches Some(p) ==> p.clean()"], props=["C01", "C23"]),
        dict(kind="fn", file=M, path="run_buf", props=["C01"],
             # no postcondition: the obligation is the precondition of vm_run (a VM built from sound bytecode)
             rewrites=[
                 dict(rule="R3", re=r"let data = Rc::new\(Object::Null\);\s*let globals = vec!\[data; GLOBALS_SIZE\];", to="let globals = fresh_globals();", expect=1, why="globals vector construction shim"),
                 dict(rule="R3", re=r"buf\.trim\(\)\.is_empty\(\)", to="str_trim_is_empty(&buf)", expect=1, why="str::trim().is_empty() shim"),
                 dict(rule="R3", re=r"Compiler::new\(\)", to="compiler_new()", expect=1, why="opaque constructor shim"),
                 dict(rule="R3", re=r"compiler\.compile\(program\)", to="compiler_compile(&mut compiler, program)", expect=1, why="Compiler::compile behind its contract"),
                 dict(rule="R3f", re=r"eprintln!\(\"\{\}\", e\);", to="eprint_compile_error(e);", expect=1, why="eprintln! -> output shim"),
                 dict(rule="R3", re=r"compiler\.bytecode\(\)", to="compiler_bytecode(&compiler)", expect=1, why="Compiler::bytecode behind its contract"),
                 dict(rule="R3", re=r"let filters = bytecode\.filters\.clone\(\);\s*let filter_end = bytecode\.filter_end\.clone\(\);", to="let (filters, filter_end) = bytecode_filters(&bytecode);", expect=1, why="field clones of an opaque type -> shim"),
                 dict(rule="R3", re=r"VM::new_with_global_store\(bytecode, globals\)", to="vm_new_with_global_store(bytecode, globals)", expect=1, why="VM constructor behind its contract"),
                 dict(rule="R3", re=r"let err = vm\.run\(\);", to="let err = vm_run(&mut vm);", expect=1, why="VM::run behind its contract (requires a runnable VM)"),
                 dict(rule="R3f", re=r"eprintln!\(\"\{\}\", err\);", to="eprint_rt_error(err);", expect=1, why="eprintln! -> output shim"),
                 dict(rule="R3", re=r"// Get the object at the top of the VM's stack\s*let stack_elem = vm\.last_popped\(\);\s*// print last popped element if it is not null\s*if !matches!\(stack_elem\.as_ref\(\), Object::Null\) \{\s*println!\(\"\{\}\", stack_elem\);\s*\}", to="vm_print_last_popped(&mut vm);", expect=1, why="printing of the last popped value -> output shim"),
                 dict(rule="R3", re=r"vm\.update_builtin_var\(BuiltinVarType::NP, Rc::new\(Object::Integer\(0\)\)\);", to="vm_reset_np(&vm);", expect=1, why="builtin variable update shim"),
                 dict(rule="R3", re=r"run_filters\(vm, filters, filter_end, skip_pcap\);", to="run_filters_shim(vm, filters, filter_end, skip_pcap);", expect=1, why="filter loop behind its contract (requires a runnable VM)"),
             ]),
        dict(kind="fn", file=M, path="run_prompt", props=["C23", "C01"],
             attrs=["#[verifier::exec_allows_no_decreases_clause]"],
             rewrites=[
                 dict(rule="R3", re=r"println!\(\"\{\} v\{\}\", PKG_DESC, PKG_VERSION\);\s*println!\(\"Type quit to quit REPL\"\);", to="print_banner();", expect=1, why="println! -> output shim"),
                 dict(rule="R3", re=r"let mut cmds = vec!\[\"quit\"\.to_string\(\)\];.*?let mut prompt = prompt::Prompt::new\(HISTORY_LINES, cmds\.as_slice\(\)\);",
                      to="let (mut constants, mut globals, mut symtab, mut prompt) = repl_setup();", expect=1,
                      why="REPL set-up (builtin symbol definitions, completion list, prompt) -> one shim returning the initial state; no obligation depends on it"),
                 dict(rule="R3", re=r"if let Ok\(line\) = prompt\.show\(\) \{", to="if let Ok(line) = prompt_show(&mut prompt) {", expect=1, why="Prompt::show shim"),
                 dict(rule="R3", re=r"line == \"quit\"", to="line_is_quit(&line)", expect=1, why="String == &str shim"),
                 dict(rule="R3", re=r"!line\.trim\(\)\.is_empty\(\)", to="!str_trim_is_empty(&line)", expect=1, why="str::trim().is_empty() shim"),
                 dict(rule="R1", re=r"symtab\.clone\(\)", to="clone_symtab(&symtab)", why="derived Clone -> structural copy"),
                 dict(rule="R1", re=r"constants\.clone\(\)", to="clone_constants(&constants)", why="derived Clone -> structural copy"),
                 dict(rule="R3", re=r"Compiler::new_with_state\(", to="compiler_new_with_state(", expect=1, why="constructor behind its contract"),
                 dict(rule="R3", re=r"compiler\.compile\(program\)", to="compiler_compile(&mut compiler, program)", expect=1, why="Compiler::compile behind its contract"),
                 dict(rule="R3f", re=r"eprintln!\(\"\{\}\", e\);", to="eprint_compile_error(e);", expect=1, why="eprintln! -> output shim"),
                 dict(rule="R3", re=r"compiler\.bytecode\(\)", to="compiler_bytecode(&compiler)", expect=1, why="Compiler::bytecode behind its contract"),
                 dict(rule="R3", re=r"VM::new_with_global_store\(bytecode, globals\)", to="vm_new_with_global_store(bytecode, globals)", expect=1, why="VM constructor behind its contract"),
                 dict(rule="R3", re=r"init_builtin_vars\(&vm, args\.clone\(\)\)", to="init_builtin_vars(&vm, clone_args(&args))", expect=1, why="Vec<String> clone shim"),
                 dict(rule="R3", re=r"let err = vm\.run\(\);", to="let err = vm_run(&mut vm);", expect=1, why="VM::run behind its contract (requires a runnable VM)"),
                 dict(rule="R3f", re=r"eprintln!\(\"\{\}\", err\);", to="eprint_rt_error(err);", expect=1, why="eprintln! -> output shim"),
                 dict(rule="R3", re=r"globals = vm\.globals;", to="globals = vm_take_globals(&mut vm);", expect="+", why="field move out of an opaque type -> shim"),
                 dict(rule="R3", re=r"symtab = compiler\.symtab;", to="symtab = compiler_take_symtab(&mut compiler);", expect="+", why="field move out of an opaque type -> shim"),
                 dict(rule="R3", re=r"constants = compiler\.constants;", to="constants = compiler_take_constants(&mut compiler);", expect="+", why="field move out of an opaque type -> shim"),
                 dict(rule="R3", re=r"// Get the object at the top of the VM's stack\s*let stack_elem = vm\.last_popped\(\);\s*// print last popped element if it is not null\s*if !matches!\(stack_elem\.as_ref\(\), Object::Null\) \{\s*println!\(\"\{\}\", stack_elem\);\s*\}", to="vm_print_last_popped(&mut vm);", expect=1, why="printing of the last popped value -> output shim"),
                 dict(rule="R3f", re=r"println!\(\"\\nExiting\.\.\.\"\);", to="print_exiting();", expect=1, why="println! -> output shim"),
                 # C23: at the two exits of an iteration that REJECTED the line (parse error, compile error) the
                 # accumulated state must be what it was when the line was read
                 dict(rule="R9", re=r"None => \{\s*continue;", to="None => { proof { assert(symtab == s0 && constants@ == c0 && globals@ == g0); } continue;", expect=1,
                      why="proof-only assertion at the parse-rejected exit"),
                 dict(rule="R9", re=r"eprint_compile_error\(e\);(.*?)continue;", to=r"eprint_compile_error(e);\1proof { assert(symtab == s0 && constants@ == c0 && globals@ == g0); } continue;", expect=1,
                      why="proof-only assertion at the compile-rejected exit"),
             ],
             loops={2: dict(body_prologue=" let ghost s0 = symtab; let ghost c0 = constants@; let ghost g0 = globals@; ")}),
    ],
)
