// ---- everything outside main.rs is opaque here; the obligations are about control flow and frames ----
#[verifier::external_body] pub struct Program { _p: () }
#[verifier::external_body] pub struct Scanner { _p: () }
#[verifier::external_body] pub struct Parser { _p: () }
#[verifier::external_body] pub struct SymbolTable { _p: () }
#[verifier::external_body] pub struct Object { _p: () }
#[verifier::external_body] pub struct Compiler { _p: () }
#[verifier::external_body] pub struct CompileError { _p: () }
#[verifier::external_body] pub struct RTError { _p: () }
#[verifier::external_body] pub struct Bytecode { _p: () }
#[verifier::external_body] pub struct VM { _p: () }
#[verifier::external_body] pub struct Prompt { _p: () }
#[verifier::external_body] pub struct CompiledFunction { _p: () }

impl Parser {
    // the diagnostics recorded so far
    pub uninterp spec fn nerrors(&self) -> nat;
}
impl Compiler {
    pub uninterp spec fn symtab_view(&self) -> SymbolTable;
    pub uninterp spec fn constants_view(&self) -> Seq<Rc<Object>>;
    // ghost: this compiler has compiled a program without reporting a compile error
    pub uninterp spec fn compiled_ok(&self) -> bool;
}
impl Bytecode {
    // ghost: produced by a compiler whose compile() returned Ok, from a program parsed without diagnostics
    pub uninterp spec fn sound(&self) -> bool;
}
impl VM {
    pub uninterp spec fn runnable(&self) -> bool;
    pub uninterp spec fn globals_view(&self) -> Seq<Rc<Object>>;
}
impl Program {
    // ghost: the parser reported no diagnostics for this program
    pub uninterp spec fn clean(&self) -> bool;
}

#[verifier::external_body] pub fn scanner_new(source: &str) -> (r: Scanner) { unimplemented!() }
#[verifier::external_body] pub fn parser_new(s: Scanner) -> (r: Parser) ensures r.nerrors() == 0 { unimplemented!() }
// Parser::parse_program: the returned program is "clean" exactly when no diagnostic was recorded
#[verifier::external_body]
pub fn parser_parse_program(p: &mut Parser) -> (r: Program)
    ensures r.clean() == (final(p).nerrors() == 0)
{ unimplemented!() }
// Parser::print_errors: true iff there are diagnostics
#[verifier::external_body]
pub fn parser_print_errors(p: &Parser) -> (r: bool) ensures r == (p.nerrors() > 0) { unimplemented!() }
#[verifier::external_body]
pub fn parser_nerrors(p: &Parser) -> (r: usize) ensures r == p.nerrors() { unimplemented!() }

#[verifier::external_body] pub fn compiler_new() -> (r: Compiler) ensures !r.compiled_ok() { unimplemented!() }
#[verifier::external_body]
pub fn compiler_new_with_state(symtab: SymbolTable, constants: Vec<Rc<Object>>) -> (r: Compiler)
    ensures !r.compiled_ok()
{ unimplemented!() }
// Compiler::compile: only a clean program may be compiled; Ok marks the compiler as having a sound result
#[verifier::external_body]
pub fn compiler_compile(c: &mut Compiler, p: Program) -> (r: Result<(), CompileError>)
    requires p.clean()
    ensures (r is Ok) == final(c).compiled_ok()
{ unimplemented!() }
#[verifier::external_body]
pub fn compiler_bytecode(c: &Compiler) -> (r: Bytecode) ensures r.sound() == c.compiled_ok() { unimplemented!() }
#[verifier::external_body]
pub fn compiler_take_symtab(c: &mut Compiler) -> (r: SymbolTable) ensures r == old(c).symtab_view(), final(c).compiled_ok() == old(c).compiled_ok(), final(c).constants_view() == old(c).constants_view() { unimplemented!() }
#[verifier::external_body]
pub fn compiler_take_constants(c: &mut Compiler) -> (r: Vec<Rc<Object>>) ensures r@ == old(c).constants_view(), final(c).compiled_ok() == old(c).compiled_ok() { unimplemented!() }

// VM::new_with_global_store / VM::run: C01 "a program for which diagnostics were reported is not executed":
// a VM is runnable only when built from sound bytecode, and run() requires a runnable VM
#[verifier::external_body]
pub fn vm_new_with_global_store(b: Bytecode, globals: Vec<Rc<Object>>) -> (r: VM)
    ensures r.runnable() == b.sound()
{ unimplemented!() }
#[verifier::external_body]
pub fn vm_run(vm: &mut VM) -> (r: Result<(), RTError>)
    requires old(vm).runnable()
    ensures final(vm).runnable()
{ unimplemented!() }
#[verifier::external_body] pub fn vm_take_globals(vm: &mut VM) -> (r: Vec<Rc<Object>>) { unimplemented!() }
#[verifier::external_body] pub fn vm_print_last_popped(vm: &mut VM) { unimplemented!() }

#[verifier::external_body] pub fn clone_symtab(s: &SymbolTable) -> (r: SymbolTable) ensures r == *s { unimplemented!() }
#[verifier::external_body] pub fn clone_constants(s: &Vec<Rc<Object>>) -> (r: Vec<Rc<Object>>) ensures r@ == s@ { unimplemented!() }
#[verifier::external_body] pub fn eprint_compile_error(e: CompileError) { unimplemented!() }
#[verifier::external_body] pub fn eprint_rt_error(e: RTError) { unimplemented!() }
#[verifier::external_body] pub fn eprint_parse_error_count(n: usize) { unimplemented!() }
#[verifier::external_body] pub fn str_trim_is_empty(s: &String) -> (r: bool) { unimplemented!() }
#[verifier::external_body] pub fn init_builtin_vars(vm: &VM, args: Vec<String>) { unimplemented!() }
#[verifier::external_body] pub fn clone_args(a: &Vec<String>) -> (r: Vec<String>) { unimplemented!() }

#[verifier::external_body] pub fn fresh_globals() -> (r: Vec<Rc<Object>>) { unimplemented!() }
#[verifier::external_body] pub fn bytecode_filters(b: &Bytecode) -> (r: (Vec<Rc<CompiledFunction>>, Option<Rc<CompiledFunction>>)) { unimplemented!() }
#[verifier::external_body] pub fn vm_reset_np(vm: &VM) { unimplemented!() }
// run_filters executes the filter functions of the same bytecode on the same VM
#[verifier::external_body]
pub fn run_filters_shim(vm: VM, filters: Vec<Rc<CompiledFunction>>, filter_end: Option<Rc<CompiledFunction>>, skip_pcap: bool)
    requires vm.runnable()
{ unimplemented!() }

#[verifier::external_body] pub fn print_banner() { unimplemented!() }
#[verifier::external_body] pub fn print_exiting() { unimplemented!() }
#[verifier::external_body] pub fn repl_setup() -> (r: (Vec<Rc<Object>>, Vec<Rc<Object>>, SymbolTable, Prompt)) { unimplemented!() }
#[verifier::external_body] pub fn prompt_show(p: &mut Prompt) -> (r: Result<String, ()>) { unimplemented!() }
#[verifier::external_body] pub fn line_is_quit(s: &String) -> (r: bool) { unimplemented!() }
