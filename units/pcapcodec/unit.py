def h(name, props, clause, kind="complete", **kw):
    d = dict(name=name, props=props, kind=kind, clause=clause)
    d.update(kw)
    return d

UNIT = dict(
    name="pcapcodec",
    appends=[("src/builtins/pcap.rs", "units/pcapcodec/harness.rs")],
    harnesses=[
        h("c19_global_header_codec", ["C19", "C16"], "PcapGlobalHeader::from_bytes on all 24 bytes: Ok iff magic is 0xA1B2C3D4 or 0xA1B23C4D, fields = little-endian libpcap layout, Vec::from(&hdr) == the 24 bytes"),
        h("c19_global_header_short", ["C19"], "PcapGlobalHeader::from_bytes on any buffer shorter than 24 bytes: Err, no panic"),
        h("c19_packet_header_codec", ["C19", "C16"], "PcapPacketHeader::from_bytes on all 16 bytes: fields = little-endian layout, Vec::from(&hdr) == the 16 bytes"),
        h("c19_packet_header_short", ["C19"], "PcapPacketHeader::from_bytes on any buffer shorter than 16 bytes: Err, no panic"),
        h("c15_packet_ro_serialise", ["C15", "C16", "C19"], "a packet with no cached inner layer serialises to record header ++ captured bytes; sec/usec/caplen/wirelen getters decode the record header", kind="bounded", bound="4 payload bytes"),
        h("c17_packet_set_ts_sec", ["C17"], "PcapPacket::set_ts_sec: value reduced to 32 bits, other fields and bytes unchanged"),
        h("c17_packet_set_ts_usec", ["C17"], "PcapPacket::set_ts_usec: same"),
        h("c17_packet_set_caplen", ["C17"], "PcapPacket::set_caplen: same"),
        h("c17_packet_set_wirelen", ["C17"], "PcapPacket::set_wirelen: same"),
    ],
    flags=[],
    jobs=9,
)
