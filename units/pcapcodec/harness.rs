#[cfg(kani)]
mod verif_pcap {
    use super::*;

    fn le32(b: &[u8], i: usize) -> u32 { (b[i] as u32) | ((b[i + 1] as u32) << 8) | ((b[i + 2] as u32) << 16) | ((b[i + 3] as u32) << 24) }
    fn le16(b: &[u8], i: usize) -> u16 { (b[i] as u16) | ((b[i + 1] as u16) << 8) }
    fn stub_format(_args: std::fmt::Arguments<'_>) -> String { String::new() }

    // C19/C16: the global header codec: accepts exactly the two legacy magics, decodes the libpcap layout,
    // and encode(decode(bytes)) == bytes on all 24 bytes
    #[kani::proof]
    #[kani::stub(alloc::fmt::format, stub_format)]
    fn c19_global_header_codec() {
        let a: [u8; 24] = kani::any();
        let r = PcapGlobalHeader::from_bytes(&a);
        let magic = le32(&a, 0);
        match &r {
            Ok(h) => {
                assert!(magic == 0xA1B2C3D4 || magic == 0xA1B23C4D);
                assert!(h.magic_number == magic);
                assert!(h.version_major == le16(&a, 4) && h.version_minor == le16(&a, 6));
                assert!(h.thiszone == le32(&a, 8) as i32 && h.sigfigs == le32(&a, 12));
                assert!(h.snaplen == le32(&a, 16) && h.linktype == le32(&a, 20));
                let out: Vec<u8> = h.into();
                assert!(out.len() == 24);
                let i: usize = kani::any();
                kani::assume(i < 24);
                assert!(out[i] == a[i]);
                std::mem::forget(out);
                kani::cover!(magic == 0xA1B23C4D);
            }
            Err(_) => assert!(magic != 0xA1B2C3D4 && magic != 0xA1B23C4D),
        }
        std::mem::forget(r);
    }

    // a short global header is an error, never a panic
    #[kani::proof]
    #[kani::stub(alloc::fmt::format, stub_format)]
    fn c19_global_header_short() {
        let a: [u8; 23] = kani::any();
        let n: usize = kani::any();
        kani::assume(n <= 23);
        let r = PcapGlobalHeader::from_bytes(&a[..n]);
        assert!(r.is_err());
        std::mem::forget(r);
    }

    // C19/C16: the record header codec on all 16 bytes
    #[kani::proof]
    fn c19_packet_header_codec() {
        let a: [u8; 16] = kani::any();
        let r = PcapPacketHeader::from_bytes(&a);
        match &r {
            Ok(h) => {
                assert!(h.ts_sec == le32(&a, 0) && h.ts_usec == le32(&a, 4) && h.caplen == le32(&a, 8) && h.wirelen == le32(&a, 12));
                let out: Vec<u8> = h.into();
                assert!(out.len() == 16);
                let i: usize = kani::any();
                kani::assume(i < 16);
                assert!(out[i] == a[i]);
                std::mem::forget(out);
            }
            Err(_) => assert!(false),
        }
        std::mem::forget(r);
    }
    #[kani::proof]
    fn c19_packet_header_short() {
        let a: [u8; 15] = kani::any();
        let n: usize = kani::any();
        kani::assume(n <= 15);
        let r = PcapPacketHeader::from_bytes(&a[..n]);
        assert!(r.is_err());
        std::mem::forget(r);
    }

    fn int_of(o: Rc<Object>) -> i64 {
        let v = match o.as_ref() { Object::Integer(v) => *v, _ => { assert!(false); 0 } };
        std::mem::forget(o);
        v
    }
    fn mk_packet(a: &[u8; 16], payload: [u8; 4]) -> PcapPacket {
        PcapPacket {
            header: RefCell::new(PcapPacketHeader::from_bytes(a).unwrap()),
            inner: RefCell::new(None),
            rawdata: RefCell::new(Rc::new(payload.to_vec())),
        }
    }
    // C15/C16: a read-only packet serialises to its record header followed by the captured bytes; getters decode the record header
    #[kani::proof]
    fn c15_packet_ro_serialise() {
        let a: [u8; 16] = kani::any();
        let pl: [u8; 4] = kani::any();
        let p = mk_packet(&a, pl);
        assert!(int_of(p.get_ts_sec()) == le32(&a, 0) as i64 && int_of(p.get_ts_usec()) == le32(&a, 4) as i64);
        assert!(int_of(p.get_caplen()) == le32(&a, 8) as i64 && int_of(p.get_wirelen()) == le32(&a, 12) as i64);
        let out: Vec<u8> = (&p).into();
        assert!(out.len() == 20);
        let i: usize = kani::any();
        kani::assume(i < 20);
        assert!(out[i] == if i < 16 { a[i] } else { pl[i - 16] });
        std::mem::forget(out);
        std::mem::forget(p);
    }
    // C17: packet header setters change exactly their 4 bytes
    fn check_pkt_setter(k: usize, set: fn(&PcapPacket, Rc<Object>) -> Result<(), String>) {
        let a: [u8; 16] = kani::any();
        let pl: [u8; 4] = kani::any();
        let p = mk_packet(&a, pl);
        let v: i64 = kani::any();
        let val = Rc::new(Object::Integer(v));
        let res = set(&p, val.clone());
        std::mem::forget(val);
        let got = [int_of(p.get_ts_sec()), int_of(p.get_ts_usec()), int_of(p.get_caplen()), int_of(p.get_wirelen())];
        let out: Vec<u8> = (&p).into();
        assert!(out.len() == 20);
        let i: usize = kani::any();
        kani::assume(i < 20);
        let j: usize = kani::any();
        kani::assume(j < 4 && j != k);
        if res.is_ok() {
            assert!(got[k] == (v & 0xFFFF_FFFF));
            assert!(got[j] == le32(&a, 4 * j) as i64);
            if i < 4 * k || i >= 4 * k + 4 { assert!(out[i] == if i < 16 { a[i] } else { pl[i - 16] }); }
        } else {
            assert!(v < 0 || v > 0xFFFF_FFFF);
            assert!(out[i] == if i < 16 { a[i] } else { pl[i - 16] });
        }
        std::mem::forget(res);
        std::mem::forget(out);
        std::mem::forget(p);
    }
    #[kani::proof] fn c17_packet_set_ts_sec() { check_pkt_setter(0, PcapPacket::set_ts_sec); }
    #[kani::proof] fn c17_packet_set_ts_usec() { check_pkt_setter(1, PcapPacket::set_ts_usec); }
    #[kani::proof] fn c17_packet_set_caplen() { check_pkt_setter(2, PcapPacket::set_caplen); }
    #[kani::proof] fn c17_packet_set_wirelen() { check_pkt_setter(3, PcapPacket::set_wirelen); }
}
