"""C08 / C13 (Verus): the VM helpers that round 1 left behind assumed contracts - exec_index_expr, exec_array_index,
exec_hash_index, exec_dollar_expr, build_map - on their real bodies, against EXACTLY the contracts the opcode arms of the
vmcore unit assume for them (vm_exec_index_expr, vm_exec_dollar_expr, vm_build_map in units/vmcore/prelude.rs): the VM
invariant is kept, the shape is kept, every error carries the instruction's line, array indexing is in bounds."""
from units.vmcore import unit as vmcore

I = "src/vm/interpreter.rs"
keep_fns = {"RTError::new", "VM::push", "VM::pop", "Frame::new", "Closure::new"}
base = [it for it in vmcore.UNIT["items"] if it.get("kind") in ("struct", "enum") or (it.get("kind", "fn") == "fn" and it.get("path") in keep_fns)]

WF = ["vm_wf(old(self))"]
SHIM_ENS = ["vm_wf(final(self))", "same_shape(old(self), final(self))", "r matches Err(e) ==> e.line == line",
            "final(self).frames_index == old(self).frames_index", "final(self).frames@ == old(self).frames@"]


def m(path, **kw):
    d = dict(kind="fn", file=I, path="VM::" + path, props=["C08", "C13"])
    d.update(kw)
    return d


UNIT = dict(
    name="vmindex",
    prelude=["units/common/objtypes.rs", "units/vmcore/prelude.rs", "units/vmindex/extra.rs"],
    uses="use std::rc::Rc;",
    lemmas={},
    global_rewrites=vmcore.RW,
    items=base + [
        m("exec_array_index", ret="r", requires=WF,
          ensures=["*final(self) == *old(self)", "r matches Err(e) ==> e.line == line",
                   "r is Ok <==> 0 <= idx < arr@.len()", "r matches Ok(o) ==> (setval matches Some(v) ==> o == v) && (setval is None ==> o == arr@[idx as int])"],
          rewrites=[dict(rule="R3", re=r"arr\.len\(\)", to="array_len(arr)", expect=1, why="Array::len behind its contract"),
                    dict(rule="R2", re=r"arr\.set\(idx as usize, obj\.clone\(\)\)", to="array_set(arr, idx as usize, obj.clone())", expect=1, why="Array::set (interior mutability) -> shim whose precondition is the index bound"),
                    dict(rule="R3", re=r"arr\.get\(idx as usize\)", to="array_get(arr, idx as usize)", expect=1, why="Array::get -> shim whose precondition is the index bound")]),
        m("exec_hash_index", ret="r", requires=WF,
          ensures=["*final(self) == *old(self)", "r matches Err(e) ==> e.line == line", "r matches Ok(o) ==> (setval matches Some(v) ==> o == v)"],
          rewrites=[dict(rule="R3", re=r"key\.is_a_valid_key\(\)", to="obj_is_valid_key(key)", expect=1, why="Object::is_a_valid_key shim"),
                    dict(rule="R2", re=r"map\.insert\(key\.clone\(\), obj\.clone\(\)\)", to="hmap_insert(map, key.clone(), obj.clone())", expect=1, why="HMap::insert (interior mutability) shim"),
                    dict(rule="R3", re=r"map\.get\(key\)", to="hmap_get(map, key)", expect=1, why="HMap::get shim"),
                    dict(rule="R3", re=r"obj\.is_null\(\)", to="obj_is_null(&obj)", expect=1, why="Object::is_null shim")]),
        m("exec_index_expr", ret="r", requires=WF, ensures=SHIM_ENS),
        m("exec_dollar_expr", ret="r", requires=WF, ensures=SHIM_ENS,
          rewrites=[dict(rule="R2", re=r"self\.curr_pkt\.borrow\(\)\.as_ref\(\)\.cloned\(\)", to="clone_curr_pkt(&self.curr_pkt)", expect=1, why="RefCell erased; Option<Rc>::cloned shim"),
                    dict(rule="R3", re=r"self\.get_inner\(", to="vm_get_inner(self, ", expect=1, why="get_inner behind its contract (dollar unit): errors carry the line"),
                    dict(rule="R3", re=r"obj\.as_ref\(\)", to="&*obj", expect=1, why="Rc::as_ref -> deref")]),
        m("build_map", ret="r", requires=["vm_wf(self)", "start_index <= end_index <= self.sp", "(end_index - start_index) % 2 == 0"],
          ensures=["r matches Err(e) ==> e.line == line"],
          rewrites=[dict(rule="R10", re=r"HashMap<Rc<Object>, Rc<Object>>", to="PairsMap", expect=1, why="std HashMap of objects -> opaque pairs type"),
                    dict(rule="R3", re=r"HashMap::with_capacity\(end_index - start_index\)", to="pairs_with_capacity(end_index - start_index)", expect=1, why="HashMap::with_capacity shim"),
                    dict(rule="R5", re=r"for i in \(start_index\.\.end_index\)\.step_by\(2\) (/\*@L0@\*/)\{(/\*@LB0@\*/)", to=r"let mut i: usize = start_index; while i < end_index \1{\2", expect=1, why="(a..b).step_by(2) -> index loop with the same index sequence"),
                    dict(rule="R3", re=r"key\.is_a_valid_key\(\)", to="obj_is_valid_key(&key)", expect=1, why="Object::is_a_valid_key shim"),
                    dict(rule="R3", re=r"elements\.insert\(key, val\);", to="pairs_insert(&mut elements, key, val);", expect=1, why="HashMap::insert shim")],
          loops={0: dict(invariant=["vm_wf(self)", "start_index <= i <= end_index <= self.sp", "(end_index - i) % 2 == 0"], decreases="end_index - i", body_epilogue=" i += 2; ")}),
    ],
)
