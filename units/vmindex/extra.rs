
// ---- Array / HMap operations used by the index helpers (interior mutability behind &self; bounds are the obligations) ----
#[verifier::external_body] pub fn array_len(a: &Array) -> (r: usize) ensures r == a@.len() { unimplemented!() }
#[verifier::external_body] pub fn array_get(a: &Array, i: usize) -> (r: Rc<Object>) requires i < a@.len() ensures r == a@[i as int] { unimplemented!() }
#[verifier::external_body] pub fn array_set(a: &Array, i: usize, v: Rc<Object>) requires i < a@.len() { unimplemented!() }
#[verifier::external_body] pub fn obj_is_valid_key(o: &Rc<Object>) -> (r: bool) { unimplemented!() }
#[verifier::external_body] pub fn obj_is_null(o: &Rc<Object>) -> (r: bool) ensures r == (**o is Null) { unimplemented!() }
#[verifier::external_body] pub fn hmap_insert(m: &HMap, k: Rc<Object>, v: Rc<Object>) { unimplemented!() }
#[verifier::external_body] pub fn hmap_get(m: &HMap, k: &Rc<Object>) -> (r: Rc<Object>) { unimplemented!() }
#[verifier::external_body] pub fn pairs_with_capacity(n: usize) -> (r: PairsMap) { unimplemented!() }
#[verifier::external_body] pub fn pairs_insert(p: &mut PairsMap, k: Rc<Object>, v: Rc<Object>) { unimplemented!() }
#[verifier::external_body] pub fn clone_curr_pkt(o: &Option<Rc<Object>>) -> (r: Option<Rc<Object>>) ensures r == *o { unimplemented!() }
// VM::get_inner (vm/pktprop.rs): verified in the `dollar` unit; here only: an error it returns carries the line
#[verifier::external_body]
pub fn vm_get_inner(vm: &VM, obj: &Rc<Object>, depth: usize, line: usize) -> (r: Result<Rc<Object>, RTError>)
    ensures r matches Err(e) ==> e.line == line
{ unimplemented!() }
pub const MAX_PROTO_DEPTH: usize = 10;
