global size_of usize == 8;

// ---- std string operations behind their documented meaning (R3); text is Seq<char> ----
pub uninterp spec fn dcolon_at(s: Seq<char>) -> Option<int>;      // position of the first "::", if any
#[verifier::external_body]
pub fn str_find_dcolon(s: &str) -> (r: Option<usize>)
    ensures (r matches Some(p) ==> dcolon_at(s@) == Some(p as int) && p + 2 <= s@.len() && p + 2 <= usize::MAX), r is None ==> dcolon_at(s@) is None
{ s.find("::") }
#[verifier::external_body]
pub fn str_contains_dcolon(s: &str) -> (r: bool) ensures r == (dcolon_at(s@) is Some) { s.contains("::") }
#[verifier::external_body]
pub fn str_prefix(s: &str, end: usize) -> (r: &str) requires end <= s@.len() ensures r@ == s@.subrange(0, end as int) { &s[..end] }
#[verifier::external_body]
pub fn str_suffix(s: &str, start: usize) -> (r: &str) requires start <= s@.len() ensures r@ == s@.subrange(start as int, s@.len() as int) { &s[start..] }
#[verifier::external_body]
pub fn str_is_empty(s: &str) -> (r: bool) ensures r == (s@.len() == 0) { s.is_empty() }

// s.split(c).collect::<Vec<&str>>(): the segments between separators, in order; never empty
pub uninterp spec fn split_spec(s: Seq<char>, c: char) -> Seq<Seq<char>>;
#[verifier::external_body]
pub fn str_split<'a>(s: &'a str, c: char) -> (r: Vec<&'a str>)
    ensures r@.len() >= 1, r@.len() <= 0x0fff_ffff_ffff_ffff, r@.len() == split_spec(s@, c).len(), forall|i: int| 0 <= i < r@.len() ==> (#[trigger] r@[i])@ == split_spec(s@, c)[i]
{ s.split(c).collect() }

// value of one group / octet text (u16::from_str_radix(_, 16), u8::from_str_radix(_, 16), str::parse::<u8>())
pub uninterp spec fn hex16(g: Seq<char>) -> Option<u16>;
pub uninterp spec fn hex8(g: Seq<char>) -> Option<u8>;
pub uninterp spec fn dec8(g: Seq<char>) -> Option<u8>;
#[verifier::external_body]
pub fn u16_from_hex(g: &str) -> (r: Result<u16, ()>) ensures (r matches Ok(v) ==> hex16(g@) == Some(v)), r is Err ==> hex16(g@) is None { u16::from_str_radix(g, 16).map_err(|_| ()) }
#[verifier::external_body]
pub fn u8_from_hex(g: &str) -> (r: Result<u8, ()>) ensures (r matches Ok(v) ==> hex8(g@) == Some(v)), r is Err ==> hex8(g@) is None { u8::from_str_radix(g, 16).map_err(|_| ()) }
#[verifier::external_body]
pub fn u8_from_dec(g: &str) -> (r: Result<u8, ()>) ensures (r matches Ok(v) ==> dec8(g@) == Some(v)), r is Err ==> dec8(g@) is None { g.parse::<u8>().map_err(|_| ()) }
pub uninterp spec fn all_hexdigits(g: Seq<char>) -> bool;
#[verifier::external_body]
pub fn str_all_hexdigits(g: &str) -> (r: bool) ensures r == all_hexdigits(g@) { g.chars().all(|c| c.is_ascii_hexdigit()) }
#[verifier::external_body]
pub fn str_len(g: &str) -> (r: usize) { g.len() }

pub enum PacketError { InvalidLength(usize), InvalidMacAddress }

// ---- reference meaning of RFC 4291 text with at most one "::" (C18) ----
// value of group text g as parse_group accepts it
pub open spec fn group_ok(g: Seq<char>) -> bool { g.len() > 0 && all_hexdigits(g) && hex16(g) is Some }
// the k-th 16-bit part of the address denoted by head groups, a run of zeros, and tail groups
pub open spec fn part(head: Seq<Seq<char>>, tail: Seq<Seq<char>>, k: int) -> u16 {
    if k < head.len() { hex16(head[k]).unwrap() }
    else if k >= 8 - tail.len() { hex16(tail[k - (8 - tail.len())]).unwrap() }
    else { 0u16 }
}
pub open spec fn parts_of(a: Ipv6Address) -> Seq<u16> { seq![a.0, a.1, a.2, a.3, a.4, a.5, a.6, a.7] }
