A6 = "src/builtins/protocols/ipv6addr.rs"
A4 = "src/builtins/protocols/ipv4addr.rs"
AM = "src/builtins/protocols/macaddress.rs"

HEAD = "groups_of(head_of(s@))"
TAIL = "groups_of(tail_of(s@))"

UNIT = dict(
    name="addr",
    prelude="units/addr/prelude.rs",
    uses="",
    lemmas={},
    items=[
        dict(kind="struct", file=A6, path="Ipv6Address"),
        dict(kind="raw", label="ipv6_specs", text='''
// the text before / after the (first) "::"; the whole text / empty when there is none
pub open spec fn head_of(s: Seq<char>) -> Seq<char> { match dcolon_at(s) { Some(p) => s.subrange(0, p), None => s } }
// the colon-separated groups of a head/tail text; an empty text has no groups
pub open spec fn groups_of(t: Seq<char>) -> Seq<Seq<char>> { if t.len() == 0 { Seq::<Seq<char>>::empty() } else { split_spec(t, ':') } }
pub open spec fn tail_of(s: Seq<char>) -> Seq<char> { match dcolon_at(s) { Some(p) => s.subrange(p + 2, s.len() as int), None => Seq::empty() } }
'''),
        dict(kind="fn", file=A6, path="Ipv6Address::parse_group", ret="r",
             ensures=["r is Ok ==> group_ok(group@) && hex16(group@) == Some(r->Ok_0)", "group@.len() == 0 ==> r is Err", "!all_hexdigits(group@) ==> r is Err"],
             props=["C18"],
             rewrites=[dict(rule="R3", re=r"group\.is_empty\(\)", to="str_is_empty(group)", expect=1, why="str::is_empty shim"),
                       dict(rule="R3", re=r"group\.len\(\) > 4", to="str_len(group) > 4", expect=1, why="str::len (bytes) shim; value not needed"),
                       dict(rule="R3", re=r"!group\.chars\(\)\.all\(\|c\| c\.is_ascii_hexdigit\(\)\)", to="!str_all_hexdigits(group)", expect=1, why="chars().all(closure) -> shim"),
                       dict(rule="R3", re=r"u16::from_str_radix\(group, 16\)\.map_err\(\|_\| \"Invalid segment in IPv6 address\"\)", to='match u16_from_hex(group) { Ok(v) => Ok(v), Err(_) => Err("Invalid segment in IPv6 address") }', expect=1, why="from_str_radix + map_err(closure) -> shim + match")]),
        dict(kind="fn", file=A6, path="Ipv6Address::from_str", ret="r", attrs=["#[verifier::loop_isolation(false)]"], prologue=' proof { reveal_strlit(""); } ',
             ensures=[
                 # accepted texts denote: head groups, zeros, tail groups (RFC 4291 section 2.2, forms 1 and 2)
                 "r matches Ok(a) ==> (forall|k: int| 0 <= k < 8 ==> #[trigger] parts_of(a)[k] == part(%s, %s, k))" % (HEAD, TAIL),
                 "r matches Ok(a) ==> (dcolon_at(tail_of(s@)) is None)",   # at most one "::"
                 "r matches Ok(a) ==> (dcolon_at(s@) is Some ==> %s.len() + %s.len() <= 7)" % (HEAD, TAIL),   # "::" stands for at least one group
                 "r matches Ok(a) ==> (dcolon_at(s@) is None ==> %s.len() == 8)" % HEAD,
                 "r matches Ok(a) ==> (forall|i: int| 0 <= i < %s.len() ==> group_ok(#[trigger] %s[i]))" % (HEAD, HEAD),
                 "r matches Ok(a) ==> (forall|i: int| 0 <= i < %s.len() ==> group_ok(#[trigger] %s[i]))" % (TAIL, TAIL),
             ],
             props=["C18"],
             rewrites=[
                 dict(rule="R3", re=r"match s\.find\(\"::\"\) \{\s*Some\(pos\) => \(&s\[\.\.pos\], &s\[pos \+ 2\.\.\], true\),", to='match str_find_dcolon(s) { Some(pos) => (str_prefix(s, pos), str_suffix(s, pos + 2), true),', expect=1, why="str::find / slicing -> shims with bounds as preconditions"),
                 dict(rule="R3", re=r"const ERR: &str = (\"[^\"]*\");", to=r"let ERR: &'static str = \1;", expect=1, why="block-level const -> let (Verus)"),
                 dict(rule="R9", re=r"let count = ", to="proof { assert(head@ =~= head_of(s@)); assert(tail@ =~= tail_of(s@)); assert(head_groups@.len() == groups_of(head@).len()); assert(tail_groups@.len() == groups_of(tail@).len()); } let count = ", expect=1, why="proof-only hints (extensional equality of the head/tail texts)"),
                 dict(rule="R9", re=r"\n        Ok\(Self\(", to="""
        proof {
            let hg = groups_of(head_of(s@)); let tg = groups_of(tail_of(s@));
            assert forall|i: int| 0 <= i < hg.len() implies group_ok(#[trigger] hg[i]) && parts@[i] == hex16(hg[i]).unwrap() by { assert(head_groups@[i]@ == hg[i]); }
            assert forall|i: int| 0 <= i < tg.len() implies group_ok(#[trigger] tg[i]) && parts@[start + i] == hex16(tg[i]).unwrap() by { assert(tail_groups@[i]@ == tg[i]); }
            assert forall|k: int| 0 <= k < 8 implies #[trigger] parts@[k] == part(hg, tg, k) by {
                if k < hg.len() { assert(group_ok(hg[k])); } else if k >= 8 - tg.len() { assert(group_ok(tg[k - (8 - tg.len())])); assert(parts@[start + (k - (8 - tg.len()))] == hex16(tg[k - (8 - tg.len())]).unwrap()); } else { }
            }
        }
        Ok(Self(""", expect=1, why="proof-only: the loop invariants restated over the specification's group sequences"),
                 dict(rule="R3", re=r"tail\.contains\(\"::\"\)", to="str_contains_dcolon(tail)", expect=1, why="str::contains shim"),
                 dict(rule="R3", re=r"(head|tail)\.is_empty\(\)", to=r"str_is_empty(\1)", expect=2, why="str::is_empty shim"),
                 dict(rule="R3", re=r"(head|tail)\.split\(':'\)\.collect\(\)", to=r"str_split(\1, ':')", expect=2, why="split().collect() -> shim"),
                 dict(rule="R5", re=r"for \(i, group\) in head_groups\.iter\(\)\.enumerate\(\) (/\*@L0@\*/)\{(/\*@LB0@\*/)", to=r"let mut i: usize = 0; while i < head_groups.len() \1{ let group = head_groups[i]; \2", expect=1, why="enumerate -> index loop"),
                 dict(rule="R5", re=r"/\*@LE0@\*/", to=" i += 1; ", expect=1, why="index increment"),
                 dict(rule="R5", re=r"for \(i, group\) in tail_groups\.iter\(\)\.enumerate\(\) (/\*@L1@\*/)\{(/\*@LB1@\*/)", to=r"let mut i: usize = 0; while i < tail_groups.len() \1{ let group = tail_groups[i]; \2", expect=1, why="enumerate -> index loop"),
                 dict(rule="R5", re=r"/\*@LE1@\*/", to=" i += 1; ", expect=1, why="index increment"),
                 dict(rule="R3", re=r"let mut parts = \[0u16; 8\];", to="let mut parts: [u16; 8] = [0u16, 0u16, 0u16, 0u16, 0u16, 0u16, 0u16, 0u16];", expect=1, why="array repeat expression -> explicit literal"),
                 dict(rule="R3", re=r"parts\[(i|start \+ i)\] = Self::parse_group\(group\)\?;", to=r"let pv = Self::parse_group(group)?; parts.set(\1, pv);", expect=2, why="array IndexMut assignment -> set"),
             ],
             loops={0: dict(invariant=["i <= head_groups@.len()", "head_groups@.len() <= 8", "forall|k: int| 0 <= k < i ==> group_ok((#[trigger] head_groups@[k])@) && parts@[k] == hex16(head_groups@[k]@).unwrap()",
                                       "forall|k: int| i <= k < 8 ==> parts@[k] == 0"], decreases="head_groups@.len() - i"),
                    1: dict(invariant=["i <= tail_groups@.len()", "head_groups@.len() + tail_groups@.len() <= 8", "start == 8 - tail_groups@.len()",
                                       "forall|k: int| 0 <= k < head_groups@.len() ==> group_ok((#[trigger] head_groups@[k])@) && parts@[k] == hex16(head_groups@[k]@).unwrap()",
                                       "forall|k: int| 0 <= k < i ==> group_ok((#[trigger] tail_groups@[k])@) && parts@[start + k] == hex16(tail_groups@[k]@).unwrap()",
                                       "forall|k: int| head_groups@.len() <= k < 8 && !(start <= k < start + i) ==> parts@[k] == 0"], decreases="tail_groups@.len() - i")}),
        dict(kind="struct", file=AM, path="MacAddress"),
        dict(kind="fn", file=AM, path="MacAddress::from_str", ret="r", attrs=["#[verifier::loop_isolation(false)]"],
             ensures=[
                 "split_spec(s@, ':').len() != 6 ==> r is Err",
                 "r matches Ok(a) ==> split_spec(s@, ':').len() == 6 && hex8(split_spec(s@, ':')[0]) == Some(a.0) && hex8(split_spec(s@, ':')[1]) == Some(a.1) && hex8(split_spec(s@, ':')[2]) == Some(a.2) && hex8(split_spec(s@, ':')[3]) == Some(a.3) && hex8(split_spec(s@, ':')[4]) == Some(a.4) && hex8(split_spec(s@, ':')[5]) == Some(a.5)",
                 "(split_spec(s@, ':').len() == 6 && forall|k: int| 0 <= k < 6 ==> hex8(#[trigger] split_spec(s@, ':')[k]) is Some) ==> r is Ok",
             ], props=["C18"],
             rewrites=[
                 dict(rule="R3", re=r"s\.split\(':'\)\.collect\(\)", to="str_split(s, ':')", expect=1, why="split().collect() -> shim"),
                 dict(rule="R3", re=r"let mut bytes = \[0u8; 6\];", to="let mut bytes: [u8; 6] = [0u8, 0u8, 0u8, 0u8, 0u8, 0u8];", expect=1, why="array repeat expression -> explicit literal"),
                 dict(rule="R5", re=r"for \(i, part\) in parts\.iter\(\)\.enumerate\(\) (/\*@L0@\*/)\{(/\*@LB0@\*/)", to=r"let mut i: usize = 0; while i < parts.len() \1{ let part = parts[i]; \2", expect=1, why="enumerate -> index loop"),
                 dict(rule="R5", re=r"/\*@LE0@\*/", to=" i += 1; ", expect=1, why="index increment"),
                 dict(rule="R3", re=r"u8::from_str_radix\(part, 16\)", to="u8_from_hex(part)", expect=1, why="from_str_radix shim"),
                 dict(rule="R9", re=r"\n        Ok\(Self\(", to="\n        proof { assert(parts@[0]@ == split_spec(s@, ':')[0]); assert(parts@[1]@ == split_spec(s@, ':')[1]); assert(parts@[2]@ == split_spec(s@, ':')[2]); assert(parts@[3]@ == split_spec(s@, ':')[3]); assert(parts@[4]@ == split_spec(s@, ':')[4]); assert(parts@[5]@ == split_spec(s@, ':')[5]); } \n        Ok(Self(", expect=1, why="proof-only: segments restated over split_spec"),
                 dict(rule="R3", re=r"Ok\(value\) => bytes\[i\] = value,", to="Ok(value) => { bytes.set(i, value); }", expect=1, why="array IndexMut assignment -> set"),
             ],
             loops={0: dict(invariant=["i <= 6", "parts@.len() == 6", "forall|k: int| 0 <= k < i ==> hex8((#[trigger] parts@[k])@) == Some(bytes@[k])"], decreases="6 - i")}),
        dict(kind="struct", file=A4, path="Ipv4Address"),
        dict(kind="fn", file=A4, path="Ipv4Address::from_str", ret="r", attrs=["#[verifier::loop_isolation(false)]"],
             ensures=[
                 "split_spec(s@, '.').len() != 4 ==> r is Err",
                 "r matches Ok(a) ==> split_spec(s@, '.').len() == 4 && dec8(split_spec(s@, '.')[0]) == Some(a.0) && dec8(split_spec(s@, '.')[1]) == Some(a.1) && dec8(split_spec(s@, '.')[2]) == Some(a.2) && dec8(split_spec(s@, '.')[3]) == Some(a.3)",
                 "(split_spec(s@, '.').len() == 4 && forall|k: int| 0 <= k < 4 ==> dec8(#[trigger] split_spec(s@, '.')[k]) is Some) ==> r is Ok",
             ], props=["C18"],
             rewrites=[
                 dict(rule="R3", re=r"s\.split\('\.'\)\.collect\(\)", to="str_split(s, '.')", expect=1, why="split().collect() -> shim"),
                 dict(rule="R3", re=r"let mut bytes = \[0u8; 4\];", to="let mut bytes: [u8; 4] = [0u8, 0u8, 0u8, 0u8];", expect=1, why="array repeat expression -> explicit literal"),
                 dict(rule="R5", re=r"for \(i, part\) in parts\.iter\(\)\.enumerate\(\) (/\*@L0@\*/)\{(/\*@LB0@\*/)", to=r"let mut i: usize = 0; while i < parts.len() \1{ let part = parts[i]; \2", expect=1, why="enumerate -> index loop"),
                 dict(rule="R5", re=r"/\*@LE0@\*/", to=" i += 1; ", expect=1, why="index increment"),
                 dict(rule="R3", re=r"part\.parse::<u8>\(\)", to="u8_from_dec(part)", expect=1, why="str::parse::<u8> shim"),
                 dict(rule="R9", re=r"\n        Ok\(Self\(", to="\n        proof { assert(parts@[0]@ == split_spec(s@, '.')[0]); assert(parts@[1]@ == split_spec(s@, '.')[1]); assert(parts@[2]@ == split_spec(s@, '.')[2]); assert(parts@[3]@ == split_spec(s@, '.')[3]); } \n        Ok(Self(", expect=1, why="proof-only: segments restated over split_spec"),
                 dict(rule="R3", re=r"Ok\(value\) => bytes\[i\] = value,", to="Ok(value) => { bytes.set(i, value); }", expect=1, why="array IndexMut assignment -> set"),
             ],
             loops={0: dict(invariant=["i <= 4", "parts@.len() == 4", "forall|k: int| 0 <= k < i ==> dec8((#[trigger] parts@[k])@) == Some(bytes@[k])"], decreases="4 - i")}),
    ],
)
