global size_of usize == 8;

#[verifier::external_body] pub struct HMap { _p: () }
#[verifier::external_body] pub struct FileHandle { _p: () }
#[verifier::external_body] pub struct ErrorObj { _p: () }
#[verifier::external_body] pub struct Pcap { _p: () }
#[verifier::external_body] pub struct PcapPacket { _p: () }
#[verifier::external_body] pub struct Ethernet { _p: () }
#[verifier::external_body] pub struct Vlan { _p: () }
#[verifier::external_body] pub struct Ipv4Packet { _p: () }
#[verifier::external_body] pub struct Ipv6Packet { _p: () }
#[verifier::external_body] pub struct Udp { _p: () }
#[verifier::external_body] pub struct Tcp { _p: () }
#[verifier::external_body] pub struct BuiltinFunction { _p: () }
#[verifier::external_body] pub struct CompiledFunction { _p: () }
#[verifier::external_body] pub struct Closure { _p: () }

// what each layer's own serialiser (`From<&Layer> for Vec<u8>`, verified in the hdrser units and the headers harnesses)
// returns for a layer object; `.into()` on `&Layer` resolves to that impl by the type of the match binding (R10)
pub uninterp spec fn packet_bytes(p: &PcapPacket) -> Seq<u8>;
pub uninterp spec fn eth_bytes(p: &Ethernet) -> Seq<u8>;
pub uninterp spec fn vlan_bytes(p: &Vlan) -> Seq<u8>;
pub uninterp spec fn ipv4_bytes(p: &Ipv4Packet) -> Seq<u8>;
pub uninterp spec fn ipv6_bytes(p: &Ipv6Packet) -> Seq<u8>;
pub uninterp spec fn udp_bytes(p: &Udp) -> Seq<u8>;
pub uninterp spec fn tcp_bytes(p: &Tcp) -> Seq<u8>;
pub uninterp spec fn arr_bytes(p: &Array) -> Seq<u8>;
pub uninterp spec fn map_bytes(p: &HMap) -> Seq<u8>;
pub uninterp spec fn text_bytes(s: Seq<char>) -> Seq<u8>;
pub uninterp spec fn char_utf8(c: char) -> Seq<u8>;
pub uninterp spec fn i64_be(v: i64) -> Seq<u8>;
pub uninterp spec fn f64_be(v: f64) -> Seq<u8>;
#[verifier::external_body] pub fn ser_Packet(p: &Rc<PcapPacket>) -> (r: Vec<u8>) ensures r@ == packet_bytes(&**p) { unimplemented!() }
#[verifier::external_body] pub fn ser_Eth(p: &Rc<Ethernet>) -> (r: Vec<u8>) ensures r@ == eth_bytes(&**p) { unimplemented!() }
#[verifier::external_body] pub fn ser_Vlan(p: &Rc<Vlan>) -> (r: Vec<u8>) ensures r@ == vlan_bytes(&**p) { unimplemented!() }
#[verifier::external_body] pub fn ser_Ipv4(p: &Rc<Ipv4Packet>) -> (r: Vec<u8>) ensures r@ == ipv4_bytes(&**p) { unimplemented!() }
#[verifier::external_body] pub fn ser_Ipv6(p: &Rc<Ipv6Packet>) -> (r: Vec<u8>) ensures r@ == ipv6_bytes(&**p) { unimplemented!() }
#[verifier::external_body] pub fn ser_Udp(p: &Rc<Udp>) -> (r: Vec<u8>) ensures r@ == udp_bytes(&**p) { unimplemented!() }
#[verifier::external_body] pub fn ser_Tcp(p: &Rc<Tcp>) -> (r: Vec<u8>) ensures r@ == tcp_bytes(&**p) { unimplemented!() }
#[verifier::external_body] pub fn ser_Arr(p: &Rc<Array>) -> (r: Vec<u8>) ensures r@ == arr_bytes(&**p) { unimplemented!() }
#[verifier::external_body] pub fn ser_Map(p: &Rc<HMap>) -> (r: Vec<u8>) ensures r@ == map_bytes(&**p) { unimplemented!() }
#[verifier::external_body] pub fn str_bytes(s: &String) -> (r: Vec<u8>) ensures r@ == text_bytes(s@) { s.as_bytes().to_vec() }
#[verifier::external_body] pub fn char_bytes(c: char) -> (r: Vec<u8>) ensures r@ == char_utf8(c) { unimplemented!() }
#[verifier::external_body] pub fn i64_be_bytes(v: i64) -> (r: Vec<u8>) ensures r@ == i64_be(v) { v.to_be_bytes().to_vec() }
#[verifier::external_body] pub fn f64_be_bytes(v: f64) -> (r: Vec<u8>) ensures r@ == f64_be(v) { unimplemented!() }
#[verifier::external_body] pub fn bool_byte(b: bool) -> (r: u8) ensures r == (if b { 1u8 } else { 0u8 }) { b as u8 }

// the bytes an object contributes when it is written to a file or a pcap record
pub open spec fn obj_bytes(o: Object) -> Seq<u8> {
    match o {
        Object::Str(v) => text_bytes(v@),
        Object::Char(v) => char_utf8(v),
        Object::Byte(v) => seq![v],
        Object::Integer(v) => i64_be(v),
        Object::Float(v) => f64_be(v),
        Object::Bool(v) => seq![if v { 1u8 } else { 0u8 }],
        Object::Arr(v) => arr_bytes(&*v),
        Object::Map(v) => map_bytes(&*v),
        Object::Packet(v) => packet_bytes(&*v),
        Object::Eth(v) => eth_bytes(&*v),
        Object::Vlan(v) => vlan_bytes(&*v),
        Object::Ipv4(v) => ipv4_bytes(&*v),
        Object::Ipv6(v) => ipv6_bytes(&*v),
        Object::Udp(v) => udp_bytes(&*v),
        Object::Tcp(v) => tcp_bytes(&*v),
        _ => Seq::<u8>::empty(),
    }
}
