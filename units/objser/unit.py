"""C15 (Verus): `impl From<&Object> for Vec<u8>` on its real body - the one-line dispatch that hands a layer object to its own
serialiser when a packet or a header is written. Every layer variant (Packet, Eth, Vlan, Ipv4, Ipv6, Udp, Tcp) yields exactly
the bytes of that layer's `From<&Layer> for Vec<u8>` (the functions verified in the hdrser units), no variant is dropped or
routed to another layer's serialiser; scalars yield their documented bytes."""
OB = "src/object/mod.rs"
AR = "src/object/array.rs"

UNIT = dict(
    name="objser",
    prelude="units/objser/prelude.rs",
    uses="use std::rc::Rc;",
    lemmas={},
    global_rewrites=[dict(rule="R2", re=r"RefCell<((?:[^<>]|<(?:[^<>]|<[^<>]*>)*>)*)>", to=r"\1", why="RefCell erased")],
    items=[
        dict(kind="struct", file=AR, path="Array"),
        dict(kind="enum", file=OB, path="Object"),
        dict(kind="fn", file=OB, path="impl From<&Object> for Vec<u8>::from", free=True, rename="object_bytes", ret="r", props=["C15"],
             ensures=["r@ == obj_bytes(*obj)"],
             rewrites=[dict(rule="R10", re=r"-> /\*@RS@\*/Self", to="-> /*@RS@*/Vec<u8>", expect=1, why="trait impl -> free fn"),
                       dict(rule="R10", re=r"Object::(Arr|Map|Packet|Eth|Vlan|Ipv4|Ipv6|Udp|Tcp)\(v\) => v\.as_ref\(\)\.into\(\)", to=r"Object::\1(v) => ser_\1(v)", expect=9, strict=True,
                            why="`.into()` on `&T` resolves to `From<&T> for Vec<u8>` of the binding's own type T: named explicitly (the serialisers are behind the contracts proved in the hdrser units)"),
                       dict(rule="R3", re=r"Object::Str\(v\) => v\.as_bytes\(\)\.to_vec\(\)", to="Object::Str(v) => str_bytes(v)", expect=1, why="str bytes shim"),
                       dict(rule="R3", re=r"Object::Char\(v\) => v\.to_string\(\)\.as_bytes\(\)\.to_vec\(\)", to="Object::Char(v) => char_bytes(*v)", expect=1, why="UTF-8 of a char shim"),
                       dict(rule="R3", re=r"Object::Integer\(v\) => v\.to_be_bytes\(\)\.to_vec\(\)", to="Object::Integer(v) => i64_be_bytes(*v)", expect=1, why="const-generic std fn shim"),
                       dict(rule="R3", re=r"Object::Float\(v\) => v\.to_be_bytes\(\)\.to_vec\(\)", to="Object::Float(v) => f64_be_bytes(*v)", expect=1, why="const-generic std fn shim"),
                       dict(rule="R3", re=r"vec!\[\*v as u8\]", to="vec![bool_byte(*v)]", expect=1, why="bool-to-integer cast shim")]),
    ],
)
