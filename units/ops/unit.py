def h(name, props, clause, kind="complete", **kw):
    d = dict(name=name, props=props, kind=kind, clause=clause)
    d.update(kw)
    return d

UNIT = dict(
    name="ops",
    appends=[("src/object/mod.rs", "units/ops/harness.rs")],
    harnesses=[
        h("c09_add_model", ["C09", "C08"], "a + b on every scalar kind pair and payload: Byte mod 2^8, Integer mod 2^64, IEEE with a float operand; no panic"),
        h("c09_sub_model", ["C09", "C08"], "a - b, same model"),
        h("c09_mul_model", ["C09", "C08"], "a * b, same model"),
        h("c09_div_int_model", ["C09", "C08"], "integer/byte division by a non-zero divisor = wrapping_div (MIN / -1 = MIN), no panic"),
        h("c09_rem_int_model", ["C09", "C08"], "integer/byte remainder by a non-zero divisor = wrapping_rem (MIN % -1 = 0), no panic"),
        h("c09_div_float_model", ["C09"], "float division = IEEE division of the converted operands"),
        h("c09_rem_float_kind", ["C09"], "float remainder returns a Float (value not modelled: CBMC has no fmod)", kind="bounded", bound="result kind only"),
        h("c09_neg_model", ["C09", "C08"], "unary minus: wrapping_neg on integers, IEEE negation on floats"),
        h("c09_shift_bitwise_model", ["C09", "C08"], "<< >> with the amount modulo 64, & | ^ bitwise, on all i64 pairs; no panic"),
        h("c09_compare_model", ["C09"], "partial_cmp/>/>=: exact on integers and bytes, IEEE double compare with a float operand, consistent with =="),
        h("c09_compare_chars", ["C09"], "chars compare by code point, == is identity"),
        h("c09_compare_bool_null_unordered", ["C09"], "booleans and null are unordered"),
        h("c06_is_falsey_scalars", ["C06"], "is_falsey on every Bool/Integer/Float/Char/Byte value and Null equals the documented table"),
        h("c10_eq_implies_same_hash_scalars", ["C10"], "k1 == k2 implies identical hasher input, all pairs of scalar keys (Integer, Float, Byte, Char, Bool, Null)"),
    ],
    jobs=14,
)
