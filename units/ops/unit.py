def h(name, props, clause, kind="complete", **kw):
    d = dict(name=name, props=props, kind=kind, clause=clause)
    d.update(kw)
    return d

PAIRS = [("ii", "Integer x Integer"), ("ib", "Integer x Byte"), ("bi", "Byte x Integer"), ("bb", "Byte x Byte"),
         ("ff", "Float x Float"), ("if", "Integer x Float"), ("fi", "Float x Integer"), ("fb", "Float x Byte"), ("bf", "Byte x Float")]
_hs = []
for op, sym in [("add", "+"), ("sub", "-"), ("mul", "*"), ("div", "/")]:
    for k, desc in (PAIRS if op != "div" else PAIRS[3:]):
        _hs.append(h("c09_%s_%s" % (op, k), ["C09", "C08"],
                     "a %s b for %s, every payload%s: Byte mod 2^8, Integer mod 2^64 (wrapping), IEEE with a float operand; no panic"
                     % (sym, desc, " with a non-zero divisor" if op == "div" else ""),
                     # CBMC's float divider does not finish within the quick budget: value claim in the thorough tier only
                     thorough_only=(op == "div" and "f" in k)))
_hs.append(h("c09_rem_bb", ["C09", "C08"], "a % b for Byte x Byte with a non-zero divisor = wrapping_rem, no panic"))
for k, desc in PAIRS[:3]:
    _hs.append(h("c09_divrem_%s" % k, ["C09", "C08"], "a / b and a %% b for %s with a non-zero divisor: q*b + r == a (mod 2^64), |r| < |b|, r == 0 or sign(r) == sign(a) (truncated division, determines q and r uniquely; MIN / -1 = MIN); no panic" % desc,
                 thorough_only=(k != "bi")))
    _hs.append(h("c09_divrem_total_%s" % k, ["C09", "C08"], "a / b and a %% b for %s with a non-zero divisor never panic and yield an Integer (incl. MIN / -1)" % desc))
_hs.append(h("c09_div_min_by_minus_one", ["C09", "C08"], "MIN / -1 == MIN and MIN % -1 == 0"))
_hs.append(h("c09_div_float_kind", ["C09", "C08"], "float / on every float-involving kind pair: no panic, Float result (value claim: thorough tier)", kind="bounded", bound="result kind only in the quick tier"))

UNIT = dict(
    name="ops",
    appends=[("src/object/mod.rs", "units/ops/harness.rs")],
    harnesses=_hs + [
        h("c09_rem_float_kind", ["C09"], "float remainder returns a Float (value not modelled: CBMC has no fmod)", kind="bounded", bound="result kind only"),
        h("c09_is_zero_model", ["C09", "C08"], "Object::is_zero (the divide/modulo-by-zero guard) is true exactly for Integer 0, Byte 0 and Float +-0.0"),
        h("c09_neg_model", ["C09", "C08"], "unary minus: wrapping_neg on integers, IEEE negation on floats"),
        h("c09_shift_bitwise_model", ["C09", "C08"], "<< >> with the amount modulo 64, & | ^ bitwise, on all i64 pairs; no panic"),
        h("c09_compare_ii", ["C09"], "Integer x Integer: partial_cmp/>/>= exact, consistent with =="),
        h("c09_compare_ff", ["C09"], "Float x Float: IEEE compare, consistent with =="),
        h("c09_compare_if", ["C09"], "Integer x Float: compared as doubles, consistent with =="),
        h("c09_compare_fi", ["C09"], "Float x Integer: compared as doubles, consistent with =="),
        h("c09_compare_bb", ["C09"], "Byte x Byte: exact, consistent with =="),
        h("c09_compare_chars", ["C09"], "chars compare by code point, == is identity"),
        h("c09_compare_null_unordered", ["C09"], "null is unordered"),
        h("c08_total_order_pair_ii", ["C08", "C11"], "Object::total_order (sort's comparison) on Integer Integer : cmp(a, b) == cmp(b, a).reverse(), cmp(a, a) == Equal, every payload (NaN included)"),
        h("c08_total_order_pair_ff", ["C08", "C11"], "Object::total_order (sort's comparison) on Float Float : cmp(a, b) == cmp(b, a).reverse(), cmp(a, a) == Equal, every payload (NaN included)"),
        h("c08_total_order_pair_if", ["C08", "C11"], "Object::total_order (sort's comparison) on Integer Float : cmp(a, b) == cmp(b, a).reverse(), cmp(a, a) == Equal, every payload (NaN included)"),
        h("c08_total_order_triple_iii", ["C08", "C11"], "Object::total_order is transitive on every triple Integer Integer Integer  (so slice::sort never meets an inconsistent comparison)"),
        h("c08_total_order_triple_fff", ["C08", "C11"], "Object::total_order is transitive on every triple Float Float Float  (so slice::sort never meets an inconsistent comparison)"),
        h("c08_total_order_triple_iif", ["C08", "C11"], "Object::total_order is transitive on every triple Integer Integer Float  (so slice::sort never meets an inconsistent comparison)"),
        h("c08_total_order_triple_ifi", ["C08", "C11"], "Object::total_order is transitive on every triple Integer Float Integer  (so slice::sort never meets an inconsistent comparison)"),
        h("c08_total_order_triple_fii", ["C08", "C11"], "Object::total_order is transitive on every triple Float Integer Integer  (so slice::sort never meets an inconsistent comparison)"),
        h("c08_total_order_triple_iff", ["C08", "C11"], "Object::total_order is transitive on every triple Integer Float Float  (so slice::sort never meets an inconsistent comparison)"),
        h("c08_total_order_triple_fif", ["C08", "C11"], "Object::total_order is transitive on every triple Float Integer Float  (so slice::sort never meets an inconsistent comparison)"),
        h("c08_total_order_triple_ffi", ["C08", "C11"], "Object::total_order is transitive on every triple Float Float Integer  (so slice::sort never meets an inconsistent comparison)"),
        h("c11_total_order_agrees_with_less_than", ["C11"], "on two integers, two non-NaN floats, two bytes, two chars total_order is Less exactly when a < b; integer next to float: never contradicts the comparison as doubles"),
        h("c06_is_falsey_scalars", ["C06"], "is_falsey on every Bool/Integer/Float/Char/Byte value and Null equals the documented table"),
    ] + [h("c10_hash_%s" % n, ["C10"], "k1 == k2 implies identical hasher input, all %s key pairs" % n.replace("_", " x "))
         for n in ["int_int", "float_float", "int_float", "float_int", "byte_byte", "char_char", "bool_bool", "null_null"]],
    jobs=16,
)
