#[cfg(kani)]
mod verif_ops {
    use super::*;

    #[derive(Clone, Copy, PartialEq)]
    enum K { I, F, B }
    fn mk(k: K, i: i64, f: f64, b: u8) -> Object {
        match k { K::I => Object::Integer(i), K::F => Object::Float(f), K::B => Object::Byte(b) }
    }
    fn as_f(k: K, i: i64, f: f64, b: u8) -> f64 { match k { K::I => i as f64, K::F => f, K::B => b as f64 } }
    fn as_i(k: K, i: i64, b: u8) -> i64 { match k { K::I => i, K::B => b as i64, K::F => 0 } }
    fn any_kind() -> K { let x: u8 = kani::any(); kani::assume(x < 3); if x == 0 { K::I } else if x == 1 { K::F } else { K::B } }

    // C09 numeric model, one harness per operator and operand-kind pair (kinds concrete, payloads symbolic):
    //   Byte x Byte -> Byte modulo 2^8; Integer/Byte mixes and Integer x Integer -> Integer modulo 2^64;
    //   any Float operand -> IEEE double arithmetic on the operands converted to f64.
    // C08: no panic (overflow included). For / and % the divisor is non-zero (the VM rejects zero before
    // calling the operator, see vmcore::binary_op); MIN / -1 and MIN % -1 give the two's-complement result.
    macro_rules! arith {
        ($name:ident, $op:tt, $wi:ident, $wb:ident, $ka:expr, $kb:expr, $nz:expr) => {
            #[kani::proof]
            fn $name() {
                let (ka, kb) = ($ka, $kb);
                let (ia, ib): (i64, i64) = (kani::any(), kani::any());
                let (fa, fb): (f64, f64) = (kani::any(), kani::any());
                let (ba, bb): (u8, u8) = (kani::any(), kani::any());
                let (a, b) = (mk(ka, ia, fa, ba), mk(kb, ib, fb, bb));
                if $nz { kani::assume(!b.is_zero()); }
                let r = &a $op &b;
                if ka == K::F || kb == K::F {
                    let e = as_f(ka, ia, fa, ba) $op as_f(kb, ib, fb, bb);
                    match r { Object::Float(v) => assert!(v.to_bits() == e.to_bits() || (v.is_nan() && e.is_nan())), _ => assert!(false) }
                } else if ka == K::B && kb == K::B {
                    match r { Object::Byte(v) => assert!(v == ba.$wb(bb)), _ => assert!(false) }
                } else {
                    match r { Object::Integer(v) => assert!(v == as_i(ka, ia, ba).$wi(as_i(kb, ib, bb))), _ => assert!(false) }
                }
                kani::cover!(true);
            }
        };
    }
    macro_rules! arith_all {
        ($op:tt, $wi:ident, $wb:ident, $nz:expr, $ii:ident, $ib:ident, $bi:ident, $bb:ident, $ff:ident, $if_:ident, $fi:ident, $fb:ident, $bf:ident) => {
            arith!($ii, $op, $wi, $wb, K::I, K::I, $nz);
            arith!($ib, $op, $wi, $wb, K::I, K::B, $nz);
            arith!($bi, $op, $wi, $wb, K::B, K::I, $nz);
            arith!($bb, $op, $wi, $wb, K::B, K::B, $nz);
            arith!($ff, $op, $wi, $wb, K::F, K::F, $nz);
            arith!($if_, $op, $wi, $wb, K::I, K::F, $nz);
            arith!($fi, $op, $wi, $wb, K::F, K::I, $nz);
            arith!($fb, $op, $wi, $wb, K::F, K::B, $nz);
            arith!($bf, $op, $wi, $wb, K::B, K::F, $nz);
        };
    }
    arith_all!(+, wrapping_add, wrapping_add, false, c09_add_ii, c09_add_ib, c09_add_bi, c09_add_bb, c09_add_ff, c09_add_if, c09_add_fi, c09_add_fb, c09_add_bf);
    arith_all!(-, wrapping_sub, wrapping_sub, false, c09_sub_ii, c09_sub_ib, c09_sub_bi, c09_sub_bb, c09_sub_ff, c09_sub_if, c09_sub_fi, c09_sub_fb, c09_sub_bf);
    arith_all!(*, wrapping_mul, wrapping_mul, false, c09_mul_ii, c09_mul_ib, c09_mul_bi, c09_mul_bb, c09_mul_ff, c09_mul_if, c09_mul_fi, c09_mul_fb, c09_mul_bf);
    arith!(c09_div_bb, /, wrapping_div, wrapping_div, K::B, K::B, true);
    arith!(c09_rem_bb, %, wrapping_rem, wrapping_rem, K::B, K::B, true);
    arith!(c09_div_ff, /, wrapping_div, wrapping_div, K::F, K::F, true);
    arith!(c09_div_if, /, wrapping_div, wrapping_div, K::I, K::F, true);
    arith!(c09_div_fi, /, wrapping_div, wrapping_div, K::F, K::I, true);
    arith!(c09_div_fb, /, wrapping_div, wrapping_div, K::F, K::B, true);
    arith!(c09_div_bf, /, wrapping_div, wrapping_div, K::B, K::F, true);
    // 64-bit / and %: stated as the truncated-division law on the operator's own results (one divider in the
    // formula instead of an equivalence between two): q*b + r == a (mod 2^64), |r| < |b|, r == 0 or sign(r) == sign(a).
    // These three facts determine q and r uniquely (Euclid), including MIN / -1 = MIN, MIN % -1 = 0. No panic.
    fn check_divrem(ka: K, kb: K) {
        let (ia, ib): (i64, i64) = (kani::any(), kani::any());
        let (ba, bb): (u8, u8) = (kani::any(), kani::any());
        let (a, b) = (mk(ka, ia, 0.0, ba), mk(kb, ib, 0.0, bb));
        kani::assume(!b.is_zero());
        let (x, y) = (as_i(ka, ia, ba), as_i(kb, ib, bb));
        let q = match &a / &b { Object::Integer(v) => v, _ => { assert!(false); 0 } };
        let r = match &a % &b { Object::Integer(v) => v, _ => { assert!(false); 0 } };
        assert!(q.wrapping_mul(y).wrapping_add(r) == x);
        assert!(r == 0 || (r < 0) == (x < 0));
        assert!(r.unsigned_abs() < y.unsigned_abs());
        kani::cover!(r != 0);
    }
    // panic-freedom and result kind of / and % on every integer/byte operand pair with a non-zero divisor
    // (cheap: no value claim), including MIN / -1 and MIN % -1
    fn check_divrem_total(ka: K, kb: K) {
        let (ia, ib): (i64, i64) = (kani::any(), kani::any());
        let (ba, bb): (u8, u8) = (kani::any(), kani::any());
        let (a, b) = (mk(ka, ia, 0.0, ba), mk(kb, ib, 0.0, bb));
        kani::assume(!b.is_zero());
        assert!(matches!(&a / &b, Object::Integer(_)));
        assert!(matches!(&a % &b, Object::Integer(_)));
        kani::cover!(ka == K::B || (ia == i64::MIN && as_i(kb, ib, bb) == -1) || kb == K::B);
    }
    #[kani::proof] fn c09_divrem_total_ii() { check_divrem_total(K::I, K::I); }
    #[kani::proof] fn c09_divrem_total_ib() { check_divrem_total(K::I, K::B); }
    #[kani::proof] fn c09_divrem_total_bi() { check_divrem_total(K::B, K::I); }
    // the concrete corner: MIN / -1 == MIN and MIN % -1 == 0 (two's complement, no panic)
    #[kani::proof]
    fn c09_div_min_by_minus_one() {
        let (a, b) = (Object::Integer(i64::MIN), Object::Integer(-1));
        assert!(matches!(&a / &b, Object::Integer(i64::MIN)));
        assert!(matches!(&a % &b, Object::Integer(0)));
    }
    // float / : result kind and no panic on every float-involving pair (value: thorough tier, c09_div_f*)
    #[kani::proof]
    fn c09_div_float_kind() {
        let (fa, fb): (f64, f64) = (kani::any(), kani::any());
        assert!(matches!(&Object::Float(fa) / &Object::Float(fb), Object::Float(_)));
        assert!(matches!(&Object::Integer(kani::any()) / &Object::Float(fb), Object::Float(_)));
        assert!(matches!(&Object::Float(fa) / &Object::Integer(kani::any()), Object::Float(_)));
        assert!(matches!(&Object::Float(fa) / &Object::Byte(kani::any()), Object::Float(_)));
        assert!(matches!(&Object::Byte(kani::any()) / &Object::Float(fb), Object::Float(_)));
    }
    #[kani::proof] fn c09_divrem_ii() { check_divrem(K::I, K::I); }
    #[kani::proof] fn c09_divrem_ib() { check_divrem(K::I, K::B); }
    #[kani::proof] fn c09_divrem_bi() { check_divrem(K::B, K::I); }
    #[kani::proof]
    fn c09_rem_float_kind() {
        let (fa, fb): (f64, f64) = (kani::any(), kani::any());
        assert!(matches!(&Object::Float(fa) % &Object::Float(fb), Object::Float(_)));
        assert!(matches!(&Object::Integer(kani::any()) % &Object::Float(fb), Object::Float(_)));
        assert!(matches!(&Object::Float(fa) % &Object::Integer(kani::any()), Object::Float(_)));
        assert!(matches!(&Object::Float(fa) % &Object::Byte(kani::any()), Object::Float(_)));
        assert!(matches!(&Object::Byte(kani::any()) % &Object::Float(fb), Object::Float(_)));
    }

    // is_zero (the VM's divide/modulo-by-zero guard): exactly the zeros; any other float, however small, is not zero
    #[kani::proof]
    fn c09_is_zero_model() {
        let i: i64 = kani::any(); let f: f64 = kani::any(); let b: u8 = kani::any();
        assert!(Object::Integer(i).is_zero() == (i == 0));
        assert!(Object::Float(f).is_zero() == (f == 0.0));
        assert!(Object::Byte(b).is_zero() == (b == 0));
        assert!(!Object::Null.is_zero() && !Object::Bool(kani::any()).is_zero() && !Object::Char(kani::any()).is_zero());
        kani::cover!(f != 0.0 && f > -1e-300 && f < 1e-300);
    }

    // unary minus: two's complement on integers (MIN stays MIN), IEEE negation on floats
    #[kani::proof]
    fn c09_neg_model() {
        let i: i64 = kani::any();
        match -&Object::Integer(i) { Object::Integer(v) => assert!(v == i.wrapping_neg()), _ => assert!(false) }
        let f: f64 = kani::any();
        match -&Object::Float(f) { Object::Float(v) => assert!(v.to_bits() == (-f).to_bits()), _ => assert!(false) }
    }

    // shifts and bitwise operators on integers: shift amount taken modulo 64, never a panic
    #[kani::proof]
    fn c09_shift_bitwise_model() {
        let (a, b): (i64, i64) = (kani::any(), kani::any());
        let (oa, ob) = (Object::Integer(a), Object::Integer(b));
        match &oa << &ob { Object::Integer(v) => assert!(v == a.wrapping_shl((b & 63) as u32)), _ => assert!(false) }
        match &oa >> &ob { Object::Integer(v) => assert!(v == a.wrapping_shr((b & 63) as u32)), _ => assert!(false) }
        match &oa & &ob { Object::Integer(v) => assert!(v == a & b), _ => assert!(false) }
        match &oa | &ob { Object::Integer(v) => assert!(v == a | b), _ => assert!(false) }
        match &oa ^ &ob { Object::Integer(v) => assert!(v == a ^ b), _ => assert!(false) }
        kani::cover!(b == 64);
        kani::cover!(b == -1);
    }

    // relational model: two integers (or bytes) compare exactly; a float operand makes it an IEEE double compare
    fn model_cmp(ka: K, kb: K, ia: i64, ib: i64, fa: f64, fb: f64, ba: u8, bb: u8) -> Option<Ordering> {
        if ka == K::F || kb == K::F { as_f(ka, ia, fa, ba).partial_cmp(&as_f(kb, ib, fb, bb)) }
        else { Some(as_i(ka, ia, ba).cmp(&as_i(kb, ib, bb))) }
    }
    fn check_compare(ka: K, kb: K) {
        let (ia, ib): (i64, i64) = (kani::any(), kani::any());
        let (fa, fb): (f64, f64) = (kani::any(), kani::any());
        let (ba, bb): (u8, u8) = (kani::any(), kani::any());
        let (a, b) = (mk(ka, ia, fa, ba), mk(kb, ib, fb, bb));
        let m = model_cmp(ka, kb, ia, ib, fa, fb, ba, bb);
        assert!(a.partial_cmp(&b) == m);
        assert!((a > b) == (m == Some(Ordering::Greater)));
        assert!((a >= b) == (m == Some(Ordering::Greater) || m == Some(Ordering::Equal)));
        // consistency with ==
        if a == b { assert!(a <= b && a >= b && !(a < b) && !(a > b)); }
        kani::cover!(a == b);
    }
    #[kani::proof] fn c09_compare_ii() { check_compare(K::I, K::I); }
    #[kani::proof] fn c09_compare_ff() { check_compare(K::F, K::F); }
    #[kani::proof] fn c09_compare_if() { check_compare(K::I, K::F); }
    #[kani::proof] fn c09_compare_fi() { check_compare(K::F, K::I); }
    #[kani::proof] fn c09_compare_bb() { check_compare(K::B, K::B); }
    #[kani::proof]
    fn c09_compare_chars() {
        let (a, b): (char, char) = (kani::any(), kani::any());
        assert!(Object::Char(a).partial_cmp(&Object::Char(b)) == Some(a.cmp(&b)));
        assert!((Object::Char(a) == Object::Char(b)) == (a == b));
    }
    // null is unordered (ordering on booleans is rejected by the VM's operand-kind dispatch, see vmcore::binary_op)
    #[kani::proof]
    fn c09_compare_null_unordered() {
        assert!(!(Object::Null > Object::Null) && !(Object::Null >= Object::Null));
    }

    // C06: truthiness table on every scalar value
    #[kani::proof]
    fn c06_is_falsey_scalars() {
        let b: bool = kani::any(); let i: i64 = kani::any(); let f: f64 = kani::any(); let c: char = kani::any(); let y: u8 = kani::any();
        assert!(Object::Bool(b).is_falsey() == !b);
        assert!(Object::Integer(i).is_falsey() == (i == 0));
        assert!(Object::Float(f).is_falsey() == (f == 0.0));   // +0.0 and -0.0; NaN is truthy
        assert!(Object::Char(c).is_falsey() == (c == '\0'));
        assert!(Object::Byte(y).is_falsey() == (y == 0));
        assert!(Object::Null.is_falsey());
        kani::cover!(f.is_nan());
        kani::cover!(f == 0.0 && f.is_sign_negative());
    }

    // C10: equal valid scalar keys feed identical byte streams to the hasher
    struct Rec { buf: [u8; 24], n: usize }
    impl Hasher for Rec {
        fn finish(&self) -> u64 { 0 }
        fn write(&mut self, bytes: &[u8]) {
            let mut i = 0;
            while i < bytes.len() { if self.n < 24 { self.buf[self.n] = bytes[i]; } self.n += 1; i += 1; }
        }
    }
    fn rec(o: &Object) -> ([u8; 24], usize) { let mut h = Rec { buf: [0; 24], n: 0 }; o.hash(&mut h); (h.buf, h.n) }
    fn key(x: u8) -> Object {
        match x { 0 => Object::Integer(kani::any()), 1 => Object::Float(kani::any()), 2 => Object::Byte(kani::any()),
                  3 => Object::Char(kani::any()), 4 => Object::Bool(kani::any()), _ => Object::Null }
    }
    fn check_hash(x: u8, y: u8) {
        let (a, b) = (key(x), key(y));
        if a == b {
            let (ha, na) = rec(&a);
            let (hb, nb) = rec(&b);
            assert!(na == nb);
            assert!(ha == hb);
        }
    }
    // same-kind pairs and the only cross-kind pairs that can be equal (Integer/Float)
    #[kani::proof] #[kani::unwind(26)] fn c10_hash_int_int() { check_hash(0, 0); }
    #[kani::proof] #[kani::unwind(26)] fn c10_hash_float_float() { check_hash(1, 1); }
    #[kani::proof] #[kani::unwind(26)] fn c10_hash_int_float() { check_hash(0, 1); }
    #[kani::proof] #[kani::unwind(26)] fn c10_hash_float_int() { check_hash(1, 0); }
    #[kani::proof] #[kani::unwind(26)] fn c10_hash_byte_byte() { check_hash(2, 2); }
    #[kani::proof] #[kani::unwind(26)] fn c10_hash_char_char() { check_hash(3, 3); }
    #[kani::proof] #[kani::unwind(26)] fn c10_hash_bool_bool() { check_hash(4, 4); }
    #[kani::proof] #[kani::unwind(26)] fn c10_hash_null_null() { check_hash(5, 5); }

    // C08 / C11: Object::total_order (the comparison sort() uses) is a total preorder on all scalar values - so slice::sort
    // cannot meet an inconsistent comparison - and agrees with the language's '<' on values of one comparable kind
    use std::cmp::Ordering as O;
    fn num(k: u8) -> Object { if k == 0 { Object::Integer(kani::any()) } else { Object::Float(kani::any()) } }
    fn check_pair(a: Object, b: Object) {
        assert!(a.total_order(&b) == b.total_order(&a).reverse());
        assert!(a.total_order(&a) == O::Equal);
        kani::cover!(true);
    }
    fn check_triple(a: Object, b: Object, c: Object) {
        let (ab, bc, ac) = (a.total_order(&b), b.total_order(&c), a.total_order(&c));
        if ab != O::Greater && bc != O::Greater { assert!(ac != O::Greater); }
        if ab == O::Equal && bc == O::Equal { assert!(ac == O::Equal); }
        if ab == O::Less && bc != O::Greater { assert!(ac == O::Less); }
        kani::cover!(true);
    }
    // numbers: one harness per combination of kinds (payloads symbolic)
    #[kani::proof] fn c08_total_order_pair_ii() { check_pair(num(0), num(0)); }
    #[kani::proof] fn c08_total_order_pair_ff() { check_pair(num(1), num(1)); }
    #[kani::proof] fn c08_total_order_pair_if() { check_pair(num(0), num(1)); }
    #[kani::proof] fn c08_total_order_triple_iii() { check_triple(num(0), num(0), num(0)); }
    #[kani::proof] fn c08_total_order_triple_fff() { check_triple(num(1), num(1), num(1)); }
    #[kani::proof] fn c08_total_order_triple_iif() { check_triple(num(0), num(0), num(1)); }
    #[kani::proof] fn c08_total_order_triple_ifi() { check_triple(num(0), num(1), num(0)); }
    #[kani::proof] fn c08_total_order_triple_fii() { check_triple(num(1), num(0), num(0)); }
    #[kani::proof] fn c08_total_order_triple_iff() { check_triple(num(0), num(1), num(1)); }
    #[kani::proof] fn c08_total_order_triple_fif() { check_triple(num(1), num(0), num(1)); }
    #[kani::proof] fn c08_total_order_triple_ffi() { check_triple(num(1), num(1), num(0)); }
    #[kani::proof]
    fn c11_total_order_agrees_with_less_than() {
        let (ia, ib): (i64, i64) = (kani::any(), kani::any());
        let (fa, fb): (f64, f64) = (kani::any(), kani::any());
        let (ba, bb): (u8, u8) = (kani::any(), kani::any());
        let (ca, cb): (char, char) = (kani::any(), kani::any());
        assert!((Object::Integer(ia).total_order(&Object::Integer(ib)) == O::Less) == (ia < ib));
        if !fa.is_nan() && !fb.is_nan() { assert!((Object::Float(fa).total_order(&Object::Float(fb)) == O::Less) == (fa < fb)); }
        assert!((Object::Byte(ba).total_order(&Object::Byte(bb)) == O::Less) == (ba < bb));
        assert!((Object::Char(ca).total_order(&Object::Char(cb)) == O::Less) == (ca < cb));
        // integer next to float: the exact order never contradicts the comparison as doubles
        if !fb.is_nan() {
            let t = Object::Integer(ia).total_order(&Object::Float(fb));
            if t == O::Less { assert!((ia as f64) <= fb); }
            if t == O::Greater { assert!((ia as f64) >= fb); }
            if t == O::Equal { assert!((ia as f64) == fb); }
        }
        kani::cover!(true);
    }
}
