#[cfg(kani)]
mod verif_ops {
    use super::*;

    #[derive(Clone, Copy, PartialEq)]
    enum K { I, F, B }
    fn mk(k: K, i: i64, f: f64, b: u8) -> Object {
        match k { K::I => Object::Integer(i), K::F => Object::Float(f), K::B => Object::Byte(b) }
    }
    fn as_f(k: K, i: i64, f: f64, b: u8) -> f64 { match k { K::I => i as f64, K::F => f, K::B => b as f64 } }
    fn as_i(k: K, i: i64, b: u8) -> i64 { match k { K::I => i, K::B => b as i64, K::F => 0 } }
    fn any_kind() -> K { let x: u8 = kani::any(); kani::assume(x < 3); if x == 0 { K::I } else if x == 1 { K::F } else { K::B } }

    // C09 numeric model for + - * on every scalar kind pair and every payload:
    //   Byte x Byte -> Byte modulo 2^8; Integer/Byte mixes and Integer x Integer -> Integer modulo 2^64;
    //   any Float operand -> IEEE double arithmetic on the operands converted to f64.
    // C08: no panic (overflow included).
    macro_rules! arith {
        ($name:ident, $op:tt, $wi:ident, $wb:ident) => {
            #[kani::proof]
            fn $name() {
                let (ka, kb) = (any_kind(), any_kind());
                let (ia, ib): (i64, i64) = (kani::any(), kani::any());
                let (fa, fb): (f64, f64) = (kani::any(), kani::any());
                let (ba, bb): (u8, u8) = (kani::any(), kani::any());
                let (a, b) = (mk(ka, ia, fa, ba), mk(kb, ib, fb, bb));
                let r = &a $op &b;
                if ka == K::F || kb == K::F {
                    let e = as_f(ka, ia, fa, ba) $op as_f(kb, ib, fb, bb);
                    match r { Object::Float(v) => assert!(v.to_bits() == e.to_bits() || (v.is_nan() && e.is_nan())), _ => assert!(false) }
                } else if ka == K::B && kb == K::B {
                    match r { Object::Byte(v) => assert!(v == ba.$wb(bb)), _ => assert!(false) }
                } else {
                    match r { Object::Integer(v) => assert!(v == as_i(ka, ia, ba).$wi(as_i(kb, ib, bb))), _ => assert!(false) }
                }
                kani::cover!(ka == K::I && kb == K::I && ia == i64::MAX);
            }
        };
    }
    arith!(c09_add_model, +, wrapping_add, wrapping_add);
    arith!(c09_sub_model, -, wrapping_sub, wrapping_sub);
    arith!(c09_mul_model, *, wrapping_mul, wrapping_mul);

    // integer / and %: divisor != 0 (the VM rejects zero before calling the operator, see vmcore);
    // MIN / -1 and MIN % -1 give the two's-complement result, never a panic
    #[kani::proof]
    fn c09_div_int_model() {
        let (ka, kb) = (any_kind(), any_kind());
        kani::assume(ka != K::F && kb != K::F);
        let (ia, ib): (i64, i64) = (kani::any(), kani::any());
        let (ba, bb): (u8, u8) = (kani::any(), kani::any());
        let (a, b) = (mk(ka, ia, 0.0, ba), mk(kb, ib, 0.0, bb));
        kani::assume(!b.is_zero());
        let r = &a / &b;
        if ka == K::B && kb == K::B {
            match r { Object::Byte(v) => assert!(v == ba / bb), _ => assert!(false) }
        } else {
            match r { Object::Integer(v) => assert!(v == as_i(ka, ia, ba).wrapping_div(as_i(kb, ib, bb))), _ => assert!(false) }
        }
        kani::cover!(ka == K::I && kb == K::I && ia == i64::MIN && ib == -1);
    }
    #[kani::proof]
    fn c09_rem_int_model() {
        let (ka, kb) = (any_kind(), any_kind());
        kani::assume(ka != K::F && kb != K::F);
        let (ia, ib): (i64, i64) = (kani::any(), kani::any());
        let (ba, bb): (u8, u8) = (kani::any(), kani::any());
        let (a, b) = (mk(ka, ia, 0.0, ba), mk(kb, ib, 0.0, bb));
        kani::assume(!b.is_zero());
        let r = &a % &b;
        if ka == K::B && kb == K::B {
            match r { Object::Byte(v) => assert!(v == ba % bb), _ => assert!(false) }
        } else {
            match r { Object::Integer(v) => assert!(v == as_i(ka, ia, ba).wrapping_rem(as_i(kb, ib, bb))), _ => assert!(false) }
        }
        kani::cover!(ka == K::I && kb == K::I && ia == i64::MIN && ib == -1);
    }
    // float / : IEEE division of the converted operands (divisor zero is rejected by the VM before)
    #[kani::proof]
    fn c09_div_float_model() {
        let (ka, kb) = (any_kind(), any_kind());
        kani::assume(ka == K::F || kb == K::F);
        let (ia, ib): (i64, i64) = (kani::any(), kani::any());
        let (fa, fb): (f64, f64) = (kani::any(), kani::any());
        let (ba, bb): (u8, u8) = (kani::any(), kani::any());
        let (a, b) = (mk(ka, ia, fa, ba), mk(kb, ib, fb, bb));
        let r = &a / &b;
        let e = as_f(ka, ia, fa, ba) / as_f(kb, ib, fb, bb);
        match r { Object::Float(v) => assert!(v.to_bits() == e.to_bits() || (v.is_nan() && e.is_nan())), _ => assert!(false) }
    }
    // float % : result kind only (CBMC has no fmod model) - labelled bounded-by-tool
    #[kani::proof]
    fn c09_rem_float_kind() {
        let (ka, kb) = (any_kind(), any_kind());
        kani::assume(ka == K::F || kb == K::F);
        let (a, b) = (mk(ka, kani::any(), kani::any(), kani::any()), mk(kb, kani::any(), kani::any(), kani::any()));
        let r = &a % &b;
        assert!(matches!(r, Object::Float(_)));
    }

    // unary minus: two's complement on integers (MIN stays MIN), IEEE negation on floats
    #[kani::proof]
    fn c09_neg_model() {
        let i: i64 = kani::any();
        match -&Object::Integer(i) { Object::Integer(v) => assert!(v == i.wrapping_neg()), _ => assert!(false) }
        let f: f64 = kani::any();
        match -&Object::Float(f) { Object::Float(v) => assert!(v.to_bits() == (-f).to_bits()), _ => assert!(false) }
    }

    // shifts and bitwise operators on integers: shift amount taken modulo 64, never a panic
    #[kani::proof]
    fn c09_shift_bitwise_model() {
        let (a, b): (i64, i64) = (kani::any(), kani::any());
        let (oa, ob) = (Object::Integer(a), Object::Integer(b));
        match &oa << &ob { Object::Integer(v) => assert!(v == a.wrapping_shl((b & 63) as u32)), _ => assert!(false) }
        match &oa >> &ob { Object::Integer(v) => assert!(v == a.wrapping_shr((b & 63) as u32)), _ => assert!(false) }
        match &oa & &ob { Object::Integer(v) => assert!(v == a & b), _ => assert!(false) }
        match &oa | &ob { Object::Integer(v) => assert!(v == a | b), _ => assert!(false) }
        match &oa ^ &ob { Object::Integer(v) => assert!(v == a ^ b), _ => assert!(false) }
        kani::cover!(b == 64);
        kani::cover!(b == -1);
    }

    // relational model: two integers (or bytes) compare exactly; a float operand makes it an IEEE double compare
    fn model_cmp(ka: K, kb: K, ia: i64, ib: i64, fa: f64, fb: f64, ba: u8, bb: u8) -> Option<Ordering> {
        if ka == K::F || kb == K::F { as_f(ka, ia, fa, ba).partial_cmp(&as_f(kb, ib, fb, bb)) }
        else { Some(as_i(ka, ia, ba).cmp(&as_i(kb, ib, bb))) }
    }
    #[kani::proof]
    fn c09_compare_model() {
        let (ka, kb) = (any_kind(), any_kind());
        // Integer/Float mixes, and same-kind pairs (Byte only compares with Byte)
        kani::assume((ka == K::B) == (kb == K::B));
        let (ia, ib): (i64, i64) = (kani::any(), kani::any());
        let (fa, fb): (f64, f64) = (kani::any(), kani::any());
        let (ba, bb): (u8, u8) = (kani::any(), kani::any());
        let (a, b) = (mk(ka, ia, fa, ba), mk(kb, ib, fb, bb));
        let m = model_cmp(ka, kb, ia, ib, fa, fb, ba, bb);
        assert!(a.partial_cmp(&b) == m);
        assert!((a > b) == (m == Some(Ordering::Greater)));
        assert!((a >= b) == (m == Some(Ordering::Greater) || m == Some(Ordering::Equal)));
        // consistency with ==
        if a == b { assert!(a <= b && a >= b && !(a < b) && !(a > b)); }
        kani::cover!(ka == K::I && kb == K::F && a == b);
    }
    #[kani::proof]
    fn c09_compare_chars() {
        let (a, b): (char, char) = (kani::any(), kani::any());
        assert!(Object::Char(a).partial_cmp(&Object::Char(b)) == Some(a.cmp(&b)));
        assert!((Object::Char(a) == Object::Char(b)) == (a == b));
    }
    // ordering on booleans and null is not part of the model: never Greater/GreaterEq
    #[kani::proof]
    fn c09_compare_bool_null_unordered() {
        let (a, b): (bool, bool) = (kani::any(), kani::any());
        assert!(!(Object::Null > Object::Null) && !(Object::Null >= Object::Null));
        assert!(Object::Bool(a).partial_cmp(&Object::Bool(b)).is_none());
    }

    // C06: truthiness table on every scalar value
    #[kani::proof]
    fn c06_is_falsey_scalars() {
        let b: bool = kani::any(); let i: i64 = kani::any(); let f: f64 = kani::any(); let c: char = kani::any(); let y: u8 = kani::any();
        assert!(Object::Bool(b).is_falsey() == !b);
        assert!(Object::Integer(i).is_falsey() == (i == 0));
        assert!(Object::Float(f).is_falsey() == (f == 0.0));   // +0.0 and -0.0; NaN is truthy
        assert!(Object::Char(c).is_falsey() == (c == '\0'));
        assert!(Object::Byte(y).is_falsey() == (y == 0));
        assert!(Object::Null.is_falsey());
        kani::cover!(f.is_nan());
        kani::cover!(f == 0.0 && f.is_sign_negative());
    }

    // C10: equal valid scalar keys feed identical byte streams to the hasher
    struct Rec { buf: [u8; 24], n: usize }
    impl Hasher for Rec {
        fn finish(&self) -> u64 { 0 }
        fn write(&mut self, bytes: &[u8]) {
            let mut i = 0;
            while i < bytes.len() { if self.n < 24 { self.buf[self.n] = bytes[i]; } self.n += 1; i += 1; }
        }
    }
    fn rec(o: &Object) -> ([u8; 24], usize) { let mut h = Rec { buf: [0; 24], n: 0 }; o.hash(&mut h); (h.buf, h.n) }
    fn any_key() -> Object {
        let x: u8 = kani::any();
        kani::assume(x < 6);
        match x { 0 => Object::Integer(kani::any()), 1 => Object::Float(kani::any()), 2 => Object::Byte(kani::any()),
                  3 => Object::Char(kani::any()), 4 => Object::Bool(kani::any()), _ => Object::Null }
    }
    #[kani::proof]
    #[kani::unwind(10)]
    fn c10_eq_implies_same_hash_scalars() {
        let (a, b) = (any_key(), any_key());
        if a == b {
            let (ha, na) = rec(&a);
            let (hb, nb) = rec(&b);
            assert!(na == nb);
            assert!(ha == hb);
        }
        kani::cover!(matches!(a, Object::Integer(_)) && matches!(b, Object::Float(_)) && a == b);
    }
}
