UNIT = dict(
    name="codec",
    appends=[("src/code/opcode.rs", "units/codec/opcode_harness.rs")],
    harnesses=[
        dict(name="c14_opcode_u8_roundtrip", props=["C14"], kind="complete",
             clause="Opcode::from(u8) / u8::from(Opcode) inverse on 0..=47, Invalid elsewhere (all 256 bytes)"),
    ],
)
