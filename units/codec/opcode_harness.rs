#[cfg(kani)]
mod verif_codec {
    use super::*;

    // C14: Opcode::from(u8) and u8::from(Opcode) are mutually inverse on 0..=47 and every other
    // byte decodes to Invalid. Loop-free, full domain (all 256 bytes): complete.
    #[kani::proof]
    fn c14_opcode_u8_roundtrip() {
        let b: u8 = kani::any();
        let op = Opcode::from(b);
        if b <= 47 {
            assert!(op != Opcode::Invalid);
            assert!(u8::from(op) == b);
        } else {
            assert!(op == Opcode::Invalid);
        }
        kani::cover!(b == 47);
        kani::cover!(b == 48);
    }
}
