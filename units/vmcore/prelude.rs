global size_of usize == 8;

pub const STACK_SIZE: usize = 4096;
pub const MAX_FRAMES: usize = 4096;

// ---- representation invariant of the VM (C08) ----
pub open spec fn vm_wf(vm: &VM) -> bool {
    &&& vm.sp <= vm.stack@.len()
    &&& vm.stack@.len() == STACK_SIZE
    &&& vm.frames@.len() == MAX_FRAMES
    &&& 1 <= vm.frames_index <= vm.frames@.len()
    &&& vm.globals@.len() == 65536
    &&& vm.builtinvars@.len() == 256
}

// the invariant minus the stack-pointer bound (call_func raises sp before push_frame checks it)
pub open spec fn vm_wf_nosp(vm: &VM) -> bool {
    &&& 1 <= vm.frames_index <= vm.frames@.len()
    &&& vm.stack@.len() == STACK_SIZE
    &&& vm.frames@.len() == MAX_FRAMES
    &&& vm.globals@.len() == 65536
    &&& vm.builtinvars@.len() == 256
}

pub open spec fn same_shape(a: &VM, b: &VM) -> bool {
    &&& a.stack@.len() == b.stack@.len()
    &&& a.frames@.len() == b.frames@.len()
    &&& a.globals@ == b.globals@
    &&& a.builtinvars@ == b.builtinvars@
    &&& a.constants@ == b.constants@
}

#[verifier::external_body]
pub fn str_to_string(s: &str) -> (r: String) { s.to_string() }

#[verifier::external_body]
pub fn rc_null() -> (r: Rc<Object>)
    ensures *r == Object::Null
{ Rc::new(Object::Null) }

#[verifier::external_body]
pub fn fmt_any() -> (r: String) { String::new() }

// arbitrary builtin: any result (the builtins' own contracts are in the builtins units)
#[verifier::external_body]
pub fn call_builtin_fn(f: BuiltinFnId, args: Vec<Rc<Object>>) -> (r: Result<Rc<Object>, String>) { unimplemented!() }

#[verifier::external_body]
pub fn slice_to_vec(v: &Vec<Rc<Object>>, a: usize, b: usize) -> (r: Vec<Rc<Object>>)
    requires a <= b <= v@.len()
    ensures r@ =~= v@.subrange(a as int, b as int)
{ v[a..b].to_vec() }

// ---- C09 operator dispatch ----
// R7: the closures passed by the VM arms, identified by their text (see the vmarms unit table)
pub enum OpId { Add, Sub, Mul, Div, Mod, Gt, Ge, BitAnd, BitOr, BitXor, Shl, Shr }

pub open spec fn op_matches(t: BinaryOperation, op: OpId) -> bool {
    match t {
        BinaryOperation::Add => op is Add,
        BinaryOperation::Sub => op is Sub,
        BinaryOperation::Mul => op is Mul,
        BinaryOperation::Div => op is Div,
        BinaryOperation::Mod => op is Mod,
        BinaryOperation::Relational => op is Gt || op is Ge,
    }
}
pub open spec fn op_is_bitwise(op: OpId) -> bool { op is BitAnd || op is BitOr || op is BitXor || op is Shl || op is Shr }

pub open spec fn is_num(o: Object) -> bool { o is Integer || o is Float || o is Byte }
pub uninterp spec fn f64_zero(f: f64) -> bool;
pub open spec fn is_zero_spec(o: Object) -> bool {
    match o { Object::Integer(n) => n == 0, Object::Float(f) => f64_zero(f), Object::Byte(b) => b == 0, _ => false }
}
#[verifier::external_body]
pub fn f64_is_zero(f: f64) -> (r: bool) ensures r == f64_zero(f) { f == 0. }

// the domain on which the operator closures are panic-free (ops Kani harnesses c09_*_model):
// arithmetic on numeric pairs with a non-zero divisor for / and %; > and >= on anything
// (partial_cmp never panics); bitwise operators on two integers
pub open spec fn op_defined(op: OpId, a: Object, b: Object) -> bool {
    match op {
        OpId::Gt | OpId::Ge => true,
        OpId::Add | OpId::Sub | OpId::Mul => is_num(a) && is_num(b),
        OpId::Div | OpId::Mod => is_num(a) && is_num(b) && !is_zero_spec(b),
        _ => a is Integer && b is Integer,
    }
}
#[verifier::external_body]
pub fn apply_op(op: OpId, a: &Object, b: &Object) -> (r: Object)
    requires op_defined(op, *a, *b)
{ unimplemented!() }

// the operator x operand-kind table of C09 (every other combination must be a runtime error)
pub open spec fn op_table(t: BinaryOperation, l: Object, r: Object) -> bool {
    ||| (is_num(l) && is_num(r) && !((t is Div || t is Mod) && is_zero_spec(r)))
    ||| (l is Str && r is Str && (t is Add || t is Relational))
    ||| (l is Char && r is Char && (t is Add || t is Relational))
    ||| (l is Str && (r matches Object::Integer(n) && n >= 0) && t is Mul)
    ||| ((l matches Object::Integer(n) && n >= 0) && r is Str && t is Mul)
    ||| (l is Arr && r is Arr && t is Add)
}

#[verifier::external_body]
pub fn str_repeat(s: &String, n: usize) -> (r: String)
    requires n <= 0x7fff_ffff_ffff_ffff
{ s.repeat(n) }
#[verifier::external_body]
pub fn array_elements(a: &Rc<Array>) -> (r: Vec<Rc<Object>>) ensures r@ == a@ { unimplemented!() }
#[verifier::external_body]
pub fn array_new(v: Vec<Rc<Object>>) -> (r: Array) ensures r@ == v@ { unimplemented!() }
