global size_of usize == 8;

// ---- payload types the VM helpers treat as opaque (parametric in them) ----
#[verifier::external_body] pub struct Array { _p: () }
#[verifier::external_body] pub struct HMap { _p: () }
#[verifier::external_body] pub struct FileHandle { _p: () }
#[verifier::external_body] pub struct ErrorObj { _p: () }
#[verifier::external_body] pub struct Pcap { _p: () }
#[verifier::external_body] pub struct PcapPacket { _p: () }
#[verifier::external_body] pub struct Ethernet { _p: () }
#[verifier::external_body] pub struct Vlan { _p: () }
#[verifier::external_body] pub struct Ipv4Packet { _p: () }
#[verifier::external_body] pub struct Ipv6Packet { _p: () }
#[verifier::external_body] pub struct Udp { _p: () }
#[verifier::external_body] pub struct Tcp { _p: () }
#[verifier::external_body] pub struct BuiltinFunction { _p: () }

pub const STACK_SIZE: usize = 4096;
pub const MAX_FRAMES: usize = 4096;

// ---- representation invariant of the VM (C08) ----
pub open spec fn vm_wf(vm: &VM) -> bool {
    &&& vm.sp <= vm.stack@.len()
    &&& vm.stack@.len() == STACK_SIZE
    &&& vm.frames@.len() == MAX_FRAMES
    &&& 1 <= vm.frames_index <= vm.frames@.len()
    &&& vm.globals@.len() == 65536
    &&& vm.builtinvars@.len() == 256
}

// the invariant minus the stack-pointer bound (call_func raises sp before push_frame checks it)
pub open spec fn vm_wf_nosp(vm: &VM) -> bool {
    &&& 1 <= vm.frames_index <= vm.frames@.len()
    &&& vm.stack@.len() == STACK_SIZE
    &&& vm.frames@.len() == MAX_FRAMES
    &&& vm.globals@.len() == 65536
    &&& vm.builtinvars@.len() == 256
}

pub open spec fn same_shape(a: &VM, b: &VM) -> bool {
    &&& a.stack@.len() == b.stack@.len()
    &&& a.frames@.len() == b.frames@.len()
    &&& a.globals@ == b.globals@
    &&& a.builtinvars@ == b.builtinvars@
    &&& a.constants@ == b.constants@
}

#[verifier::external_body]
pub fn str_to_string(s: &str) -> (r: String) { s.to_string() }

#[verifier::external_body]
pub fn rc_null() -> (r: Rc<Object>)
    ensures *r == Object::Null
{ Rc::new(Object::Null) }

#[verifier::external_body]
pub fn fmt_any() -> (r: String) { String::new() }
