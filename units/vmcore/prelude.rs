global size_of usize == 8;

pub const STACK_SIZE: usize = 4096;
pub const MAX_FRAMES: usize = 4096;

// ---- representation invariant of the VM (C08) ----
pub open spec fn vm_wf(vm: &VM) -> bool {
    &&& vm.sp <= vm.stack@.len()
    &&& vm.stack@.len() == STACK_SIZE
    &&& vm.frames@.len() == MAX_FRAMES
    &&& 1 <= vm.frames_index <= vm.frames@.len()
    &&& vm.globals@.len() == 65536
    &&& vm.builtinvars@.len() == 256
}

// the invariant minus the stack-pointer bound (call_func raises sp before push_frame checks it)
pub open spec fn vm_wf_nosp(vm: &VM) -> bool {
    &&& 1 <= vm.frames_index <= vm.frames@.len()
    &&& vm.stack@.len() == STACK_SIZE
    &&& vm.frames@.len() == MAX_FRAMES
    &&& vm.globals@.len() == 65536
    &&& vm.builtinvars@.len() == 256
}

pub open spec fn same_shape(a: &VM, b: &VM) -> bool {
    &&& a.stack@.len() == b.stack@.len()
    &&& a.frames@.len() == b.frames@.len()
    &&& a.globals@ == b.globals@
    &&& a.builtinvars@ == b.builtinvars@
    &&& a.constants@ == b.constants@
}

#[verifier::external_body]
pub fn str_to_string(s: &str) -> (r: String) { s.to_string() }

#[verifier::external_body]
pub fn rc_null() -> (r: Rc<Object>)
    ensures *r == Object::Null
{ Rc::new(Object::Null) }

#[verifier::external_body]
pub fn fmt_any() -> (r: String) { String::new() }

// arbitrary builtin: any result (the builtins' own contracts are in the builtins units)
#[verifier::external_body]
pub fn call_builtin_fn(f: BuiltinFnId, args: Vec<Rc<Object>>) -> (r: Result<Rc<Object>, String>) { unimplemented!() }

#[verifier::external_body]
pub fn slice_to_vec(v: &Vec<Rc<Object>>, a: usize, b: usize) -> (r: Vec<Rc<Object>>)
    requires a <= b <= v@.len()
    ensures r@ =~= v@.subrange(a as int, b as int)
{ v[a..b].to_vec() }

// ---- C09 operator dispatch ----
// R7: the closures passed by the VM arms, identified by their text (see the vmarms unit table)
pub enum OpId { Add, Sub, Mul, Div, Mod, Gt, Ge, BitAnd, BitOr, BitXor, Shl, Shr }

pub open spec fn op_matches(t: BinaryOperation, op: OpId) -> bool {
    match t {
        BinaryOperation::Add => op is Add,
        BinaryOperation::Sub => op is Sub,
        BinaryOperation::Mul => op is Mul,
        BinaryOperation::Div => op is Div,
        BinaryOperation::Mod => op is Mod,
        BinaryOperation::Relational => op is Gt || op is Ge,
    }
}
pub open spec fn op_is_bitwise(op: OpId) -> bool { op is BitAnd || op is BitOr || op is BitXor || op is Shl || op is Shr }

pub open spec fn is_num(o: Object) -> bool { o is Integer || o is Float || o is Byte }
pub uninterp spec fn f64_zero(f: f64) -> bool;
pub open spec fn is_zero_spec(o: Object) -> bool {
    match o { Object::Integer(n) => n == 0, Object::Float(f) => f64_zero(f), Object::Byte(b) => b == 0, _ => false }
}
#[verifier::external_body]
pub fn f64_is_zero(f: f64) -> (r: bool) ensures r == f64_zero(f) { f == 0. }

// the domain on which the operator closures are panic-free (ops Kani harnesses c09_*_model):
// arithmetic on numeric pairs with a non-zero divisor for / and %; > and >= on anything
// (partial_cmp never panics); bitwise operators on two integers
pub open spec fn op_defined(op: OpId, a: Object, b: Object) -> bool {
    match op {
        OpId::Gt | OpId::Ge => true,
        OpId::Add | OpId::Sub | OpId::Mul => is_num(a) && is_num(b),
        OpId::Div | OpId::Mod => is_num(a) && is_num(b) && !is_zero_spec(b),
        _ => a is Integer && b is Integer,
    }
}
#[verifier::external_body]
pub fn apply_op(op: OpId, a: &Object, b: &Object) -> (r: Object)
    requires op_defined(op, *a, *b)
{ unimplemented!() }

// the operator x operand-kind table of C09 (every other combination must be a runtime error)
pub open spec fn op_table(t: BinaryOperation, l: Object, r: Object) -> bool {
    ||| (is_num(l) && is_num(r) && !((t is Div || t is Mod) && is_zero_spec(r)))
    ||| (l is Str && r is Str && (t is Add || t is Relational))
    ||| (l is Char && r is Char && (t is Add || t is Relational))
    ||| (l is Str && (r matches Object::Integer(n) && n >= 0) && t is Mul)
    ||| ((l matches Object::Integer(n) && n >= 0) && r is Str && t is Mul)
    ||| (l is Arr && r is Arr && t is Add)
}

#[verifier::external_body]
pub fn str_repeat(s: &String, n: usize) -> (r: String)
    requires n <= 0x7fff_ffff_ffff_ffff
{ s.repeat(n) }
#[verifier::external_body]
pub fn array_elements(a: &Rc<Array>) -> (r: Vec<Rc<Object>>) ensures r@ == a@ { unimplemented!() }
#[verifier::external_body]
pub fn array_new(v: Vec<Rc<Object>>) -> (r: Array) ensures r@ == v@ { unimplemented!() }

// ---- arm support ----
pub open spec fn u16_of_be(hi: u8, lo: u8) -> int { hi as int * 256 + lo as int }
#[verifier::external_body]
pub fn read_u16_be(v: &Vec<u8>, a: usize, b: usize) -> (r: u16)
    requires a + 2 <= v@.len(), b == a + 2 || b == v@.len()   // BigEndian::read_u16 reads the first two bytes of the slice
    ensures r as int == u16_of_be(v@[a as int], v@[a + 1])
{ unimplemented!() }
#[verifier::external_body]
pub fn two_bytes(v: &Vec<u8>, a: usize) -> (r: [u8; 2])
    requires a + 2 <= v@.len()
    ensures r[0] == v@[a as int], r[1] == v@[a + 1]
{ unimplemented!() }
#[verifier::external_body]
pub fn u16_from_be_bytes(b: [u8; 2]) -> (r: u16) ensures r as int == u16_of_be(b[0], b[1]) { u16::from_be_bytes(b) }

// C06: the documented truthiness table as a spec function; Object::is_falsey is verified against it below (all rows, containers
// of every length) and the scalar rows again on the compiled code by the ops harness c06_is_falsey_scalars
pub open spec fn is_falsey_spec(o: Object) -> bool {
    match o {
        Object::Bool(b) => !b, Object::Integer(n) => n == 0, Object::Null => true, Object::Float(v) => f64_zero(v), Object::Char(c) => c == '\0', Object::Byte(b) => b == 0,
        Object::Str(s) => s@.len() == 0, Object::Arr(a) => a@.len() == 0, Object::Map(m) => m.count() == 0,
        _ => false,
    }
}
impl HMap { pub uninterp spec fn count(&self) -> nat; }
#[verifier::external_body] pub fn string_is_empty(s: &String) -> (r: bool) ensures r == (s@.len() == 0) { s.is_empty() }
#[verifier::external_body] pub fn array_is_empty(a: &Rc<Array>) -> (r: bool) ensures r == (a@.len() == 0) { unimplemented!() }
#[verifier::external_body] pub fn hmap_is_empty(m: &Rc<HMap>) -> (r: bool) ensures r == (m.count() == 0) { unimplemented!() }
#[verifier::external_body]
pub fn obj_is_falsey(o: &Object) -> (r: bool) ensures r == is_falsey_spec(*o) { unimplemented!() }

#[verifier::external_body]
pub fn constants_get<'a>(v: &'a Vec<Rc<Object>>, i: usize, line: usize) -> (r: Result<&'a Rc<Object>, RTError>)
    ensures r is Ok <==> i < v@.len(), r matches Ok(x) ==> *x == v@[i as int], r matches Err(e) ==> e.line == line
{ unimplemented!() }

#[verifier::external_body]
pub fn obj_eq(a: &Rc<Object>, b: &Rc<Object>) -> (r: bool) { unimplemented!() }
pub open spec fn is_number_spec(o: Object) -> bool { o is Integer || o is Float }
#[verifier::external_body]
pub fn obj_is_number(o: &Rc<Object>) -> (r: bool) ensures r == is_number_spec(**o) { unimplemented!() }
// Neg for &Object panics outside Integer/Float (ops harness c09_neg_model proves it total on those)
#[verifier::external_body]
pub fn obj_neg(o: &Rc<Object>) -> (r: Object) requires is_number_spec(**o) { unimplemented!() }
#[verifier::external_body]
pub fn hmap_new(p: PairsMap) -> (r: HMap) { unimplemented!() }
#[verifier::external_body] pub struct PairsMap { _p: () }
// VM::build_map: copies stack[start..end] pairwise into a HashMap; rejects invalid keys with an error at `line`
// (this contract, and those of vm_exec_index_expr / vm_exec_dollar_expr below, are DISCHARGED on the real bodies by the vmindex unit)
#[verifier::external_body]
pub fn vm_build_map(vm: &VM, start: usize, end: usize, line: usize) -> (r: Result<PairsMap, RTError>)
    requires start <= end <= vm.sp, vm_wf(vm), (end - start) % 2 == 0   // compiler: Map's operand is twice the number of pairs
    ensures r matches Err(e) ==> e.line == line
{ unimplemented!() }
#[verifier::external_body]
pub fn vm_exec_index_expr(vm: &mut VM, left: Rc<Object>, index: Rc<Object>, setval: Option<Rc<Object>>, line: usize) -> (r: Result<(), RTError>)
    requires vm_wf(old(vm))
    ensures vm_wf(final(vm)), same_shape(old(vm), final(vm)), r matches Err(e) ==> e.line == line,
            final(vm).frames_index == old(vm).frames_index, final(vm).frames@ == old(vm).frames@
{ unimplemented!() }
#[verifier::external_body]
pub fn vm_exec_prop_expr(vm: &VM, left: Rc<Object>, prop: u8, setval: Option<Rc<Object>>, line: usize) -> (r: Result<Rc<Object>, RTError>)
    ensures r matches Err(e) ==> e.line == line
{ unimplemented!() }
#[verifier::external_body]
pub fn vm_exec_dollar_expr(vm: &mut VM, line: usize) -> (r: Result<(), RTError>)
    requires vm_wf(old(vm))
    ensures vm_wf(final(vm)), same_shape(old(vm), final(vm)), r matches Err(e) ==> e.line == line,
            final(vm).frames_index == old(vm).frames_index, final(vm).frames@ == old(vm).frames@
{ unimplemented!() }
#[verifier::external_body]
pub fn builtinfns_get(i: usize) -> (r: Option<&'static BuiltinFunction>) { unimplemented!() }
#[verifier::external_body]
pub fn clone_builtin(b: &BuiltinFunction) -> (r: BuiltinFunction) { unimplemented!() }
#[verifier::external_body]
pub fn closure_set_free(c: &Rc<Closure>, i: usize, v: Rc<Object>) requires i < c.free@.len() { unimplemented!() }
#[verifier::external_body]
pub fn clone_frame(f: &Frame) -> (r: Frame) ensures r == *f { unimplemented!() }
