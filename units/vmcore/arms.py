"""Opcode arms of VM::run, each extracted as a function (rule R8) and given a contract.
What an arm may assume (ARM_IN): the VM invariant, the fetched instruction, the operand bytes the encoder
wrote for this opcode (C14: make() emits 1 + sum(widths) bytes), and - where stated per arm - facts the
compiler is responsible for (stack discipline, indices of locals / constants / free variables)."""

I = "src/vm/interpreter.rs"

ARM_GLUE = '''
pub enum ArmExit { Next, Continue }   // Next: the loop tail `ip += 1` runs; Continue: the arm said `continue`
'''

ARM_PARAMS = "&mut self, instructions: &Rc<Instructions>, ip: usize, line: usize"


def ARM_IN(width):
    return ["vm_wf(old(self))", "ip + %d < instructions.code@.len()" % width, "instructions.code@.len() + 8 <= usize::MAX",
            "old(self).frames@[old(self).frames_index - 1].ip == ip"]


ARM_ERR = ["r is Err ==> r->Err_0.line == line"]

ARM_RW = [
    dict(rule="R8", re=r"\bcontinue;", to="return Ok(ArmExit::Continue);", why="`continue` of the dispatch loop -> arm exit code"),
    dict(rule="R3", re=r"BigEndian::read_u16\(&instructions\.code\[ip \+ 1\.\.\]\)", to="read_u16_be(&instructions.code, ip + 1, instructions.code.len())",
         why="byteorder read of an open-ended sub-slice -> shim (reads its first two bytes)"),
    dict(rule="R3", re=r"BigEndian::read_u16\(&instructions\.code\[([^\]]+?)\.\.([^\]]+?)\]\)", to=r"read_u16_be(&instructions.code, \1, \2)",
         why="byteorder read of a sub-slice -> shim with the slice bounds as precondition and the big-endian value as postcondition"),
    dict(rule="R3", re=r"let bytes = &instructions\.code\[ip \+ 1\.\.ip \+ 3\];", to="let bytes = two_bytes(&instructions.code, ip + 1);",
         why="2-byte sub-slice -> shim with the bounds as precondition"),
    dict(rule="R3", re=r"u16::from_be_bytes\(", to="u16_from_be_bytes(", why="const-generic std fn shim"),
    dict(rule="R3", re=r"(\w+)\.is_falsey\(\)", to=r"obj_is_falsey(&\1)", why="Object::is_falsey behind its contract (ops/C06 harness + uninterpreted spec)"),
]

# R7: the closures the arms pass to binary_op / bitwise_op, identified by their text
CLOSURES = {
    "Add": (r"\|a, b\| a \+ b", "OpId::Add"), "Sub": (r"\|a, b\| a - b", "OpId::Sub"), "Mul": (r"\|a, b\| a \* b", "OpId::Mul"),
    "Div": (r"\|a, b\| a / b", "OpId::Div"), "Mod": (r"\|a, b\| a % b", "OpId::Mod"),
    "Greater": (r"\|a, b\| Object::Bool\(a > b\)", "OpId::Gt"), "GreaterEq": (r"\|a, b\| Object::Bool\(a >= b\)", "OpId::Ge"),
    "And": (r"\|a, b\| a & b", "OpId::BitAnd"), "Or": (r"\|a, b\| a \| b", "OpId::BitOr"), "Xor": (r"\|a, b\| a \^ b", "OpId::BitXor"),
    "ShiftLeft": (r"\|a, b\| a << b", "OpId::Shl"), "ShiftRight": (r"\|a, b\| a >> b", "OpId::Shr"),
}


# operand widths per opcode: must equal the encoder's table (opcode_widths in units/bytecode/prelude.rs, which is
# verified against the real DEFINITIONS initialiser); checked when this module is loaded
WIDTHS = {}


def _check_widths():
    import os, re
    here = os.path.dirname(os.path.abspath(__file__))
    txt = open(os.path.join(here, "..", "bytecode", "prelude.rs")).read()
    body = txt[txt.index("pub open spec fn opcode_widths"):]
    body = body[:body.index("\n}\n")]
    table = {}
    for m in re.finditer(r"((?:Opcode::\w+\s*\|?\s*)+)=>\s*seq!\[([^\]]*)\]", body):
        ws = [int(x.strip().replace("usize", "")) for x in m.group(2).split(",") if x.strip()]
        for n in re.findall(r"Opcode::(\w+)", m.group(1)):
            table[n] = sum(ws)
    for n, w in WIDTHS.items():
        if table.get(n, 0) != w:
            raise RuntimeError("arm width table disagrees with the encoder spec for %s: %s vs %s" % (n, w, table.get(n, 0)))


def arm(name, width, ensures=None, requires=None, props=None, rewrites=None, **kw):
    WIDTHS[name] = width
    # C14: an arm that falls through to the loop tail leaves ip on the last operand byte the encoder wrote
    ensures = (ensures or []) + ["r matches Ok(ArmExit::Next) ==> final(self).frames_index == old(self).frames_index && final(self).frames@[final(self).frames_index - 1].ip == ip + %d" % width]
    d = dict(kind="arm", file=I, path="VM::run", arm="Opcode::" + name, impl="VM", fn_name="arm_" + name,
             params=ARM_PARAMS, ret="r", ret_ty="Result<ArmExit, RTError>", tail=" ; Ok(ArmExit::Next)",
             requires=ARM_IN(width) + (requires or []), ensures=ARM_ERR + (ensures or []),
             props=props or ["C08", "C13"], rewrites=(rewrites or []) + ARM_RW)
    d.update(kw)
    return d


IPF = "final(self).frames@[final(self).frames_index - 1].ip"
SAME_FRAME = "final(self).frames_index == old(self).frames_index"
OP16 = "u16_of_be(instructions.code@[ip + 1], instructions.code@[ip + 2])"
OP8 = "instructions.code@[ip + 1]"
TOP = "*old(self).stack@[old(self).sp - 1]"
SND = "*old(self).stack@[old(self).sp - 2]"
WFOK = "vm_wf(final(self))"


def binop(name):
    rx, tag = CLOSURES[name]
    return arm(name, 0, props=["C09", "C08", "C13"],
               ensures=[WFOK, "r is Ok ==> old(self).sp >= 2 && final(self).sp == old(self).sp - 1"] +
                       (["r is Ok ==> op_table(BinaryOperation::%s, %s, %s)" % ({"Greater": "Relational", "GreaterEq": "Relational"}.get(name, name), SND, TOP)]
                        if name in ("Add", "Sub", "Mul", "Div", "Mod", "Greater", "GreaterEq") else
                        ["r is Ok ==> (%s is Integer) && (%s is Integer)" % (SND, TOP)]),
               rewrites=[dict(rule="R7", re=rx, to=tag, expect=1, why="closure argument -> operator tag, by its text")])


ARMS = [
    arm("Pop", 0, ensures=["r is Ok ==> final(self).sp == old(self).sp - 1", WFOK]),
    arm("True", 0, ensures=[WFOK, "r is Ok ==> final(self).sp == old(self).sp + 1 && *final(self).stack@[old(self).sp as int] == Object::Bool(true)"]),
    arm("False", 0, ensures=[WFOK, "r is Ok ==> final(self).sp == old(self).sp + 1 && *final(self).stack@[old(self).sp as int] == Object::Bool(false)"]),
    arm("Null", 0, ensures=[WFOK, "r is Ok ==> final(self).sp == old(self).sp + 1 && *final(self).stack@[old(self).sp as int] == Object::Null"]),
    arm("Dup", 0, ensures=[WFOK, "r is Ok ==> final(self).sp == old(self).sp + 1"]),
    arm("Bang", 0, props=["C06", "C08", "C13"],
        ensures=[WFOK,
                 # C06: !v pushes Bool(falsey(v)) in place of v
                 "r is Ok ==> final(self).sp == old(self).sp && *final(self).stack@[final(self).sp - 1] == Object::Bool(is_falsey_spec(%s))" % TOP]),
    binop("Add"), binop("Sub"), binop("Mul"), binop("Div"), binop("Mod"), binop("Greater"), binop("GreaterEq"),
    binop("And"), binop("Or"), binop("Xor"), binop("ShiftLeft"), binop("ShiftRight"),
    arm("Equal", 0, ensures=[WFOK, "r is Ok ==> old(self).sp >= 2 && final(self).sp == old(self).sp - 1"],
        rewrites=[dict(rule="R3", re=r"a\.as_ref\(\) == b\.as_ref\(\)", to="obj_eq(&a, &b)", expect=1, why="PartialEq for Object -> shim (its contract is the ops/C09-C10 harnesses)")]),
    arm("NotEqual", 0, ensures=[WFOK, "r is Ok ==> old(self).sp >= 2 && final(self).sp == old(self).sp - 1"],
        rewrites=[dict(rule="R3", re=r"Object::Bool\(a != b\)", to="Object::Bool(!obj_eq(&a, &b))", expect=1, why="PartialEq for Rc<Object> (= Object's) -> shim")]),
    arm("Minus", 0, props=["C09", "C08", "C13"],
        ensures=[WFOK, "r is Ok ==> final(self).sp == old(self).sp && (%s is Integer || %s is Float)" % (TOP, TOP)],
        rewrites=[dict(rule="R3", re=r"self\.peek\(0\)\.is_number\(\)", to="obj_is_number(&self.peek(0))", expect=1, why="Object::is_number behind its definition (Integer | Float)"),
                  dict(rule="R3", re=r"-&\*obj", to="obj_neg(&obj)", expect=1, why="Neg for &Object -> shim whose precondition is the operator's panic-free domain (ops harness c09_neg_model)")]),
    arm("Not", 0, props=["C09", "C08", "C13"],
        ensures=[WFOK, "r is Ok ==> final(self).sp == old(self).sp && (%s matches Object::Integer(n) && *final(self).stack@[final(self).sp - 1] == Object::Integer(!n))" % TOP,
                 "!(%s is Integer) && old(self).sp > 0 ==> r is Err" % TOP],
        rewrites=[dict(rule="R4", re=r"Object::Integer\(!n\)", to="Object::Integer(!*n)", expect=1, why="`!` on &i64 -> explicit deref")]),
    arm("Jump", 2, props=["C14", "C08", "C13"],
        ensures=[WFOK, SAME_FRAME,
                 # C14: the 16-bit big-endian operand the encoder wrote is the jump target
                 "r matches Ok(ArmExit::Continue) && %s == %s" % (IPF, OP16)]),
    arm("JumpIfFalse", 2, props=["C14", "C06", "C08", "C13"],
        ensures=[WFOK, "r is Ok ==> final(self).sp == old(self).sp - 1",
                 # C06: jump iff the popped condition is falsey; otherwise skip the 2 operand bytes
                 "r matches Ok(ArmExit::Continue) ==> is_falsey_spec(%s) && %s == %s" % (TOP, IPF, OP16),
                 "r matches Ok(ArmExit::Next) ==> !is_falsey_spec(%s) && %s == ip + 2" % (TOP, IPF)]),
    arm("JumpIfFalseNoPop", 2, props=["C14", "C06", "C08", "C13"],
        ensures=[WFOK, "r is Ok ==> final(self).sp == old(self).sp && final(self).stack@ == old(self).stack@",
                 "r matches Ok(ArmExit::Continue) ==> is_falsey_spec(%s) && %s == %s" % (TOP, IPF, OP16),
                 "r matches Ok(ArmExit::Next) ==> !is_falsey_spec(%s) && %s == ip + 2" % (TOP, IPF)]),
    arm("Constant", 2, props=["C14", "C08", "C13"],
        ensures=[WFOK, "r is Ok ==> final(self).sp == old(self).sp + 1 && %s == ip + 2" % IPF,
                 "r is Ok ==> %s < old(self).constants@.len() && final(self).stack@[old(self).sp as int] == old(self).constants@[%s]" % (OP16, OP16)],
        rewrites=[dict(rule="R3", re=r"self\.constants\.get\(const_index\)\.ok_or_else\(\|\| \{.*?\}\)\?", to="constants_get(&self.constants, const_index, line)?", expect=1,
                       why="Vec::get().ok_or_else(closure) -> shim (closure-free), same result")]),
    arm("DefineGlobal", 2, props=["C14", "C04", "C08", "C13"],
        ensures=["vm_wf_nosp(final(self))", "r is Ok ==> final(self).sp == old(self).sp - 1 && %s == ip + 2" % IPF,
                 # globals are shared by reference: exactly slot [operand] changes
                 "r is Ok ==> final(self).globals@ == old(self).globals@.update(%s, old(self).stack@[old(self).sp - 1])" % OP16]),
    arm("GetGlobal", 2, props=["C14", "C04", "C08", "C13"],
        ensures=[WFOK, "r is Ok ==> final(self).sp == old(self).sp + 1 && %s == ip + 2 && final(self).stack@[old(self).sp as int] == old(self).globals@[%s]" % (IPF, OP16)]),
    arm("SetGlobal", 2, props=["C14", "C04", "C08", "C13"],
        ensures=["vm_wf_nosp(final(self))", "r is Ok ==> final(self).sp == old(self).sp && %s == ip + 2" % IPF,
                 "r is Ok ==> final(self).globals@ == old(self).globals@.update(%s, old(self).stack@[old(self).sp - 1])" % OP16]),
    arm("Array", 2, props=["C14", "C08", "C13"],
        requires=["%s <= old(self).sp" % OP16],   # compiler: the elements were pushed (stack discipline, C07)
        ensures=[WFOK, "r is Ok ==> final(self).sp == old(self).sp - %s + 1 && %s == ip + 2" % (OP16, IPF)],
        rewrites=[dict(rule="R3", re=r"Array::new\(elements\)", to="array_new(elements)", expect=1, why="opaque Array constructor shim")]),
    arm("Map", 2, props=["C14", "C08", "C13"],
        requires=["%s <= old(self).sp" % OP16, "(%s) %% 2 == 0" % OP16],   # compiler: keys and values were pushed in pairs
        ensures=[WFOK, "r is Ok ==> final(self).sp == old(self).sp - %s + 1 && %s == ip + 2" % (OP16, IPF)],
        rewrites=[dict(rule="R3", re=r"self\.build_map\(", to="vm_build_map(self, ", expect=1, why="build_map (HashMap insertion loop) behind a contract: Err carries the line, the VM is not changed"),
                  dict(rule="R3", re=r"HMap::new\(pairs\)", to="hmap_new(pairs)", expect=1, why="opaque HMap constructor shim")]),
    arm("Call", 1, props=["C14", "C08", "C13"],
        requires=["%s + 1 <= old(self).sp" % OP8,   # compiler: callee and arguments were pushed
                  "forall|i: int| 0 <= i < old(self).sp ==> (*#[trigger] old(self).stack@[i] matches Object::Clos(c) ==> c.func.num_locals <= 0xffff_ffff)"],
        ensures=["vm_wf_nosp(final(self))", "r is Ok ==> vm_wf(final(self))", "r is Ok ==> r matches Ok(ArmExit::Continue)"]),
    arm("ReturnValue", 0,
        requires=["old(self).frames_index >= 2",
                  # compiler: ReturnValue is emitted only inside function bodies (never in a filter scope), whose frames
                  # have the callee slot below bp
                  "old(self).frames@[old(self).frames_index - 1].bp >= 1", "old(self).frames@[old(self).frames_index - 1].bp <= old(self).stack@.len()"],
        ensures=["vm_wf_nosp(final(self))", "r is Ok ==> vm_wf(final(self)) && final(self).frames_index == old(self).frames_index - 1",
                 "r is Ok ==> final(self).sp == old(self).frames@[old(self).frames_index - 1].bp && final(self).stack@[final(self).sp - 1] == old(self).stack@[old(self).sp - 1]"]),
    arm("Return", 0,
        requires=["old(self).frames_index >= 2", "old(self).frames@[old(self).frames_index - 1].bp >= 1",
                  "old(self).frames@[old(self).frames_index - 1].bp <= old(self).stack@.len()"],
        ensures=["vm_wf_nosp(final(self))", "r is Ok ==> vm_wf(final(self)) && final(self).frames_index == old(self).frames_index - 1",
                 "r is Ok ==> final(self).sp == old(self).frames@[old(self).frames_index - 1].bp && *final(self).stack@[final(self).sp - 1] == Object::Null"]),
    arm("GetIndex", 0, ensures=[WFOK],
        rewrites=[dict(rule="R3", re=r"self\.exec_index_expr\(", to="vm_exec_index_expr(self, ", expect=1, why="index evaluation (Array/HMap interior mutability) behind a contract: Err carries the line, invariant kept")]),
    arm("SetIndex", 0, ensures=[WFOK],
        rewrites=[dict(rule="R3", re=r"self\.exec_index_expr\(", to="vm_exec_index_expr(self, ", expect=1, why="index evaluation behind a contract")]),
    arm("DefineLocal", 1, props=["C14", "C04", "C08", "C13"],
        # compiler: local slots lie inside the frame, which call_func/push_frame checked to fit the stack
        requires=["old(self).frames@[old(self).frames_index - 1].bp + %s < old(self).stack@.len()" % OP8],
        ensures=["vm_wf_nosp(final(self))", "r is Ok ==> final(self).sp == old(self).sp - 1 && %s == ip + 1" % IPF,
                 "r is Ok ==> final(self).stack@ == old(self).stack@.update(old(self).frames@[old(self).frames_index - 1].bp + %s, old(self).stack@[old(self).sp - 1])" % OP8]),
    arm("GetLocal", 1, props=["C14", "C04", "C08", "C13"],
        requires=["old(self).frames@[old(self).frames_index - 1].bp + %s < old(self).stack@.len()" % OP8],
        ensures=[WFOK, "r is Ok ==> final(self).sp == old(self).sp + 1 && %s == ip + 1" % IPF,
                 "r is Ok ==> final(self).stack@[old(self).sp as int] == old(self).stack@[old(self).frames@[old(self).frames_index - 1].bp + %s]" % OP8]),
    arm("SetLocal", 1, props=["C14", "C04", "C08", "C13"],
        requires=["old(self).frames@[old(self).frames_index - 1].bp + %s < old(self).stack@.len()" % OP8],
        ensures=["vm_wf_nosp(final(self))", "r is Ok ==> final(self).sp == old(self).sp && %s == ip + 1" % IPF,
                 "r is Ok ==> final(self).stack@ == old(self).stack@.update(old(self).frames@[old(self).frames_index - 1].bp + %s, old(self).stack@[old(self).sp - 1])" % OP8]),
    arm("GetBuiltinFn", 1, props=["C14", "C08", "C13"],
        ensures=[WFOK, "r is Ok ==> %s == ip + 1" % IPF],
        rewrites=[dict(rule="R6", re=r"BUILTINFNS\.get\(builtin_index\)", to="builtinfns_get(builtin_index)", expect=1, why="lazy_static lookup shim"),
                  dict(rule="R1", re=r"bt\.clone\(\)", to="clone_builtin(bt)", expect=1, why="derived Clone -> structural copy shim")]),
    arm("GetBuiltinVar", 1, props=["C14", "C08", "C13"],
        ensures=[WFOK, "r is Ok ==> final(self).sp == old(self).sp + 1 && %s == ip + 1 && final(self).stack@[old(self).sp as int] == old(self).builtinvars@[%s as int]" % (IPF, OP8)],
        rewrites=[dict(rule="R2", re=r"self\.builtinvars\.borrow\(\)\[builtin_index\]", to="self.builtinvars[builtin_index]", expect=1, why="RefCell erased")]),
    arm("Closure", 3, props=["C14", "C04", "C08", "C13"],
        # compiler: the constant exists and the captured values were pushed
        requires=["%s < old(self).constants@.len()" % OP16, "instructions.code@[ip + 3] <= old(self).sp"],
        ensures=[WFOK, "r is Ok ==> %s == ip + 3" % IPF,
                 # C04: the closure captures exactly the num_free topmost values, in order, at creation time
                 "r is Ok ==> (*final(self).stack@[final(self).sp - 1] matches Object::Clos(c) && c.free@ =~= old(self).stack@.subrange(old(self).sp - instructions.code@[ip + 3], old(self).sp as int))"]),
    arm("GetFree", 1, props=["C14", "C04", "C08", "C13"],
        requires=["%s < old(self).frames@[old(self).frames_index - 1].closure.free@.len()" % OP8],   # compiler: free index < number captured
        ensures=[WFOK, "r is Ok ==> final(self).sp == old(self).sp + 1 && %s == ip + 1" % IPF,
                 "r is Ok ==> final(self).stack@[old(self).sp as int] == old(self).frames@[old(self).frames_index - 1].closure.free@[%s as int]" % OP8],
        rewrites=[dict(rule="R2", re=r"curr_closure\.free\.borrow\(\)\[free_idx\]", to="curr_closure.free[free_idx]", expect=1, why="RefCell erased")]),
    arm("SetFree", 1, props=["C14", "C04", "C08", "C13"],
        requires=["%s < old(self).frames@[old(self).frames_index - 1].closure.free@.len()" % OP8],
        ensures=["vm_wf_nosp(final(self))", "r is Ok ==> final(self).sp == old(self).sp && %s == ip + 1" % IPF],
        rewrites=[dict(rule="R2", re=r"curr_closure\.free\.borrow_mut\(\)\[free_idx\] = self\.top\(0, line\)\?;", to="let verif_v = self.top(0, line)?; closure_set_free(&curr_closure, free_idx, verif_v);", expect=1,
                       why="assignment through Rc<..RefCell<Vec>> (interior mutability) -> shim with the index bound as precondition")]),
    arm("CurrClosure", 0, props=["C04", "C08", "C13"], ensures=[WFOK, "r is Ok ==> final(self).sp == old(self).sp + 1"]),
    arm("GetProp", 1, props=["C14", "C08", "C13"], ensures=[WFOK, "r is Ok ==> %s == ip + 1" % IPF],
        rewrites=[dict(rule="R3", re=r"self\.exec_prop_expr\(", to="vm_exec_prop_expr(self, ", expect=1, why="property evaluation (pktprop.rs) behind a contract: Err carries the line")]),
    arm("SetProp", 1, props=["C14", "C08", "C13"], ensures=[WFOK, "r is Ok ==> %s == ip + 1" % IPF],
        rewrites=[dict(rule="R3", re=r"self\.exec_prop_expr\(", to="vm_exec_prop_expr(self, ", expect=1, why="property evaluation behind a contract")]),
    arm("Dollar", 0, ensures=[WFOK],
        rewrites=[dict(rule="R3", re=r"self\.exec_dollar_expr\(", to="vm_exec_dollar_expr(self, ", expect=1, why="$n evaluation (pktprop.rs) behind a contract: Err carries the line")]),
    arm("Invalid", 0, ensures=["r is Err"],
        rewrites=[dict(rule="R3f", re=r"op as u8", to="0u8", expect=1, why="message argument dropped with the format! text")],
        params=ARM_PARAMS),
]

_check_widths()
