I = "src/vm/interpreter.rs"
FR = "src/vm/frame.rs"
ER = "src/vm/error.rs"
FN = "src/object/func.rs"
OB = "src/object/mod.rs"
DF = "src/code/definitions.rs"

RW = [
    dict(rule="R2", re=r"RefCell<((?:[^<>]|<(?:[^<>]|<[^<>]*>)*>)*)>", to=r"\1", why="RefCell erased: dynamic borrow flag dropped"),
    dict(rule="R3", re=r"self\.(stack|frames|globals)\[([^\]]+)\] = ([^;]+);", to=r"let verif_tmp = \3; self.\1.set(\2, verif_tmp);", why="Vec IndexMut assignment -> Vec::set (RHS evaluated first, as in Rust)"),
    dict(rule="R3", re=r"Rc::new\(Object::Null\)", to=r"rc_null()", why="Rc::new(Object::Null) shim"),
    dict(rule="R3f", re=r"&format!\((?:[^()]|\((?:[^()]|\([^()]*\))*\))*\)", to=r"&fmt_any()", why="format! message text dropped (no obligation depends on it)"),
    dict(rule="R3f", re=r"(?<!&)format!\((?:[^()]|\((?:[^()]|\([^()]*\))*\))*\)", to=r"fmt_any()", why="format! message text dropped (no obligation depends on it)"),
    dict(rule="R3", re=r"(\w+)\.as_ref\(\)", to=r"&*\1", why="Rc::as_ref -> deref"),
    dict(rule="R3", re=r"msg\.to_string\(\)", to=r"str_to_string(msg)", why="str::to_string shim"),
]

def m(path, **kw):
    d = dict(kind="fn", file=I, path="VM::" + path, props=["C08"])
    d.update(kw)
    return d

WF = ["vm_wf(old(self))"]

WFO = ["vm_wf(final(self))", "same_shape(old(self), final(self))"]

from .arms import ARMS, ARM_GLUE

UNIT = dict(
    name="vmcore",
    prelude=["units/common/objtypes.rs", "units/vmcore/prelude.rs"],
    uses="use std::rc::Rc;",
    global_rewrites=RW,
    lemmas={},
    items=[
        dict(kind="struct", file=DF, path="Instructions"),
        dict(kind="struct", file=FN, path="CompiledFunction"),
        dict(kind="struct", file=FN, path="Closure"),
        dict(kind="fn", file=FN, path="Closure::new", ret="r", ensures=["r.func == func", "r.free == free"], props=["C04"],
             rewrites=[dict(rule="R2", re=r"RefCell::new\(free\)", to="free", expect=1, why="RefCell erased")]),
        dict(kind="enum", file=OB, path="Object"),
        dict(kind="struct", file=ER, path="RTError"),
        dict(kind="fn", file=ER, path="RTError::new", ret="r", ensures=["r.line == line"], props=["C13"]),
        dict(kind="struct", file=FR, path="Frame", attrs=["#[derive(Clone)]"]),
        dict(kind="fn", file=FR, path="Frame::new", ret="r", ensures=["r.closure == closure", "r.ip == 0", "r.bp == bp"], props=["C08"]),
        dict(kind="enum", file=I, path="BinaryOperation"),
        dict(kind="fn", file=OB, path="Object::is_zero", ret="r", ensures=["r == is_zero_spec(*self)"], props=["C09", "C08"],
             rewrites=[dict(rule="R3", re=r"\*n == 0\.", to="f64_is_zero(*n)", expect=1, why="f64 comparison with 0.0 -> shim (IEEE: true for +0.0 and -0.0)")]),
        dict(kind="fn", file=OB, path="Object::is_falsey", ret="r", ensures=["r == is_falsey_spec(*self)"], props=["C06"],
             rewrites=[dict(rule="R3", re=r"\*v == 0\.", to="f64_is_zero(*v)", expect=1, why="f64 comparison with 0.0 -> shim (IEEE: true for +0.0 and -0.0)"),
                       dict(rule="R3", re=r"\bs\.is_empty\(\)", to="string_is_empty(s)", expect=1, why="String::is_empty shim"),
                       dict(rule="R2", re=r"\ba\.elements\.borrow\(\)\.is_empty\(\)", to="array_is_empty(a)", expect=1, why="RefCell<Vec>::is_empty through Rc -> shim over the array's view"),
                       dict(rule="R2", re=r"\bm\.pairs\.borrow\(\)\.is_empty\(\)", to="hmap_is_empty(m)", expect=1, why="RefCell<HashMap>::is_empty through Rc -> shim over the map's size")]),
        dict(kind="struct", file=I, path="VM"),
        m("peek", ret="r", requires=["vm_wf(self)", "distance <= self.sp"],
          ensures=["self.sp - distance > 0 ==> r == self.stack@[self.sp - distance - 1]", "self.sp - distance == 0 ==> *r == Object::Null"]),
        m("top", ret="r", requires=["vm_wf(self)", "distance <= self.sp"],
          ensures=["r is Err ==> r->Err_0.line == line", "r is Err <==> self.sp == distance",
                   "r matches Ok(x) ==> x == self.stack@[self.sp - distance - 1]"], props=["C08", "C13"]),
        m("push", ret="r", requires=WF, ensures=WFO + ["r is Err ==> r->Err_0.line == line && final(self).sp == old(self).sp",
                                                        "r is Ok <==> old(self).sp < old(self).stack@.len()",
                                                        "r is Ok ==> final(self).sp == old(self).sp + 1 && final(self).stack@ == old(self).stack@.update(old(self).sp as int, obj)",
                                                        "final(self).frames_index == old(self).frames_index", "final(self).frames@ == old(self).frames@"],
          props=["C08", "C13"]),
        m("pop", ret="r", requires=WF, ensures=WFO + ["r is Err ==> r->Err_0.line == line", "r is Err <==> old(self).sp == 0",
                                                       "r is Ok ==> final(self).sp == old(self).sp - 1 && r->Ok_0 == old(self).stack@[old(self).sp - 1]",
                                                       "final(self).stack@ == old(self).stack@",
                                                       "final(self).frames_index == old(self).frames_index", "final(self).frames@ == old(self).frames@"],
          props=["C08", "C13"]),
        m("last_popped", ret="r", requires=WF, ensures=["*final(self) == *old(self)"]),
        m("current_frame", ret="r", requires=["vm_wf_nosp(old(self))"],
          ensures=["*r == old(self).frames@[old(self).frames_index - 1]",
                   "final(self).frames@ == old(self).frames@.update(old(self).frames_index - 1, *final(r))",
                   "final(self).sp == old(self).sp", "final(self).stack@ == old(self).stack@", "final(self).frames_index == old(self).frames_index",
                   "final(self).globals@ == old(self).globals@", "final(self).builtinvars@ == old(self).builtinvars@",
                   "final(self).constants@ == old(self).constants@", "final(self).curr_pkt == old(self).curr_pkt"]),
        m("push_frame", ret="r", requires=["vm_wf_nosp(old(self))"],
          ensures=["vm_wf_nosp(final(self))", "same_shape(old(self), final(self))", "r is Ok ==> vm_wf(final(self))",
                   "r is Err ==> r->Err_0.line == line", "final(self).sp == old(self).sp", "final(self).stack@ == old(self).stack@",
                   "r is Ok ==> final(self).frames_index == old(self).frames_index + 1",
                   "r is Err ==> final(self).frames_index == old(self).frames_index"], props=["C08", "C13"]),
        m("pop_frame", ret="r", requires=["vm_wf_nosp(old(self))", "old(self).frames_index >= 2"],
          ensures=["vm_wf_nosp(final(self))", "same_shape(old(self), final(self))", "r == old(self).frames@[old(self).frames_index - 1]",
                   "final(self).frames_index == old(self).frames_index - 1", "final(self).frames@ == old(self).frames@",
                   "final(self).sp == old(self).sp", "final(self).stack@ == old(self).stack@"],
          rewrites=[dict(rule="R1", re=r"self\.frames\[self\.frames_index\]\.clone\(\)", to="clone_frame(&self.frames[self.frames_index])", expect=1, why="derived Clone -> structural copy shim")]),
        m("call_func", ret="r", requires=WF + ["num_args <= old(self).sp", "closure.func.num_locals <= 0xffff_ffff",
                                               "old(self).frames@[old(self).frames_index - 1].ip <= usize::MAX - 2"],
          ensures=["vm_wf_nosp(final(self))", "same_shape(old(self), final(self))", "r is Ok ==> vm_wf(final(self))",
                   "r is Err ==> r->Err_0.line == line"], props=["C08", "C13"]),
        m("push_filter_frame", ret="r", requires=WF + ["filter.num_locals <= 0xffff_ffff"],
          ensures=["vm_wf_nosp(final(self))", "same_shape(old(self), final(self))", "r is Ok ==> vm_wf(final(self))"]),
        m("pop_filter_frame", ret="r", requires=WF + ["old(self).frames_index >= 2"],
          ensures=["vm_wf_nosp(final(self))", "same_shape(old(self), final(self))",
                   # C06: the filter's verdict is the documented truthiness of the value the pattern left on the stack
                   "r matches Ok(b) ==> old(self).sp >= 1 && b == !is_falsey_spec(*old(self).stack@[old(self).sp - 1])"],
          props=["C08", "C06"],
          rewrites=[dict(rule="R3", re=r"(\w+)\.is_falsey\(\)", to=r"obj_is_falsey(&\1)", expect=1, why="Object::is_falsey behind its contract (ops/C06 harness + uninterpreted spec)")]),
        m("build_array", ret="r", requires=["vm_wf(self)", "start_index <= end_index <= self.sp"],
          ensures=["r@ =~= self.stack@.subrange(start_index as int, end_index as int)"], props=["C08", "C04"],
          loops={0: dict(invariant=["vm_wf(self)", "start_index <= end_index <= self.sp", "start_index <= i",
                                    "elements@ =~= self.stack@.subrange(start_index as int, i as int)"])}),
        m("push_closure", ret="r", requires=WF + ["const_idx < old(self).constants@.len()", "num_free <= old(self).sp"],
          ensures=WFO + ["r is Err ==> r->Err_0.line == line",
                         "final(self).frames_index == old(self).frames_index", "final(self).frames@ == old(self).frames@",
                         "r is Ok ==> final(self).sp == old(self).sp - num_free + 1",
                         "r is Ok ==> (*final(self).stack@[final(self).sp - 1] matches Object::Clos(c) && c.free@ =~= old(self).stack@.subrange(old(self).sp - num_free, old(self).sp as int))"],
          props=["C08", "C13", "C04"],
          loops={0: dict(invariant=["vm_wf(self)", "*self == *old(self)", "num_free <= self.sp",
                                    "free@ =~= self.stack@.subrange(self.sp - num_free, self.sp - num_free + i)"])}),
        m("call_builtin", ret="r", requires=WF + ["num_args + 1 <= old(self).sp", "old(self).frames@[old(self).frames_index - 1].ip <= usize::MAX - 2"],
          ensures=WFO + ["r is Err ==> r->Err_0.line == line"], props=["C08", "C13"],
          rewrites=[dict(rule="R3", re=r"self\.stack\[self\.sp - num_args\.\.self\.sp\]\.to_vec\(\)", to="slice_to_vec(&self.stack, self.sp - num_args, self.sp)", expect=1, why="slice.to_vec() shim with the slice bounds as precondition"),
                    dict(rule="R7", re=r"match builtin_func\(args\)", to="match call_builtin_fn(builtin_func, args)", expect=1, why="indirect call through a fn pointer -> dispatch shim (arbitrary result)")]),
        m("exec_call", ret="r", requires=WF + ["num_args + 1 <= old(self).sp", "old(self).frames@[old(self).frames_index - 1].ip <= usize::MAX - 2",
                                               "forall|i: int| 0 <= i < old(self).sp ==> (*#[trigger] old(self).stack@[i] matches Object::Clos(c) ==> c.func.num_locals <= 0xffff_ffff)"],
          ensures=["vm_wf_nosp(final(self))", "same_shape(old(self), final(self))", "r is Ok ==> vm_wf(final(self))", "r is Err ==> r->Err_0.line == line"],
          props=["C08", "C13"]),
        m("binary_op", ret="r",
          requires=WF + ["op_matches(optype, op)"],
          ensures=WFO + ["r is Err ==> r->Err_0.line == line",
                         "final(self).frames_index == old(self).frames_index", "final(self).frames@ == old(self).frames@",
                         "r is Ok ==> old(self).sp >= 2 && op_table(optype, *old(self).stack@[old(self).sp - 2], *old(self).stack@[old(self).sp - 1])",
                         "r is Ok ==> final(self).sp == old(self).sp - 1"],
          props=["C09", "C08", "C13"],
          rewrites=[dict(rule="R7", re=r"op: fn\(a: &Object, b: &Object\) -> Object,", to="op: OpId,", expect=1, why="fn-pointer parameter -> operator tag"),
                    dict(rule="R7", re=r"\bop\(&left, &right\)", to="apply_op(op, &left, &right)", expect=3, why="indirect call -> dispatch shim whose precondition is the operator's panic-free domain (proved by the ops Kani harnesses)"),
                    dict(rule="R3", re=r"s\.repeat\(\*n as usize\)", to="str_repeat(s, *n as usize)", expect=1, why="str::repeat shim: count must be a non-negative i64"),
                    dict(rule="R2", re=r"(\w)\.elements\.borrow\(\)\.clone\(\)", to=r"array_elements(\1)", expect=2, why="RefCell<Vec> clone -> shim"),
                    dict(rule="R3", re=r"Array::new\(e1\)", to="array_new(e1)", expect=1, why="opaque Array constructor shim")]),
        m("bitwise_op", ret="r", requires=WF + ["op_is_bitwise(op)"],
          ensures=WFO + ["r is Err ==> r->Err_0.line == line",
                         "final(self).frames_index == old(self).frames_index", "final(self).frames@ == old(self).frames@",
                         "r is Ok ==> old(self).sp >= 2 && (*old(self).stack@[old(self).sp - 2] is Integer) && (*old(self).stack@[old(self).sp - 1] is Integer)",
                         "r is Ok ==> final(self).sp == old(self).sp - 1"],
          props=["C09", "C08", "C13"],
          rewrites=[dict(rule="R7", re=r"op: fn\(a: &Object, b: &Object\) -> Object,", to="op: OpId,", expect=1, why="fn-pointer parameter -> operator tag"),
                    dict(rule="R7", re=r"\bop\(&left, &right\)", to="apply_op(op, &left, &right)", expect=1, why="indirect call -> dispatch shim")]),
        # ---------------- opcode arms of VM::run (R8: each arm body verified as a function) ----------------
        dict(kind="raw", label="arm_glue", text=ARM_GLUE),
    ] + ARMS + [
    ],
)


def scan_run_header(core):
    """C13 / C14: the arms of VM::run are verified one by one with `ip` and `line` as parameters; this scan pins the few lines of
    the dispatch loop around them: ip is the current frame's ip, the opcode and the line are read at that ip, neither is
    rebound inside run, and the loop tail advances ip by exactly one (past the last operand byte each arm leaves it on)."""
    import os, re
    path = os.path.join(core.REPO, "src/vm/interpreter.rs")
    if not os.path.exists(path):
        raise core.Undecided("lost anchor: src/vm/interpreter.rs")
    src = open(path).read()
    m = re.search(r"pub fn run\(&mut self\) -> Result<\(\), RTError> \{", src)
    if not m:
        raise core.Undecided("lost anchor: VM::run")
    # body of run: up to the next method at the same indentation
    end = src.find("\n    fn ", m.end())
    body = src[m.end():end if end > 0 else len(src)]
    hm = re.search(r"match op \{", body)
    if not hm:
        raise core.Undecided("lost anchor: `match op {` in VM::run")
    head = re.sub(r"//[^\n]*", "", body[:hm.start()])
    head = re.sub(r"#\[cfg\(feature = \"debug_trace_execution\"\)\]\s*\{[^}]*\}", "", head)
    norm = " ".join(head.split())
    want = ("while self.current_frame().ip < self.current_frame().instructions().len() { let ip = self.current_frame().ip; "
            "let instructions = self.current_frame().instructions().clone(); let op = Opcode::from(instructions.code[ip]); let line = instructions.lines[ip];")
    out = []
    out.append(("run-header", "VM::run fetches `ip` from the current frame, the opcode from code[ip] and the line from lines[ip], in a loop bounded by the instruction count",
                norm == want, "the loop header of VM::run reads: %s" % norm[:300]))
    rebinds = len(re.findall(r"\blet\s+(?:mut\s+)?(?:line|ip|op)\b", body))
    assigns = len(re.findall(r"(?<![.\w])(?<!let )(?<!let mut )(?:line|ip|op)\s*(?:\+|-)?=(?!=)", body))
    out.append(("run-no-rebinding", "`ip`, `op` and `line` are bound once per iteration and never reassigned inside VM::run", rebinds == 3 and assigns == 0,
                "%d bindings (expected 3) and %d assignments (expected 0) of ip / op / line inside VM::run" % (rebinds, assigns)))
    tail = " ".join(re.sub(r"//[^\n]*", "", body[body.rfind("Opcode::Invalid =>"):]).split())
    out.append(("run-tail", "after the dispatch the loop advances the current frame's ip by exactly one, then run returns Ok(())",
                bool(re.search(r"\} \} self\.current_frame\(\)\.ip \+= 1; \} Ok\(\(\)\) \}$", tail)), "the loop tail of VM::run reads: ...%s" % tail[-160:]))
    return out


scan_run_header.props = ["C13", "C14", "C08"]
scan_run_header.source = "src/vm/interpreter.rs"
UNIT["pyscans"] = UNIT.get("pyscans", []) + [scan_run_header]
