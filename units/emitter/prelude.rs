global size_of usize == 8;

// ---- types the emit helpers treat as opaque ----
#[verifier::external_body] pub struct Object { _p: () }
#[verifier::external_body] pub struct SymbolTable { _p: () }
#[verifier::external_body] pub struct CompiledFunction { _p: () }
#[verifier::external_body] pub struct LoopContext { _p: () }
#[verifier::external_body] pub struct Program { _p: () }

pub open spec fn opcode_widths(op: Opcode) -> Seq<usize> {
    match op {
        Opcode::Constant | Opcode::Jump | Opcode::JumpIfFalse | Opcode::JumpIfFalseNoPop
        | Opcode::DefineGlobal | Opcode::GetGlobal | Opcode::SetGlobal | Opcode::Array | Opcode::Map => seq![2usize],
        Opcode::Call | Opcode::DefineLocal | Opcode::GetLocal | Opcode::SetLocal | Opcode::GetBuiltinFn
        | Opcode::GetBuiltinVar | Opcode::GetFree | Opcode::SetFree | Opcode::GetProp | Opcode::SetProp => seq![1usize],
        Opcode::Closure => seq![2usize, 1usize],
        _ => Seq::<usize>::empty(),
    }
}
pub open spec fn sum_widths(ws: Seq<usize>) -> int
    decreases ws.len()
{
    if ws.len() == 0 { 0 } else { sum_widths(ws.drop_last()) + ws.last() as int }
}
pub open spec fn fits(w: usize, v: usize) -> bool { if w == 2 { v <= 0xffff } else { v <= 0xff } }
pub open spec fn min(a: int, b: int) -> int { if a < b { a } else { b } }

// every operand that make() would encode fits the width of its position
pub open spec fn fits_all(op: Opcode, operands: Seq<usize>) -> bool {
    forall|i: int| 0 <= i < min(operands.len() as int, opcode_widths(op).len() as int) ==> fits(#[trigger] opcode_widths(op)[i], operands[i])
}

pub open spec fn def_ok(op: Opcode, d: &Definition) -> bool { d.operand_widths@ =~= opcode_widths(op) }

// R6: DEFINITIONS.get(&op); contract = postcondition proved for the initializer in the bytecode unit
#[verifier::external_body]
pub fn definitions_get(op: &Opcode) -> (r: Option<&'static Definition>)
    ensures
        *op == Opcode::Invalid ==> r is None,
        *op != Opcode::Invalid ==> r is Some && def_ok(*op, r.unwrap()),
{ unimplemented!() }

// definitions::make and Opcode::from: contracts as proved on the real functions in the bytecode unit
// (a caller is checked against the callee's contract, not its body)
#[verifier::external_body]
pub fn make(op: Opcode, operands: &[usize], line: usize) -> (r: Instructions)
    ensures
        op == Opcode::Invalid ==> r.code@.len() == 0 && r.lines@.len() == 0,
        op != Opcode::Invalid && operands@.len() >= opcode_widths(op).len() ==> r.code@.len() == 1 + sum_widths(opcode_widths(op)),
        r.lines@.len() == r.code@.len() || operands@.len() < opcode_widths(op).len(),
        forall|i: int| 0 <= i < r.lines@.len() ==> r.lines@[i] == line,
{ unimplemented!() }

pub uninterp spec fn opcode_of_byte(b: u8) -> Opcode;
pub open spec fn opcode_at(i: Instructions, pos: int) -> Opcode { opcode_of_byte(i.code@[pos]) }
#[verifier::external_body]
pub fn opcode_from_u8(code: u8) -> (r: Opcode) ensures r == opcode_of_byte(code) { unimplemented!() }
#[verifier::external_body]
pub fn one(x: usize) -> (r: &'static [usize]) ensures r@ =~= seq![x] { unimplemented!() }
pub fn get_code_at(i: &Instructions, p: usize) -> (r: u8) requires p < i.code@.len() ensures r == i.code@[p as int] { i.code[p] }
pub fn get_lines_at(i: &Instructions, p: usize) -> (r: usize) requires p < i.lines@.len() ensures r == i.lines@[p as int] { i.lines[p] }

// R1: derived Clone on plain data = structural copy
#[verifier::external_body]
pub fn clone_instructions(i: &Instructions) -> (r: Instructions) ensures r == *i { unimplemented!() }
#[verifier::external_body]
pub fn clone_emitted(i: &EmittedInstruction) -> (r: EmittedInstruction) ensures r == *i { unimplemented!() }

#[verifier::external_body]
pub fn str_to_string(s: &str) -> (r: String) { s.to_string() }

#[verifier::external_body]
pub fn u8_to_vec(v: &Vec<u8>, n: usize) -> (r: Vec<u8>) requires n <= v@.len() ensures r@ =~= v@.subrange(0, n as int) { v[..n].to_vec() }
#[verifier::external_body]
pub fn usize_to_vec(v: &Vec<usize>, n: usize) -> (r: Vec<usize>) requires n <= v@.len() ensures r@ =~= v@.subrange(0, n as int) { v[..n].to_vec() }

// ---- compiler representation invariant needed by the helpers ----
pub open spec fn scope_wf(s: &CompilationScope) -> bool {
    s.instructions.lines@.len() == s.instructions.code@.len()
}
pub open spec fn cwf(c: &Compiler) -> bool {
    &&& c.scope_index < c.scopes@.len()
    &&& forall|i: int| 0 <= i < c.scopes@.len() ==> scope_wf(&#[trigger] c.scopes@[i])
}
pub open spec fn cur(c: &Compiler) -> Instructions { c.scopes@[c.scope_index as int].instructions }

// R7(ghost): compile_program is the unverified recursive descent through compile_*; it reaches the
// instruction stream only through emit/change_operand (verified below), and `encoding_error` is assigned
// nowhere else (frame scan obligation). The ghost result says whether any of those calls saw an operand
// that does not fit.
#[verifier::external_body]
pub fn compile_program_shim(c: &mut Compiler, program: Program) -> (r: (Result<(), CompileError>, Ghost<bool>))
    ensures r.1@ ==> final(c).encoding_error is Some
{ unimplemented!() }

pub open spec fn be16(v: u16) -> Seq<u8> { seq![(v / 256) as u8, (v % 256) as u8] }
#[verifier::external_body]
pub fn u16_to_be_bytes(v: u16) -> (r: [u8; 2]) ensures r@ == be16(v) { v.to_be_bytes() }
#[verifier::external_body]
pub fn copy_into(dst: &mut Vec<u8>, a: usize, b: usize, src: &[u8; 2])
    requires a <= b <= old(dst)@.len(), b - a == 2
    ensures final(dst)@ == old(dst)@.subrange(0, a as int) + src@ + old(dst)@.subrange(b as int, old(dst)@.len() as int)
{ dst[a..b].copy_from_slice(src); }
