C = "src/compiler/mod.rs"
CE = "src/compiler/error.rs"
DF = "src/code/definitions.rs"
O = "src/code/opcode.rs"

RW = [
    # std shapes that do not occur in the current code but are the obvious alternatives for the same job;
    # with them a rewritten function still reaches the verifier instead of ending as "unsupported"
    dict(rule="R3", re=r"\(([^()]+) as u16\)\.to_be_bytes\(\)", to=r"u16_to_be_bytes(\1 as u16)", why="const-generic std fn shim (big-endian bytes of a u16)"),
    dict(rule="R3", re=r"(\w+)\[([^\]]+?)\.\.([^\]]+?)\]\.copy_from_slice\(&([^;]+)\);", to=r"copy_into(\1, \2, \3, &\4);", why="range copy_from_slice -> shim with bounds as precondition"),
    dict(rule="R1", re=r"self\.scopes\[self\.scope_index\]\.instructions\.clone\(\)", to="clone_instructions(&self.scopes[self.scope_index].instructions)", why="derived Clone -> structural-copy shim"),
    dict(rule="R1", re=r"self\.scopes\[self\.scope_index\]\.(last_ins|prev_ins)\.clone\(\)", to=r"clone_emitted(&self.scopes[self.scope_index].\1)", why="derived Clone -> structural-copy shim"),
    dict(rule="R3", re=r"definitions::make\(", to="make(", why="module path dropped (single-file extraction)"),
    dict(rule="R3", re=r"definitions::operands_fit\(", to="operands_fit(", why="module path dropped"),
    dict(rule="R3", re=r"msg\.to_string\(\)", to="str_to_string(msg)", why="str::to_string shim"),
    dict(rule="R3", re=r"self\.scopes\[self\.scope_index\]\.(\w+(?:\.\w+)?) = ([^;]+);", to=r"let verif_tmp = \2; let verif_i = self.scope_index; let mut verif_sc = scope_take(&mut self.scopes, verif_i); verif_sc.\1 = verif_tmp; scope_put(&mut self.scopes, verif_i, verif_sc);", why="assignment to a field of a Vec element -> take/modify/put back (RHS evaluated first)"),
]

CW = ["cwf(old(self))"]

def m(path, **kw):
    d = dict(kind="fn", file=C, path="Compiler::" + path, props=["C14"])
    d.update(kw)
    return d

UNIT = dict(
    name="emitter",
    prelude="units/emitter/prelude.rs",
    uses="use std::rc::Rc;",
    lemmas={},
    global_rewrites=RW,
    items=[
        dict(kind="enum", file=O, path="Opcode", attrs=["#[derive(Clone, Copy, PartialEq, Eq)]"]),
        dict(kind="struct", file=DF, path="Definition"),
        dict(kind="struct", file=DF, path="Instructions"),
        dict(kind="fn", file=DF, path="Instructions::len", ret="r", ensures=["r == self.code@.len()"], props=["C14"]),
        dict(kind="struct", file=CE, path="CompileError"),
        dict(kind="fn", file=CE, path="CompileError::new", ret="r", ensures=["r.line == line"], props=["C14"]),
        dict(kind="struct", file=C, path="EmittedInstruction"),
        dict(kind="fn", file=C, path="EmittedInstruction::new", ret="r", ensures=["r.opcode == opcode", "r.position == position"], props=["C14"]),
        dict(kind="struct", file=C, path="CompilationScope"),
        dict(kind="struct", file=C, path="Compiler"),
        dict(kind="raw", label="scope_shims", text='''
#[verifier::external_body]
pub fn scope_take(v: &mut Vec<CompilationScope>, i: usize) -> (r: CompilationScope)
    requires i < old(v)@.len() ensures r == old(v)@[i as int], final(v)@.len() == old(v)@.len(),
             forall|j: int| 0 <= j < old(v)@.len() && j != i ==> final(v)@[j] == old(v)@[j]
{ unimplemented!() }
#[verifier::external_body]
pub fn scope_put(v: &mut Vec<CompilationScope>, i: usize, s: CompilationScope)
    requires i < old(v)@.len() ensures final(v)@ == old(v)@.update(i as int, s)
{ unimplemented!() }
'''),
        dict(kind="fn", file=DF, path="operands_fit", ret="r",
             ensures=["r == fits_all(op, operands@)"], props=["C14"],
             rewrites=[
                 dict(rule="R6", re=r"DEFINITIONS\.get\(&op\)", to="definitions_get(&op)", expect=1, why="lazy_static lookup shim"),
                 dict(rule="R5", re=r"for \(&o, width\) in operands\.iter\(\)\.zip\(def\.operand_widths\) (/\*@L0@\*/)\{(/\*@LB0@\*/)",
                      to=r"let zn = if operands.len() < def.operand_widths.len() { operands.len() } else { def.operand_widths.len() }; let mut zi: usize = 0; while zi < zn \1{ let o = operands[zi]; let width = def.operand_widths[zi]; zi += 1; \2",
                      expect=1, why="zip of two slices -> index loop over the shorter length, same order"),
             ],
             loops={0: dict(invariant=["def.operand_widths@ =~= opcode_widths(op)", "zn == min(operands@.len() as int, opcode_widths(op).len() as int)", "zi <= zn",
                                       "forall|i: int| 0 <= i < zi ==> fits(#[trigger] opcode_widths(op)[i], operands@[i])"],
                            decreases="zn - zi")}),
        m("get_curr_instructions", ret="r", requires=["cwf(self)"], ensures=["r == cur(self)"], props=["C14", "C13"]),
        m("check_operands", requires=CW,
          ensures=["cwf(final(self))", "fits_all(op, operands@) || final(self).encoding_error is Some",
                   "old(self).encoding_error is Some ==> final(self).encoding_error is Some",
                   "final(self).scopes == old(self).scopes", "final(self).scope_index == old(self).scope_index"]),
        m("add_instruction", ret="pos", requires=CW + ["ins.lines@.len() == ins.code@.len()"],
          ensures=["cwf(final(self))", "pos == cur(old(self)).code@.len()",
                   "cur(final(self)).code@ == cur(old(self)).code@ + ins.code@", "cur(final(self)).lines@ == cur(old(self)).lines@ + ins.lines@",
                   "final(self).encoding_error == old(self).encoding_error", "final(self).scope_index == old(self).scope_index",
                   "final(self).scopes@.len() == old(self).scopes@.len()"], props=["C14", "C13"]),
        m("set_last_instruction", requires=CW,
          ensures=["cwf(final(self))", "cur(final(self)) == cur(old(self))", "final(self).encoding_error == old(self).encoding_error",
                   "final(self).scope_index == old(self).scope_index"]),
        m("emit", ret="pos", requires=CW + ["operands@.len() >= opcode_widths(op).len()"],
          ensures=["cwf(final(self))",
                   # C14: an operand that does not fit its width is recorded, never silently truncated
                   "fits_all(op, operands@) || final(self).encoding_error is Some",
                   "old(self).encoding_error is Some ==> final(self).encoding_error is Some",
                   # C13: the emitted bytes carry the given line; earlier bytes and lines are untouched
                   "cur(final(self)).lines@.len() == cur(final(self)).code@.len()",
                   "cur(final(self)).code@.subrange(0, cur(old(self)).code@.len() as int) == cur(old(self)).code@",
                   "cur(final(self)).lines@.subrange(0, cur(old(self)).lines@.len() as int) == cur(old(self)).lines@",
                   "forall|i: int| cur(old(self)).lines@.len() <= i < cur(final(self)).lines@.len() ==> cur(final(self)).lines@[i] == line",
                   "pos == cur(old(self)).code@.len()"], props=["C14", "C13"]),
        m("replace_instruction", requires=CW + ["pos + new_instruction@.len() <= cur(old(self)).code@.len()", "cur(old(self)).code@.len() <= usize::MAX"],
          ensures=["cwf(final(self))", "cur(final(self)).lines@ == cur(old(self)).lines@", "cur(final(self)).code@.len() == cur(old(self)).code@.len()",
                   "forall|i: int| 0 <= i < cur(old(self)).code@.len() && !(pos <= i < pos + new_instruction@.len()) ==> cur(final(self)).code@[i] == cur(old(self)).code@[i]",
                   "final(self).encoding_error == old(self).encoding_error", "final(self).scope_index == old(self).scope_index"],
          props=["C13", "C14"],
          rewrites=[dict(rule="R5", re=r"for \(i, &byte\) in new_instruction\.iter\(\)\.enumerate\(\) (/\*@L0@\*/)\{(/\*@LB0@\*/)",
                         to=r"let mut i: usize = 0; while i < new_instruction.len() \1{ let byte = new_instruction[i]; \2", expect=1, why="enumerate over a slice -> index loop"),
                    dict(rule="R5", re=r"/\*@LE0@\*/", to=" i += 1; ", expect=1, why="index increment of the enumerate loop"),
                    dict(rule="R3", re=r"curr_ins\.code\[pos \+ i\] = byte;", to="curr_ins.code.set(pos + i, byte);", expect=1, why="Vec IndexMut assignment -> Vec::set")],
          loops={0: dict(invariant=["i <= new_instruction@.len()", "pos + new_instruction@.len() <= curr_ins.code@.len()", "pos + new_instruction@.len() <= usize::MAX",
                                    "curr_ins.lines@ == cur(old(self)).lines@", "curr_ins.code@.len() == cur(old(self)).code@.len()",
                                    "forall|k: int| 0 <= k < curr_ins.code@.len() && !(pos <= k < pos + i) ==> curr_ins.code@[k] == cur(old(self)).code@[k]"],
                         decreases="new_instruction@.len() - i")}),
        m("change_operand", requires=CW + ["op_pos < cur(old(self)).code@.len()", "cur(old(self)).code@.len() <= usize::MAX", "op_pos + 1 + sum_widths(opcode_widths(opcode_at(cur(old(self)), op_pos as int))) <= cur(old(self)).code@.len()",
                                           "opcode_widths(opcode_at(cur(old(self)), op_pos as int)).len() <= 1"],
          ensures=["cwf(final(self))", "cur(final(self)).lines@ == cur(old(self)).lines@",
                   "fits_all(opcode_at(cur(old(self)), op_pos as int), seq![operand]) || final(self).encoding_error is Some",
                   "old(self).encoding_error is Some ==> final(self).encoding_error is Some"],
          props=["C14", "C13"],
          rewrites=[dict(rule="R10", re=r"Opcode::from\(", to="opcode_from_u8(", expect=1, why="From<u8> for Opcode resolves to the extracted impl (bytecode unit)"),
                    dict(rule="R3", re=r"&\[operand\]", to="one(operand)", expect=2, why="one-element array literal to slice -> shim"),
                    dict(rule="R1", re=r"self\.get_curr_instructions\(\)\.(code|lines)\[op_pos\]", to=r"get_\1_at(&self.scopes[self.scope_index].instructions, op_pos)", expect=2, why="indexing a cloned copy -> indexing the original (clone is structural)")]),
        m("patch_jump", requires=CW + ["pos < cur(old(self)).code@.len()", "cur(old(self)).code@.len() <= usize::MAX",
                                       "pos + 1 + sum_widths(opcode_widths(opcode_at(cur(old(self)), pos as int))) <= cur(old(self)).code@.len()",
                                       "opcode_widths(opcode_at(cur(old(self)), pos as int)).len() <= 1"],
          ensures=["cwf(final(self))", "cur(final(self)).lines@ == cur(old(self)).lines@",
                   # C14: a jump target that does not fit 16 bits is recorded as a compile error
                   "fits_all(opcode_at(cur(old(self)), pos as int), seq![cur(old(self)).code@.len() as usize]) || final(self).encoding_error is Some",
                   "old(self).encoding_error is Some ==> final(self).encoding_error is Some"], props=["C14", "C13"]),
        m("remove_last_pop", requires=CW + ["old(self).scopes@[old(self).scope_index as int].last_ins.position <= cur(old(self)).code@.len()"],
          ensures=["cwf(final(self))",
                   "cur(final(self)).code@ == cur(old(self)).code@.subrange(0, old(self).scopes@[old(self).scope_index as int].last_ins.position as int)",
                   "cur(final(self)).lines@ == cur(old(self)).lines@.subrange(0, old(self).scopes@[old(self).scope_index as int].last_ins.position as int)",
                   "final(self).encoding_error == old(self).encoding_error"], props=["C13"],
          rewrites=[dict(rule="R3", re=r"old_ins\.code\[\.\.last_ins\.position\]\.to_vec\(\)", to="u8_to_vec(&old_ins.code, last_ins.position)", why="slice.to_vec() shim with the bound as precondition"),
                    dict(rule="R3", re=r"old_ins\.lines\[\.\.last_ins\.position\]\.to_vec\(\)", to="usize_to_vec(&old_ins.lines, last_ins.position)", why="slice.to_vec() shim with the bound as precondition")]),
        m("compile", ret="r", requires=CW,
          ensures=["r is Ok ==> final(self).encoding_error is None"], props=["C14"],
          rewrites=[dict(rule="R7", re=r"self\.compile_program\(pgm\)\?;", to="let (cp, ov) = compile_program_shim(self, pgm); cp?;", expect=1,
                         why="unverified recursive descent replaced by a shim that threads a ghost 'an operand did not fit' flag"),
                    dict(rule="R9", re=r"\n        Ok\(\(\)\)\n", to="\n        proof { assert(!ov@); } // C14: a program with an operand that does not fit is never accepted\n        Ok(())\n", expect=1,
                         why="proof-only assertion at the accepting exit")]),
    ],
    scans=[
        dict(file=C, regex=r"encoding_error\s*=[^=]", expect=1, props=["C14"],
             clause="`encoding_error` is assigned in exactly one place (check_operands): the frame condition assumed for compile_*"),
        dict(file=C, regex=r"encoding_error\.take\(\)", expect=1, props=["C14"],
             clause="`encoding_error` is consumed in exactly one place (compile)"),
        dict(file=C, regex=r"definitions::make\(", expect=3, props=["C14"],
             clause="make() is called only from emit, change_operand and replace_last_pop_with_return (no unchecked encoder call site)"),
    ],
)

def scan_emit_operand_counts(core):
    """C14: definitions::make zips the operands it is given with the opcode's operand widths, so a call site that passes FEWER
    operands than the opcode encodes would emit a short instruction. Every `self.emit(Opcode::X, &[..], ..)` in the compiler
    must pass at least as many operands as opcode_widths(X) (the table the bytecode unit verifies DEFINITIONS against)."""
    import os, re
    here = os.path.dirname(os.path.abspath(__file__))
    txt = open(os.path.join(here, "..", "bytecode", "prelude.rs")).read()
    body = txt[txt.index("pub open spec fn opcode_widths"):]
    body = body[:body.index("\n}\n")]
    widths = {}
    for m in re.finditer(r"((?:Opcode::\w+\s*\|?\s*)+)=>\s*seq!\[([^\]]*)\]", body):
        n = len([x for x in m.group(2).split(",") if x.strip()])
        for nm in re.findall(r"Opcode::(\w+)", m.group(1)):
            widths[nm] = n
    path = os.path.join(core.REPO, "src/compiler/mod.rs")
    if not os.path.exists(path):
        raise core.Undecided("lost anchor: src/compiler/mod.rs")
    src = open(path).read()
    src = src[:src.index("#[cfg(test)]")] if "#[cfg(test)]" in src else src
    calls = list(re.finditer(r"self\s*\.emit\(\s*Opcode::(\w+)\s*,\s*&\[((?:[^\[\]]|\[[^\]]*\])*)\]", src))
    total = len(re.findall(r"\.emit\(", src))
    out = []
    if len(calls) != total:
        raise core.Undecided("%d of %d emit call sites have an opcode / operand list that is not a literal (scan cannot judge them)" % (total - len(calls), total))
    bad = []
    for m in calls:
        ops = [x for x in re.split(r",(?![^()]*\))", m.group(2)) if x.strip()]
        need = widths.get(m.group(1), 0)
        if len(ops) < need:
            bad.append("line %d: Opcode::%s needs %d operand(s), %d given" % (src[:m.start()].count("\n") + 1, m.group(1), need, len(ops)))
    out.append(("emit-operand-counts", "every one of the %d emit call sites of the compiler passes at least as many operands as its opcode encodes" % len(calls), not bad and len(calls) > 50, "; ".join(bad) or "fewer than 50 call sites found"))
    return out


scan_emit_operand_counts.props = ["C14"]
scan_emit_operand_counts.source = "src/compiler/mod.rs"
UNIT["pyscans"] = [scan_emit_operand_counts]
