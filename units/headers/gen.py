"""Generates the per-layer Kani harness modules (C15/C16/C17) from one table of RFC field layouts.
The table is the oracle: it is transcribed from IEEE 802.3/802.1Q, RFC 791, 8200, 9293, 768 and the
pcap record header layout, not from the code."""

# field: (name, getter, setter|None, width_bits, spec expression over `raw` (slice) and `off`,
#         [(header byte index, mask)], kind)
LAYERS = {
    "udp": dict(ty="Udp", file="src/builtins/protocols/udp.rs", hdr=8, extra=4, maxoff=2,
        fields=[
            ("srcport", "get_source_port", "set_source_port", 16, "be16(raw, off)", [(0, 255), (1, 255)], "int"),
            ("dstport", "get_destination_port", "set_destination_port", 16, "be16(raw, off + 2)", [(2, 255), (3, 255)], "int"),
            ("length", "get_length", "set_length", 16, "be16(raw, off + 4)", [(4, 255), (5, 255)], "int"),
            ("checksum", "get_checksum", "set_checksum", 16, "be16(raw, off + 6)", [(6, 255), (7, 255)], "int"),
        ]),
    "vlan": dict(ty="Vlan", file="src/builtins/protocols/vlan.rs", hdr=4, extra=4, maxoff=2,
        fields=[
            ("priority", "get_priority", "set_priority", 3, "(raw[off] >> 5) as u64", [(0, 0xE0)], "int"),
            ("dei", "get_dei", "set_dei", 1, "((raw[off] >> 4) & 1) as u64", [(0, 0x10)], "bool"),
            ("vlan_id", "get_vlan_id", "set_vlan_id", 12, "(be16(raw, off) & 0x0FFF) as u64", [(0, 0x0F), (1, 255)], "int"),
            ("ethertype", "get_ethertype", "set_ethertype", 16, "be16(raw, off + 2)", [(2, 255), (3, 255)], "int"),
        ]),
    "ethernet": dict(ty="Ethernet", file="src/builtins/protocols/ethernet.rs", hdr=14, extra=4, maxoff=0,
        fields=[
            ("ethertype", "get_ethertype", "set_ethertype", 16, "be16(raw, off + 12)", [(12, 255), (13, 255)], "int"),
        ],
        raw_fields=[  # fields without an Integer getter: checked on the private header directly
            ("dest", "{ let h = t.header.borrow(); h.dest.0 == raw[off] && h.dest.1 == raw[off+1] && h.dest.2 == raw[off+2] && h.dest.3 == raw[off+3] && h.dest.4 == raw[off+4] && h.dest.5 == raw[off+5] }"),
            ("source", "{ let h = t.header.borrow(); h.source.0 == raw[off+6] && h.source.1 == raw[off+7] && h.source.2 == raw[off+8] && h.source.3 == raw[off+9] && h.source.4 == raw[off+10] && h.source.5 == raw[off+11] }"),
        ]),
    "ipv4": dict(ty="Ipv4Packet", file="src/builtins/protocols/ipv4.rs", hdr=20, extra=8, maxoff=1,
        # the serialiser copies an options vector whose length is 4*IHL-20: CBMC needs that length concrete, so the
        # serialising harnesses fix the first header byte (version 4; IHL 3 = malformed, 5 = no options, 6 and 7 = options)
        ser_first_bytes=[0x43, 0x45, 0x46, 0x47], set_first_bytes=[0x45, 0x46],
        # header length is max(20, 4*IHL): parse must fail exactly when that does not fit
        hdrlen_expr="{ let l = ((raw[off] & 0x0F) as usize) * 4; if l > 20 { l } else { 20 } }",
        fields=[
            ("version", "get_version", None, 4, "(raw[off] >> 4) as u64", [(0, 0xF0)], "int"),
            ("ihl", "get_ihl", "set_ihl", 4, "(raw[off] & 0x0F) as u64", [(0, 0x0F)], "int"),
            ("dscp", "get_dscp", "set_dscp", 6, "(raw[off + 1] >> 2) as u64", [(1, 0xFC)], "int"),
            ("ecn", "get_ecn", "set_ecn", 2, "(raw[off + 1] & 3) as u64", [(1, 0x03)], "int"),
            ("total_length", "get_total_length", "set_total_length", 16, "be16(raw, off + 2)", [(2, 255), (3, 255)], "int"),
            ("identification", "get_identification", "set_identification", 16, "be16(raw, off + 4)", [(4, 255), (5, 255)], "int"),
            ("flags", "get_flags", "set_flags", 3, "(raw[off + 6] >> 5) as u64", [(6, 0xE0)], "int"),
            ("fragment_offset", "get_fragment_offset", "set_fragment_offset", 13, "(be16(raw, off + 6) & 0x1FFF) as u64", [(6, 0x1F), (7, 255)], "int"),
            ("ttl", "get_ttl", "set_ttl", 8, "raw[off + 8] as u64", [(8, 255)], "int"),
            ("protocol", "get_protocol", "set_protocol", 8, "raw[off + 9] as u64", [(9, 255)], "int"),
            ("checksum", "get_checksum", "set_checksum", 16, "be16(raw, off + 10)", [(10, 255), (11, 255)], "int"),
        ],
        raw_fields=[
            ("source", "{ let h = t.header.borrow(); h.source.0 == raw[off+12] && h.source.1 == raw[off+13] && h.source.2 == raw[off+14] && h.source.3 == raw[off+15] }"),
            ("destination", "{ let h = t.header.borrow(); h.destination.0 == raw[off+16] && h.destination.1 == raw[off+17] && h.destination.2 == raw[off+18] && h.destination.3 == raw[off+19] }"),
        ]),
    "ipv6": dict(ty="Ipv6Packet", file="src/builtins/protocols/ipv6.rs", hdr=40, extra=2, maxoff=0,
        fields=[
            ("version", "get_version", None, 4, "(raw[off] >> 4) as u64", [(0, 0xF0)], "int"),
            ("traffic_class", "get_traffic_class", "set_traffic_class", 8, "((((raw[off] & 0x0F) as u64) << 4) | (raw[off + 1] >> 4) as u64)", [(0, 0x0F), (1, 0xF0)], "int"),
            ("flow_label", "get_flow_label", "set_flow_label", 20, "((((raw[off + 1] & 0x0F) as u64) << 16) | be16(raw, off + 2))", [(1, 0x0F), (2, 255), (3, 255)], "int"),
            ("payload_length", "get_payload_length", "set_payload_length", 16, "be16(raw, off + 4)", [(4, 255), (5, 255)], "int"),
            ("next_header", "get_next_header", "set_next_header", 8, "raw[off + 6] as u64", [(6, 255)], "int"),
            ("hop_limit", "get_hop_limit", "set_hop_limit", 8, "raw[off + 7] as u64", [(7, 255)], "int"),
        ],
        raw_fields=[
            ("source", "{ let h = t.header.borrow(); let s: Vec<u8> = (&h.source).into(); let i: usize = kani::any(); kani::assume(i < 16); let ok = s.len() == 16 && s[i] == raw[off + 8 + i]; std::mem::forget(s); ok }"),
            ("destination", "{ let h = t.header.borrow(); let s: Vec<u8> = (&h.destination).into(); let i: usize = kani::any(); kani::assume(i < 16); let ok = s.len() == 16 && s[i] == raw[off + 24 + i]; std::mem::forget(s); ok }"),
        ]),
}

PRELUDE = """
    fn be16(raw: &[u8], i: usize) -> u64 { ((raw[i] as u64) << 8) | raw[i + 1] as u64 }
    fn val_of(o: Rc<Object>) -> u64 {
        let v = match o.as_ref() {
            Object::Integer(v) => { assert!(*v >= 0); *v as u64 }
            Object::Bool(b) => *b as u64,
            _ => { assert!(false, "getter must return Integer or Bool"); 0 }
        };
        std::mem::forget(o);
        v
    }
"""


def gen_layer(key):
    L = LAYERS[key]
    ty, H, X, MO = L["ty"], L["hdr"], L["extra"], L["maxoff"]
    N = H + X + MO
    fields = L["fields"]
    nf = len(fields)
    hdrlen = L.get("hdrlen_expr", "%d" % H)
    offs = sorted(set([0, MO]))
    ser_vars = [("_b%02x" % b, "Some(0x%02x)" % b) for b in L["ser_first_bytes"]] if L.get("ser_first_bytes") else [("", "None")]
    set_vars = [("_b%02x" % b, "Some(0x%02x)" % b) for b in L["set_first_bytes"]] if L.get("set_first_bytes") else [("", "None")]
    out = []
    w = out.append
    w("#[cfg(kani)]\nmod verif_%s {\n    use super::*;\n%s" % (key, PRELUDE))
    w("    const N: usize = %d;\n" % N)
    w("    fn any_raw() -> ([u8; N], Rc<Vec<u8>>) {\n        let a: [u8; N] = kani::any();\n"
      "        (a, Rc::new(a.to_vec()))\n    }\n")
    w("    fn any_raw_at(off: usize, first: Option<u8>) -> ([u8; N], Rc<Vec<u8>>) {\n        let mut a: [u8; N] = kani::any();\n"
      "        if let Some(b) = first { a[off] = b; }\n        (a, Rc::new(a.to_vec()))\n    }\n")
    w("    fn snapshot(t: &%s) -> [u64; %d] {\n        [%s]\n    }\n" % (ty, nf, ", ".join("val_of(t.%s())" % f[1] for f in fields)))
    w("    fn field_spec(raw: &[u8], off: usize) -> [u64; %d] {\n        [%s]\n    }\n" % (nf, ", ".join("(%s) as u64" % f[4] for f in fields)))
    arms = []
    for k, f in enumerate(fields):
        for (bi, m) in f[5]:
            arms.append("            (%d, %d) => 0x%02X," % (k, bi, m))
    w("    fn field_mask(k: usize, i: usize) -> u8 {\n        match (k, i) {\n%s\n            _ => 0,\n        }\n    }\n" % "\n".join(arms))
    w("    fn field_width(k: usize) -> u32 { [%s][k] }\n" % ", ".join(str(f[3]) for f in fields))

    # C16 fields
    raws = "".join("                assert!(%s); // %s\n" % (e, n) for n, e in L.get("raw_fields", []))
    w("""
    // C16: every readable field of {ty}::from_bytes equals the RFC layout of the raw bytes
    fn check_fields(off: usize) {{
        let (a, rawrc) = any_raw();
        let raw: &[u8] = &a;
        let hl: usize = {hdrlen};
        let r = {ty}::from_bytes(rawrc.clone(), off);
        match &r {{
            Err(_) => assert!(N < off + hl),
            Ok(t) => {{
                assert!(N >= off + hl);
                let got = snapshot(t);
                let want = field_spec(raw, off);
                let k: usize = kani::any();
                kani::assume(k < {nf});
                assert!(got[k] == want[k]);
                assert!(t.offset == off + hl);
{raws}                kani::cover!(true);
            }}
        }}
        std::mem::forget(r);
    }}
{fields_proofs}

    // C16/C08: a truncated header is an error object, never a panic (every shortfall)
    #[kani::proof]
    fn c16_{key}_truncated_is_err() {{
        let a: [u8; {H1}] = kani::any();
        let off: usize = kani::any();
        kani::assume(off >= 2 && off <= 64);
        let r = {ty}::from_bytes(Rc::new(a.to_vec()), off);
        assert!(r.is_err());
        kani::cover!(off == 2);
        std::mem::forget(r);
    }}

    // C15: serialising a freshly parsed (read-only) layer returns the captured bytes from its start
    fn check_ro_serialise(off: usize, first: Option<u8>) {{
        let (a, rawrc) = any_raw_at(off, first);
        let r = {ty}::from_bytes(rawrc.clone(), off);
        if let Ok(t) = &r {{
            let out: Vec<u8> = t.into();
            assert!(out.len() == N - off);
            let i: usize = kani::any();
            kani::assume(i < out.len());
            assert!(out[i] == a[off + i]);
            kani::cover!(true);
            std::mem::forget(out);
        }}
        std::mem::forget(r);
    }}
{ser_proofs}
    // C15 (header half, complete over the header bytes): header bytes -> parse -> From<&Header> gives the same header bytes
    fn check_header_codec(first: Option<u8>) {{
        let (a, rawrc) = any_raw_at(0, first);
        let raw: &[u8] = &a;
        let off: usize = 0;
        let hl: usize = {hdrlen};
        let r = {ty}::from_bytes(rawrc.clone(), 0);
        if let Ok(t) = &r {{
            let h = t.header.borrow();
            let out: Vec<u8> = (&*h).into();
            assert!(out.len() == hl);
            let i: usize = kani::any();
            kani::assume(i < out.len());
            assert!(out[i] == a[i]);
            kani::cover!(true);
            std::mem::forget(out);
        }}
        std::mem::forget(r);
    }}
{hc_proofs}
""".format(ty=ty, key=key, hdrlen=hdrlen, nf=nf, raws=raws, MO=MO, H1=H + 1,
           fields_proofs="".join("    #[kani::proof] fn c16_%s_from_bytes_fields_off%d() { check_fields(%d); }\n" % (key, o, o) for o in offs),
           hc_proofs="".join("    #[kani::proof] fn c15_%s_header_codec%s() { check_header_codec(%s); }\n" % (key, vs, vr) for (vs, vr) in ser_vars),
           ser_proofs="".join("    #[kani::proof] fn c15_%s_ro_serialise_off%d%s() { check_ro_serialise(%d, %s); }\n" % (key, o, vs, o, vr) for o in offs for (vs, vr) in ser_vars)))

    # C17 setters
    w("""
    fn check_setter(k: usize, set: fn(&{ty}, Rc<Object>) -> Result<(), String>, is_bool: bool, first: Option<u8>) {{
        let (a, _) = any_raw_at(0, first);
        let r = {ty}::from_bytes(Rc::new(a.to_vec()), 0);
        if let Ok(t) = &r {{
            let before = snapshot(t);
            let v: i64 = kani::any();
            let val = Rc::new(if is_bool {{ kani::assume(v == 0 || v == 1); Object::Bool(v == 1) }} else {{ Object::Integer(v) }});
            let res = set(t, val.clone());
            std::mem::forget(val);
            let after = snapshot(t);
            let out: Vec<u8> = t.into();
            let w = field_width(k);
            let in_range = v >= 0 && v < (1i64 << w);
            let i: usize = kani::any();
            kani::assume(i < out.len() && i < N);
            let j: usize = kani::any();
            // j ranges over every field; the frame claim is stated for j != k (a layer may have a single field,
            // so `j != k` must not be assumed: that would leave no execution at all)
            kani::assume(j < {nf});
            if res.is_ok() {{
                // stored value is v reduced to the field width; v itself when in range
                assert!(after[k] == ((v as u64) & ((1u64 << w) - 1)));
                assert!(j == k || after[j] == before[j]);
                let r2 = {ty}::from_bytes(Rc::new(out), 0);
                match &r2 {{
                    Ok(t2) => {{
                        let again = snapshot(t2);
                        assert!(again[k] == after[k]);
                    }}
                    Err(_) => assert!({reparse_may_fail}),
                }}
                std::mem::forget(r2);
            }} else {{
                assert!(!in_range);
                assert!(after[k] == before[k] && after[j] == before[j]); // j == k included
                std::mem::forget(out);
            }}
            kani::cover!(in_range && res.is_ok());
            std::mem::forget(res);
        }}
        std::mem::forget(r);
    }}
    // serialised bytes differ from the captured ones only inside the assigned field's bit range
    fn check_setter_frame(k: usize, set: fn(&{ty}, Rc<Object>) -> Result<(), String>, is_bool: bool, first: Option<u8>) {{
        let (a, _) = any_raw_at(0, first);
        let r = {ty}::from_bytes(Rc::new(a.to_vec()), 0);
        if let Ok(t) = &r {{
            let v: i64 = kani::any();
            let val = Rc::new(if is_bool {{ kani::assume(v == 0 || v == 1); Object::Bool(v == 1) }} else {{ Object::Integer(v) }});
            let res = set(t, val.clone());
            std::mem::forget(val);
            std::mem::forget(res);
            let out: Vec<u8> = t.into();
            assert!(out.len() == N);
            let i: usize = kani::any();
            kani::assume(i < N);
            assert!((out[i] ^ a[i]) & !field_mask(k, i) == 0);
            std::mem::forget(out);
        }}
        std::mem::forget(r);
    }}
""".format(ty=ty, nf=nf, reparse_may_fail="true" if key == "ipv4" else "false"))
    names = []
    for k, f in enumerate(fields):
        if f[2] is None:
            continue
        isb = "true" if f[6] == "bool" else "false"
        for vi, (vs, vr) in enumerate(set_vars):
            tag = (" (first header byte fixed to %s)" % vr) if vs else ""
            if vi == 0:   # the value/re-parse claim does not depend on options being present: first variant only
                w("    #[kani::proof] fn c17_%s_%s_value%s() { check_setter(%d, %s::%s, %s, %s); }\n" % (key, f[2], vs, k, ty, f[2], isb, vr))
                names.append(("c17_%s_%s_value%s" % (key, f[2], vs), "%s::%s: stored value = v reduced to %d bits (v itself when in range) or Err with nothing changed; other getters unchanged; re-parse reads the same value%s" % (ty, f[2], f[3], tag)))
            w("    #[kani::proof] fn c17_%s_%s_frame%s() { check_setter_frame(%d, %s::%s, %s, %s); }\n" % (key, f[2], vs, k, ty, f[2], isb, vr))
            names.append(("c17_%s_%s_frame%s" % (key, f[2], vs), "%s::%s: serialised bytes differ from the captured bytes only inside bit range %s%s" % (ty, f[2], f[5], tag)))
    w("}\n")
    hs = [
        dict(name="c16_%s_from_bytes_fields_off%d" % (key, o), props=["C16"], kind="complete",
             clause="%s::from_bytes(raw, %d): every getter equals the RFC field; Err iff the header does not fit; payload offset = off + header length (all header bytes symbolic)" % (ty, o)) for o in offs] + [
        dict(name="c16_%s_truncated_is_err" % key, props=["C16", "C08"], kind="complete",
             clause="%s::from_bytes on a buffer one byte longer than the header with off in 2..=64: Err, no panic" % ty),
    ] + [dict(name="c15_%s_ro_serialise_off%d%s" % (key, o, vs), props=["C15"], kind="bounded", bound="payload <= %d bytes, off = %d%s" % (X + MO - o, o, (", first header byte " + vr) if vs else ""),
             clause="Vec::from(&%s::from_bytes(raw, %d)) == raw[%d..]" % (ty, o, o)) for o in offs for (vs, vr) in ser_vars
    ] + [dict(name="c15_%s_header_codec%s" % (key, vs), props=["C15"], kind="complete",
              clause="From<&%sHeader>(parse(header bytes)) == the header bytes, for every header content%s" % (ty, (" with first byte " + vr) if vs else "")) for (vs, vr) in ser_vars
    ] + [dict(name=n, props=["C17"], kind="complete", clause=c) for n, c in names]
    return "".join(out), hs
