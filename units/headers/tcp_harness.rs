#[cfg(kani)]
mod verif_tcp {
    use super::*;

    const MAXLEN: usize = 26; // 2 bytes in front, 20 header bytes, 4 payload bytes
    fn any_raw() -> (Rc<Vec<u8>>, usize) {
        let a: [u8; MAXLEN] = kani::any();
        let off: usize = kani::any();
        kani::assume(off <= 2);
        (Rc::new(a.to_vec()), off)
    }
    fn be16(raw: &[u8], i: usize) -> u16 { ((raw[i] as u16) << 8) | raw[i + 1] as u16 }
    fn be32(raw: &[u8], i: usize) -> u32 {
        ((raw[i] as u32) << 24) | ((raw[i + 1] as u32) << 16) | ((raw[i + 2] as u32) << 8) | raw[i + 3] as u32
    }
    fn int_of(o: Rc<Object>) -> i64 {
        let v = match o.as_ref() { Object::Integer(v) => *v, _ => { assert!(false, "getter must return Integer"); 0 } };
        std::mem::forget(o);
        v
    }

    // C16: every field of Tcp::from_bytes equals the RFC 9293 layout of the raw bytes.
    #[kani::proof]
    fn c16_tcp_from_bytes_fields() {
        let (raw, off) = any_raw();
        let r = Tcp::from_bytes(raw.clone(), off);
        match &r {
            Err(_) => assert!(false, "a complete header must parse"),
            Ok(t) => {
                assert!(int_of(t.get_source_port()) == be16(&raw, off) as i64);
                assert!(int_of(t.get_destination_port()) == be16(&raw, off + 2) as i64);
                assert!(int_of(t.get_sequence()) == be32(&raw, off + 4) as i64);
                assert!(int_of(t.get_ack()) == be32(&raw, off + 8) as i64);
                assert!(int_of(t.get_data_off()) == (raw[off + 12] >> 4) as i64);
                // flags: the 12 bits after the data offset (reserved + control bits), data offset excluded
                assert!(int_of(t.get_flags()) == (be16(&raw, off + 12) & 0x0FFF) as i64);
                assert!(int_of(t.get_window_size()) == be16(&raw, off + 14) as i64);
                assert!(int_of(t.get_checksum()) == be16(&raw, off + 16) as i64);
                assert!(int_of(t.get_urgent()) == be16(&raw, off + 18) as i64);
                kani::cover!(raw[off + 12] >> 4 == 15 && off == 2);
            }
        }
        std::mem::forget(r);
    }

    // C16: a truncated header (any length below off+20) is an error, never a panic.
    #[kani::proof]
    fn c16_tcp_truncated_is_err() {
        let a: [u8; 21] = kani::any();
        let off: usize = kani::any();
        kani::assume(off >= 2 && off <= 40);
        let raw = Rc::new(a.to_vec());
        let r = Tcp::from_bytes(raw.clone(), off);
        assert!(r.is_err());
        kani::cover!(off == 2);
        std::mem::forget(r);
    }

    // C15: serialising a freshly parsed (read-only) TCP layer returns the captured bytes from its offset on.
    #[kani::proof]
    fn c15_tcp_ro_serialise() {
        let (raw, off) = any_raw();
        let r = Tcp::from_bytes(raw.clone(), off);
        if let Ok(t) = &r {
            let out: Vec<u8> = t.into();
            assert!(out.len() == raw.len() - off);
            let i: usize = kani::any();
            kani::assume(i < out.len());
            assert!(out[i] == raw[off + i]);
            kani::cover!(out.len() == 24);
            kani::cover!(out.len() == 26);
        }
        std::mem::forget(r);
    }

    // C15 (header half, complete over the 20 header bytes): parse then From<&TcpHeader> gives the same bytes
    #[kani::proof]
    fn c15_tcp_header_codec() {
        let a: [u8; 20] = kani::any();
        let r = Tcp::from_bytes(Rc::new(a.to_vec()), 0);
        if let Ok(t) = &r {
            let h = t.header.borrow();
            let out: Vec<u8> = (&*h).into();
            assert!(out.len() == 20);
            let i: usize = kani::any();
            kani::assume(i < 20);
            assert!(out[i] == a[i]);
            kani::cover!(true);
            std::mem::forget(out);
        } else {
            assert!(false);
        }
        std::mem::forget(r);
    }

    // ---- C17: each setter changes exactly its own bit range ----
    fn snapshot(t: &Tcp) -> [i64; 9] {
        [int_of(t.get_source_port()), int_of(t.get_destination_port()), int_of(t.get_sequence()), int_of(t.get_ack()),
         int_of(t.get_data_off()), int_of(t.get_flags()), int_of(t.get_window_size()), int_of(t.get_checksum()),
         int_of(t.get_urgent())]
    }
    // bits of header byte i that belong to field k (RFC 9293 layout)
    fn field_mask(k: usize, i: usize) -> u8 {
        match (k, i) {
            (0, 0..=1) | (1, 2..=3) | (2, 4..=7) | (3, 8..=11) | (6, 14..=15) | (7, 16..=17) | (8, 18..=19) => 0xFF,
            (4, 12) => 0xF0,
            (5, 12) => 0x0F,
            (5, 13) => 0xFF,
            _ => 0,
        }
    }
    fn field_width(k: usize) -> u32 { [16, 16, 32, 32, 4, 12, 16, 16, 16][k] }

    fn check_setter(k: usize, set: fn(&Tcp, Rc<Object>) -> Result<(), String>) {
        let a: [u8; 24] = kani::any();
        let raw = Rc::new(a.to_vec());
        let r = Tcp::from_bytes(raw.clone(), 0);
        if let Ok(t) = &r {
            let before = snapshot(t);
            let v: i64 = kani::any();
            let val = Rc::new(Object::Integer(v));
            let res = set(t, val.clone());
            std::mem::forget(val);
            let after = snapshot(t);
            let out: Vec<u8> = t.into();
            assert!(out.len() == 24);
            let w = field_width(k);
            let in_range = v >= 0 && v < (1i64 << w);
            let i: usize = kani::any();
            kani::assume(i < 24);
            let j: usize = kani::any();
            kani::assume(j < 9 && j != k);
            if res.is_ok() {
                // stored value is v reduced to the field width; v itself when in range
                assert!(after[k] == (v & ((1i64 << w) - 1)));
                assert!(after[j] == before[j]);
                assert!((out[i] ^ a[i]) & !field_mask(k, i) == 0);
                // serialise and re-parse: same value
                let r2 = Tcp::from_bytes(Rc::new(out), 0);
                if let Ok(t2) = &r2 {
                    let again = snapshot(t2);
                    assert!(again[k] == after[k]);
                } else {
                    assert!(false);
                }
                std::mem::forget(r2);
            } else {
                assert!(!in_range);
                assert!(after[k] == before[k] && after[j] == before[j]);
                assert!(out[i] == a[i]);
                std::mem::forget(out);
            }
            kani::cover!(in_range && res.is_ok());
            std::mem::forget(res);
        }
        std::mem::forget(r);
    }
    #[kani::proof] fn c17_tcp_set_source_port() { check_setter(0, Tcp::set_source_port); }
    #[kani::proof] fn c17_tcp_set_destination_port() { check_setter(1, Tcp::set_destination_port); }
    #[kani::proof] fn c17_tcp_set_sequence() { check_setter(2, Tcp::set_sequence); }
    #[kani::proof] fn c17_tcp_set_ack() { check_setter(3, Tcp::set_ack); }
    #[kani::proof] fn c17_tcp_set_data_off() { check_setter(4, Tcp::set_data_off); }
    #[kani::proof] fn c17_tcp_set_flags() { check_setter(5, Tcp::set_flags); }
    #[kani::proof] fn c17_tcp_set_window_size() { check_setter(6, Tcp::set_window_size); }
    #[kani::proof] fn c17_tcp_set_checksum() { check_setter(7, Tcp::set_checksum); }
    #[kani::proof] fn c17_tcp_set_urgent() { check_setter(8, Tcp::set_urgent); }

    // C17: a value of the wrong kind is rejected and nothing changes
    #[kani::proof]
    fn c17_tcp_set_wrong_kind() {
        let a: [u8; 24] = kani::any();
        let raw = Rc::new(a.to_vec());
        let r = Tcp::from_bytes(raw.clone(), 0);
        if let Ok(t) = &r {
            let val = Rc::new(if kani::any() { Object::Bool(kani::any()) } else { Object::Null });
            let k: usize = kani::any();
            kani::assume(k < 9);
            let res = match k {
                0 => t.set_source_port(val.clone()), 1 => t.set_destination_port(val.clone()), 2 => t.set_sequence(val.clone()),
                3 => t.set_ack(val.clone()), 4 => t.set_data_off(val.clone()), 5 => t.set_flags(val.clone()),
                6 => t.set_window_size(val.clone()), 7 => t.set_checksum(val.clone()), _ => t.set_urgent(val.clone()),
            };
            std::mem::forget(val);
            assert!(res.is_err());
            std::mem::forget(res);
            let out: Vec<u8> = t.into();
            let i: usize = kani::any();
            kani::assume(i < 24);
            assert!(out[i] == a[i]);
            std::mem::forget(out);
        }
        std::mem::forget(r);
    }

    // C16: the payload starts after the options: header start + max(20, 4 * data offset)
    #[kani::proof]
    fn c16_tcp_payload_offset() {
        let (raw, off) = any_raw();
        let r = Tcp::from_bytes(raw.clone(), off);
        if let Ok(t) = &r {
            let d = (raw[off + 12] >> 4) as usize;
            assert!(t.payload_offset() == off + if d * 4 > 20 { d * 4 } else { 20 });
        }
        std::mem::forget(r);
    }
}
