UNIT = dict(
    name="headers",
    appends=[("src/builtins/protocols/tcp.rs", "units/headers/tcp_harness.rs")],
    harnesses=[
        dict(name="c16_tcp_from_bytes_fields", props=["C16"], kind="complete",
             clause="Tcp::from_bytes: Err iff len < off+20; every getter equals the RFC 9293 field of the raw bytes (all header bytes, off 0..2, len 0..26)"),
        dict(name="c16_tcp_truncated_is_err", props=["C16", "C08"], kind="complete",
             clause="Tcp::from_bytes on a 21-byte buffer with off in 2..=40 (every shortfall 1..) returns Err, no panic"),
        dict(name="c15_tcp_ro_serialise", props=["C15"], kind="bounded", bound="payload <= 4 bytes, off <= 2",
             clause="Vec::from(&Tcp::from_bytes(raw, off)) == raw[off..]"),
        dict(name="c16_tcp_payload_offset", props=["C16"], kind="complete", clause="Tcp::payload_offset == off + max(20, 4*data_offset)"),
        dict(name="c17_tcp_set_wrong_kind", props=["C17"], kind="complete", clause="every Tcp setter rejects Bool/Null and leaves the bytes unchanged"),
    ] + [dict(name="c17_tcp_set_%s" % f, props=["C17"], kind="complete",
              clause="Tcp::set_%s(Integer(v)) for every v and every 24 header+payload bytes: stored value = v reduced to the field width (v itself in range), all other getters unchanged, serialised bytes differ only inside the field's bit range, re-parse reads the same value" % f)
         for f in ["source_port", "destination_port", "sequence", "ack", "data_off", "flags", "window_size", "checksum", "urgent"]],
)
