import os
from . import gen

_here = os.path.dirname(os.path.abspath(__file__))
_verif = os.path.dirname(os.path.dirname(_here))
os.makedirs(os.path.join(_verif, "gen"), exist_ok=True)

_appends = [("src/builtins/protocols/tcp.rs", "units/headers/tcp_harness.rs")]
_hs = [
    dict(name="c16_tcp_from_bytes_fields", props=["C16"], kind="complete",
         clause="Tcp::from_bytes: every getter equals the RFC 9293 field of the raw bytes (all header bytes, off 0..2); flags = 12 bits after the data offset"),
    dict(name="c16_tcp_truncated_is_err", props=["C16", "C08"], kind="complete",
         clause="Tcp::from_bytes on a 21-byte buffer with off in 2..=40 (every shortfall) returns Err, no panic"),
    dict(name="c15_tcp_ro_serialise", props=["C15"], kind="bounded", bound="payload <= 6 bytes, off <= 2",
         clause="Vec::from(&Tcp::from_bytes(raw, off)) == raw[off..]"),
    dict(name="c15_tcp_header_codec", props=["C15"], kind="complete", clause="From<&TcpHeader>(parse(20 header bytes)) == the header bytes, for every header content"),
    dict(name="c16_tcp_payload_offset", props=["C16"], kind="complete", clause="Tcp::payload_offset == off + max(20, 4*data_offset)"),
    dict(name="c17_tcp_set_wrong_kind", props=["C17"], kind="complete", clause="every Tcp setter rejects Bool/Null and leaves the bytes unchanged"),
] + [dict(name="c17_tcp_set_%s" % f, props=["C17"], kind="complete",
          clause="Tcp::set_%s(Integer(v)) for every v and every 24 header+payload bytes: stored value = v reduced to the field width (v itself in range), all other getters unchanged, serialised bytes differ only inside the field's bit range, re-parse reads the same value" % f)
     for f in ["source_port", "destination_port", "sequence", "ack", "data_off", "flags", "window_size", "checksum", "urgent"]]

for _k in ["udp", "vlan", "ethernet", "ipv4", "ipv6"]:
    _txt, _h = gen.gen_layer(_k)
    _p = os.path.join(_verif, "gen", "kani_%s.rs" % _k)
    with open(_p, "w") as _f:
        _f.write(_txt)
    _appends.append((gen.LAYERS[_k]["file"], "gen/kani_%s.rs" % _k))
    _hs += _h

UNIT = dict(
    name="headers",
    appends=_appends,
    harnesses=_hs,
    jobs=16,
    timeout=900,
    trusted=["kani harness-contracts: payload length fixed (<= 8 bytes) in the C15 serialiser harnesses (labelled bounded)"],
)
