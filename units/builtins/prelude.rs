global size_of usize == 8;

// ---- containers and std types the pure builtins touch: opaque, with views ----
#[verifier::external_body] pub struct Array { _p: () }
impl Array { pub uninterp spec fn view(&self) -> Seq<Rc<Object>>; }
#[verifier::external_body] pub struct HMap { _p: () }
#[verifier::external_body] pub struct FileHandle { _p: () }
#[verifier::external_body] pub struct ErrorObj { _p: () }
#[verifier::external_body] pub struct Pcap { _p: () }
#[verifier::external_body] pub struct PcapPacket { _p: () }
#[verifier::external_body] pub struct Ethernet { _p: () }
#[verifier::external_body] pub struct Vlan { _p: () }
#[verifier::external_body] pub struct Ipv4Packet { _p: () }
#[verifier::external_body] pub struct Ipv6Packet { _p: () }
#[verifier::external_body] pub struct Udp { _p: () }
#[verifier::external_body] pub struct Tcp { _p: () }
#[verifier::external_body] pub struct BuiltinFunction { _p: () }
#[verifier::external_body] pub struct CompiledFunction { _p: () }
#[verifier::external_body] pub struct Closure { _p: () }
#[verifier::external_body] pub struct Utf8Error { _p: () }

#[verifier::external_body] pub fn str_to_string(s: &str) -> (r: String) ensures r@ == s@ { s.to_string() }
#[verifier::external_body] pub fn fmt_any() -> (r: String) { String::new() }
#[verifier::external_body] pub fn rc_null() -> (r: Rc<Object>) ensures *r == Object::Null { Rc::new(Object::Null) }

// Array methods (object/array.rs): their documented behaviour over the view
#[verifier::external_body] pub fn array_get(a: &Rc<Array>, i: usize) -> (r: Rc<Object>)
    ensures i < a@.len() ==> r == a@[i as int], i >= a@.len() ==> *r == Object::Null { unimplemented!() }
#[verifier::external_body] pub fn array_last(a: &Rc<Array>) -> (r: Rc<Object>)
    ensures a@.len() > 0 ==> r == a@[a@.len() - 1], a@.len() == 0 ==> *r == Object::Null { unimplemented!() }
#[verifier::external_body] pub fn array_len(a: &Rc<Array>) -> (r: usize) ensures r == a@.len() { unimplemented!() }
#[verifier::external_body] pub fn array_is_empty(a: &Rc<Array>) -> (r: bool) ensures r == (a@.len() == 0) { unimplemented!() }
#[verifier::external_body] pub fn array_tail(a: &Rc<Array>) -> (r: Vec<Rc<Object>>) requires a@.len() >= 1 ensures r@ == a@.subrange(1, a@.len() as int) { unimplemented!() }
#[verifier::external_body] pub fn array_new(v: Vec<Rc<Object>>) -> (r: Array) ensures r@ == v@ { unimplemented!() }
#[verifier::external_body] pub fn array_push(a: &Rc<Array>, o: Rc<Object>) { unimplemented!() }
#[verifier::external_body] pub fn array_pop(a: &Rc<Array>) -> (r: Option<Rc<Object>>)
    ensures a@.len() > 0 ==> r == Some(a@[a@.len() - 1]), a@.len() == 0 ==> r is None { unimplemented!() }
#[verifier::external_body] pub fn array_sort(a: &Rc<Array>) { unimplemented!() }
#[verifier::external_body] pub fn array_elems(a: &Rc<Array>) -> (r: Vec<Rc<Object>>) ensures r@ == a@ { unimplemented!() }
#[verifier::external_body] pub fn hmap_get(m: &Rc<HMap>, k: &Rc<Object>) -> (r: Rc<Object>) { unimplemented!() }
#[verifier::external_body] pub fn hmap_contains(m: &Rc<HMap>, k: &Rc<Object>) -> (r: bool) { unimplemented!() }
#[verifier::external_body] pub fn hmap_insert(m: &Rc<HMap>, k: Rc<Object>, v: Rc<Object>) -> (r: Rc<Object>) { unimplemented!() }
#[verifier::external_body] pub fn hmap_len(m: &Rc<HMap>) -> (r: usize) { unimplemented!() }

// numeric / text conversions (std): arbitrary results where no obligation depends on the value
// std's text conversions as uninterpreted spec functions: Display for i64/f64 and their FromStr inverse, UTF-8 encoding
pub uninterp spec fn dec_i64(n: i64) -> Seq<char>;
pub uninterp spec fn dec_f64(x: f64) -> Seq<char>;
pub uninterp spec fn f64_finite(x: f64) -> bool;
pub uninterp spec fn utf8(s: Seq<char>) -> Seq<u8>;
#[verifier::external_body] pub fn str_len(s: &String) -> (r: usize) ensures r == utf8(s@).len() { s.len() }
#[verifier::external_body] pub fn str_parse_i64(s: &String) -> (r: Result<i64, ()>)
    ensures forall|n: i64| s@ == #[trigger] dec_i64(n) ==> r == Ok::<i64, ()>(n) { unimplemented!() }
#[verifier::external_body] pub fn str_parse_f64(s: &String) -> (r: Result<f64, ()>)
    ensures forall|x: f64| f64_finite(x) && s@ == #[trigger] dec_f64(x) ==> r == Ok::<f64, ()>(x) { unimplemented!() }
#[verifier::external_body] pub fn obj_to_string(o: &Object) -> (r: String)
    ensures *o matches Object::Integer(n) ==> r@ == dec_i64(n), *o matches Object::Float(x) ==> r@ == dec_f64(x) { unimplemented!() }
#[verifier::external_body] pub fn char_to_string(c: char) -> (r: String) { c.to_string() }
#[verifier::external_body] pub fn u8_to_string(b: u8) -> (r: String) { b.to_string() }
#[verifier::external_body] pub fn f64_to_i64(f: f64) -> (r: i64) { f as i64 }
#[verifier::external_body] pub fn f64_to_u32(f: f64) -> (r: u32) { f as u32 }
#[verifier::external_body] pub fn i64_to_f64(i: i64) -> (r: f64) { i as f64 }
#[verifier::external_body] pub fn u8_to_f64(i: u8) -> (r: f64) { i as f64 }
#[verifier::external_body] pub fn f64_lit(whole: u8) -> (r: f64) { whole as f64 }
#[verifier::external_body] pub fn char_from_u32(v: u32) -> (r: Option<char>) ensures r matches Some(c) ==> c as u32 == v, r is Some <==> (v < 0xD800 || 0xE000 <= v <= 0x10FFFF) { std::char::from_u32(v) }
#[verifier::external_body] pub fn char_lower(c: char) -> (r: char) { c.to_ascii_lowercase() }
#[verifier::external_body] pub fn char_upper(c: char) -> (r: char) { c.to_ascii_uppercase() }
#[verifier::external_body] pub fn u8_lower(c: u8) -> (r: u8) { c.to_ascii_lowercase() }
#[verifier::external_body] pub fn u8_upper(c: u8) -> (r: u8) { c.to_ascii_uppercase() }
#[verifier::external_body] pub fn string_lower(s: &String) -> (r: String) { s.to_ascii_lowercase() }
#[verifier::external_body] pub fn string_upper(s: &String) -> (r: String) { s.to_ascii_uppercase() }
#[verifier::external_body] pub fn string_chars_as_objects(s: &String) -> (r: Vec<Rc<Object>>)
    ensures r@.len() == s@.len(), forall|i: int| 0 <= i < r@.len() ==> *#[trigger] r@[i] == Object::Char(s@[i]) { unimplemented!() }
#[verifier::external_body] pub fn string_bytes(s: &String) -> (r: Vec<u8>) ensures r@ == utf8(s@) { s.as_bytes().to_vec() }
#[verifier::external_body] pub fn string_from_utf8(b: Vec<u8>) -> (r: Result<String, Utf8Error>)
    ensures forall|s: Seq<char>| b@ == #[trigger] utf8(s) ==> (r matches Ok(t) && t@ == s) { unimplemented!() }
#[verifier::external_body] pub fn utf8_err(e: Utf8Error) -> (r: ErrorObj) { unimplemented!() }

pub open spec fn kind(o: Object) -> int {
    match o { Object::Null => 0, Object::Str(_) => 1, Object::Char(_) => 2, Object::Byte(_) => 3, Object::Integer(_) => 4, Object::Float(_) => 5,
              Object::Bool(_) => 6, Object::Arr(_) => 7, Object::Map(_) => 8, Object::Err(_) => 9, _ => 10 }
}

#[verifier::external_body] pub fn string_clone(s: &String) -> (r: String) ensures r@ == s@ { s.clone() }
#[verifier::external_body] pub fn string_new() -> (r: String) ensures r@ == Seq::<char>::empty() { String::new() }
#[verifier::external_body] pub fn string_push(s: &mut String, c: char) ensures final(s)@ == old(s)@.push(c) { s.push(c) }
#[verifier::external_body] pub fn string_push_str(s: &mut String, d: &String) ensures final(s)@ == old(s)@ + d@ { s.push_str(d) }
#[verifier::external_body] pub fn pow10(n: u32) -> (r: i64) requires n <= 18 { 10i64.pow(n) }
#[verifier::external_body] pub fn round_to(f: f64, m: i64) -> (r: f64) { (f * m as f64).round() / m as f64 }

pub open spec fn ch(o: Rc<Object>) -> char { match *o { Object::Char(c) => c, _ => ' ' } }
pub open spec fn all_chars(a: Seq<Rc<Object>>, n: int) -> bool { forall|k: int| 0 <= k < n ==> *#[trigger] a[k] is Char }
pub open spec fn all_bytes(a: Seq<Rc<Object>>, n: int) -> bool { forall|k: int| 0 <= k < n ==> *#[trigger] a[k] is Byte }
pub open spec fn by(o: Rc<Object>) -> u8 { match *o { Object::Byte(b) => b, _ => 0u8 } }
pub open spec fn bytes_of(a: Seq<Rc<Object>>) -> Seq<u8> { Seq::new(a.len(), |k: int| by(a[k])) }
// the documented result of join: the chars of the first n elements with the delimiter between neighbours
pub open spec fn joined(a: Seq<Rc<Object>>, n: int, d: Seq<char>) -> Seq<char> decreases n {
    if n <= 0 { Seq::<char>::empty() } else if n == 1 { seq![ch(a[0])] } else { joined(a, n - 1, d) + d + seq![ch(a[n - 1])] }
}
pub open spec fn delim_of(args: Seq<Rc<Object>>) -> Seq<char> {
    if args.len() == 2 { match *args[1] { Object::Str(s) => s@, Object::Char(c) => seq![c], _ => Seq::<char>::empty() } } else { Seq::<char>::empty() }
}
pub proof fn lemma_joined_plain(a: Seq<Rc<Object>>, n: int, s: Seq<char>)
    requires 0 <= n <= a.len(), n <= s.len(), forall|k: int| 0 <= k < n ==> *#[trigger] a[k] == Object::Char(s[k]),
    ensures joined(a, n, Seq::<char>::empty()) == s.subrange(0, n)
    decreases n
{
    if n > 1 { lemma_joined_plain(a, n - 1, s); }
    assert(joined(a, n, Seq::<char>::empty()) =~= s.subrange(0, n));
}

// ---- the round-trip laws of C11, each an exec composition checked against the two builtins' contracts only ----
fn one(o: Rc<Object>) -> (r: Vec<Rc<Object>>) ensures r@ == seq![o] { let mut v: Vec<Rc<Object>> = Vec::new(); v.push(o); v }

pub fn law_int_of_str(n: i64) -> (r: Result<Rc<Object>, String>)
    ensures r matches Ok(o) && *o == Object::Integer(n)
{
    match builtin_str(one(Rc::new(Object::Integer(n)))) { Ok(s) => builtin_int(one(s)), Err(e) => Err(e) }
}
pub fn law_float_of_str(x: f64) -> (r: Result<Rc<Object>, String>)
    requires f64_finite(x)
    ensures r matches Ok(o) && *o == Object::Float(x)
{
    match builtin_str(one(Rc::new(Object::Float(x)))) { Ok(s) => builtin_float(one(s)), Err(e) => Err(e) }
}
pub fn law_decode_of_encode(s: String) -> (r: Result<Rc<Object>, String>)
    ensures r matches Ok(o) && (*o matches Object::Str(t) && t@ == s@)
{
    let ghost s0 = s@;
    match encode_utf8(one(Rc::new(Object::Str(s)))) { Ok(b) => { proof { if let Object::Arr(a) = &*b { assert(bytes_of(a@) =~= utf8(s0)); } } decode_utf8(one(b)) } Err(e) => Err(e) }
}
pub fn law_join_of_chars(s: String) -> (r: Result<Rc<Object>, String>)
    ensures r matches Ok(o) && (*o matches Object::Str(t) && t@ == s@)
{
    let ghost s0 = s@;
    match builtin_chars(one(Rc::new(Object::Str(s)))) {
        Ok(cs) => {
            proof { if let Object::Arr(a) = &*cs { lemma_joined_plain(a@, a@.len() as int, s0); assert(s0.subrange(0, s0.len() as int) =~= s0); } }
            builtin_join(one(cs))
        }
        Err(e) => Err(e),
    }
}
pub fn law_len_of_encode(s: String) -> (r: (Result<Rc<Object>, String>, Result<Rc<Object>, String>))
    ensures r.0 matches Ok(a) && r.1 matches Ok(b) && (*a matches Object::Integer(n) && *b == Object::Integer(n))
{
    let o = Rc::new(Object::Str(s));
    let l1 = builtin_len(one(o.clone()));
    let l2 = match encode_utf8(one(o)) { Ok(b) => builtin_len(one(b)), Err(e) => Err(e) };
    (l1, l2)
}

// a string that is exactly one character / exactly one byte (builtin_char / builtin_byte on strings)
#[verifier::external_body] pub fn single_char(s: &String) -> (r: Option<char>)
    ensures r is Some <==> s@.len() == 1, r matches Some(c) ==> c == s@[0]
{ let mut it = s.chars(); match (it.next(), it.next()) { (Some(c), None) => Some(c), _ => None } }
#[verifier::external_body] pub fn single_byte(s: &String) -> (r: Option<&u8>)
    ensures r is Some <==> utf8(s@).len() == 1, r matches Some(b) ==> *b == utf8(s@)[0]
{ match s.as_bytes() { [b] => Some(b), _ => None } }
#[verifier::external_body] pub fn char_of_u8(b: u8) -> (r: char) ensures r as u32 == b as u32 { char::from(b) }
