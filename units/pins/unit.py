"""C03 (Verus): the places where the documented precedence table turns into grouping.
 * curr_precedence / peek_precedence / peek_associativity consult PARSE_RULES at the token they are named after;
 * peek_valid_expression is the Pratt comparator: continue while the next operator binds tighter (left-associative) or at
   least as tight (right-associative: assignment), and never across ';' or end of input;
 * parse_infix_expression, parse_assignment_expression and parse_ranges parse their right operand with the operator's OWN
   precedence, parse_prefix_expression with Precedence::Unary - each by exactly one recursive call.
The table values are the prec unit's (Kani); that a Pratt loop over such a table and comparator groups as documented is the
classical precedence-climbing argument (stated, not proved); the bounded stand-in compares groupings on the real binary."""
from units.parser import unit as parser_unit

PM = "src/parser/mod.rs"
RU = "src/parser/rules.rs"
PR = "src/parser/precedence.rs"

RW = [r for r in parser_unit.RW if "parse_expression_shim" not in r["to"]] + [
    dict(rule="R3", re=r"self\.parse_expression\(", to="parse_expression_pinned(self, ", why="the recursive call, behind a contract whose precondition pins the precedence it may be given"),
    dict(rule="R6", re=r"PARSE_RULES\[self\.(current|peek_next)\.ttype as usize\]\.precedence", to=r"rules_precedence(&self.\1.ttype)", why="lazy_static table lookup -> table shim (values: prec unit)"),
    dict(rule="R6", re=r"PARSE_RULES\[self\.(current|peek_next)\.ttype as usize\]\.associativity", to=r"rules_associativity(&self.\1.ttype)", why="lazy_static table lookup -> table shim"),
    dict(rule="R1", re=r"self\.(current|peek_next)\.ttype == TokenType::BitwiseOr", to=r"tt_eq(&self.\1.ttype, &TokenType::BitwiseOr)", why="derived PartialEq on TokenType -> shim"),
    dict(rule="R1", re=r"precedence < self\.peek_precedence\(\)", to="prec_lt(precedence, self.peek_precedence())", why="derived PartialOrd on Precedence -> discriminant-order shim"),
    dict(rule="R1", re=r"precedence <= self\.peek_precedence\(\)", to="prec_le(precedence, self.peek_precedence())", why="derived PartialOrd on Precedence -> discriminant-order shim"),
    dict(rule="R1", re=r"self\.current\.literal\.clone\(\)", to="string_clone(&self.current.literal)", why="String::clone shim"),
    dict(rule="R0", re=r"\(&mut self, _: bool\)", to="(&mut self, _unused: bool)", why="`_` parameter named"),
]


def m(path, file=RU, **kw):
    d = dict(kind="fn", file=file, path="Parser::" + path, props=["C03"])
    d.update(kw)
    return d


types = [it for it in parser_unit.UNIT["items"] if it.get("kind") in ("struct", "enum")]
# the AST nodes these functions build: real definitions instead of the parser unit's opaque ones
AE = "src/parser/ast/expr.rs"

UNIT = dict(
    name="pins",
    prelude=["units/parser/prelude.rs", "units/pins/extra.rs"],
    uses="",
    lemmas={},
    global_rewrites=RW,
    items=types + [
        dict(kind="enum", file=RU, path="Associativity"),
        m("curr_precedence", ret="r", ensures=["r == curr_prec_spec(self)"]),
        m("peek_precedence", ret="r", ensures=["r == peek_prec_spec(self)"]),
        m("peek_associativity", ret="r", ensures=["r == rule_assoc(self.peek_next.ttype)"]),
        m("peek_token_is", file=PM, ret="r", ensures=["r == (self.peek_next.ttype == *ttype)"]),
        m("next_token", file=PM, ensures=["nerr(final(self)) == nerr(old(self))", "final(self).scanner.left() <= old(self).scanner.left()", "final(self).in_match_pattern == old(self).in_match_pattern"]),
        # the Pratt comparator
        m("peek_valid_expression", ret="r",
          ensures=["r == ((if rule_assoc(self.peek_next.ttype) is Left { rank(precedence) < rank(peek_prec_spec(self)) } else { rank(precedence) <= rank(peek_prec_spec(self)) })"
                   " && self.peek_next.ttype != TokenType::Semicolon && self.peek_next.ttype != TokenType::Eof)"]),
        # the pins
        m("parse_infix_expression", ret="r", requires=["pinned() == curr_prec_spec(old(self))"], ensures=["r is Binary"],
          rewrites=[dict(rule="R3", re=r"Expression::Binary\(BinaryExpr \{.*?\}\)", to="Expression::Binary(mk_binary(token, operator, left, right))", expect=1, why="node constructor of an opaque AST payload -> shim")]),
        m("parse_prefix_expression", ret="r", requires=["pinned() == Precedence::Unary"], ensures=["r is Unary"],
          rewrites=[dict(rule="R3", re=r"Expression::Unary\(UnaryExpr \{.*?\}\)", to="Expression::Unary(mk_unary(token, operator, right))", expect=1, why="node constructor shim")]),
        m("parse_assignment_expression", ret="r", requires=["pinned() == curr_prec_spec(old(self))"], ensures=["r is Assign"],
          rewrites=[dict(rule="R3", re=r"Expression::Assign\(AssignExpr \{.*?\}\)", to="Expression::Assign(mk_assign(token, left, right))", expect=1, why="node constructor shim")]),
        dict(kind="raw", label="ctors", text='''
#[verifier::external_body] pub fn mk_binary(token: Token, operator: String, left: Expression, right: Expression) -> (r: BinaryExpr) { unimplemented!() }
#[verifier::external_body] pub fn mk_unary(token: Token, operator: String, right: Expression) -> (r: UnaryExpr) { unimplemented!() }
#[verifier::external_body] pub fn mk_assign(token: Token, left: Expression, right: Expression) -> (r: AssignExpr) { unimplemented!() }
'''),
    ],
)
