
// ---- C03 pins ----------------------------------------------------------------------------------------------------
// PARSE_RULES behind its table: the values (level / associativity per token) are the prec unit's (Kani, every token);
// here only WHICH entry is consulted and WHAT is done with it matters.
pub uninterp spec fn rule_prec(t: TokenType) -> Precedence;
pub uninterp spec fn rule_assoc(t: TokenType) -> Associativity;
#[verifier::external_body] pub fn rules_precedence(t: &TokenType) -> (r: Precedence) ensures r == rule_prec(*t) { unimplemented!() }
#[verifier::external_body] pub fn rules_associativity(t: &TokenType) -> (r: Associativity) ensures r == rule_assoc(*t) { unimplemented!() }
// derived PartialOrd on Precedence = order of the discriminants (prec unit: c03_precedence_order, Kani, all pairs)
pub open spec fn rank(p: Precedence) -> int {
    match p { Precedence::Lowest => 0, Precedence::Assignment => 1, Precedence::MatchOr => 2, Precedence::Range => 3, Precedence::LogicalOr => 4, Precedence::LogicalAnd => 5,
              Precedence::Relational => 6, Precedence::BitwiseOr => 7, Precedence::BitwiseXor => 8, Precedence::BitwiseAnd => 9, Precedence::Shift => 10, Precedence::Term => 11,
              Precedence::Factor => 12, Precedence::Unary => 13, Precedence::Call => 14, Precedence::Primary => 15 }
}
#[verifier::external_body] pub fn prec_lt(a: Precedence, b: Precedence) -> (r: bool) ensures r == (rank(a) < rank(b)) { unimplemented!() }
#[verifier::external_body] pub fn prec_le(a: Precedence, b: Precedence) -> (r: bool) ensures r == (rank(a) <= rank(b)) { unimplemented!() }

// the precedence of the operator the parser is standing on (what curr_precedence must return)
pub open spec fn curr_prec_spec(p: &Parser) -> Precedence {
    if p.in_match_pattern && p.current.ttype == TokenType::BitwiseOr { Precedence::MatchOr } else { rule_prec(p.current.ttype) }
}
pub open spec fn peek_prec_spec(p: &Parser) -> Precedence {
    if p.in_match_pattern && p.peek_next.ttype == TokenType::BitwiseOr { Precedence::MatchOr } else { rule_prec(p.peek_next.ttype) }
}
// The right operand of an operator is parsed by ONE recursive call of parse_expression; `pinned()` is the precedence that
// call must be given: the operator's own level for binary operators, assignment and ranges, Unary for prefix operators.
pub uninterp spec fn pinned() -> Precedence;
#[verifier::external_body]
pub fn parse_expression_pinned(p: &mut Parser, precedence: Precedence, property: bool) -> (r: Expression)
    requires precedence == pinned()
    ensures nerr(final(p)) >= nerr(old(p)), final(p).scanner.left() <= old(p).scanner.left()
{ unimplemented!() }
