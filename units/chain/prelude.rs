// C15, the induction over the layer chain. This file contains no code of /repo: it is the lemma that combines three contract
// families that ARE discharged on the real code, and each hypothesis below names the contract it stands for:
//   (H1) hdrser.*::from_bytes      : a parsed layer remembers raw, starts at `start`, its payload starts at `poff`,
//                                    start <= poff <= raw.len()                       [ensures of <Layer>::from_bytes]
//   (H2) headers::c15_*_header_codec: serialising the header parsed from raw[start..poff] gives back exactly those bytes
//                                    [Kani, every header content]                      -> hdr == raw[start..poff]
//   (H3) hdrser.*::serialise_*     : bytes(layer) = hdr ++ bytes(inner) when an inner layer is cached,
//                                    hdr ++ raw[poff..] otherwise                     [ensures of From<&Layer> for Vec<u8>]
//   (H4) pktcache::get_*           : a READ caches only a child parsed from the same raw at the parent's poff, with nothing
//                                    cached below it yet (child_ok); error objects are never cached
// Conclusion: for a packet that has only been read, the bytes written are raw[start..] - for every chain length.
pub struct Layer { pub raw: Seq<u8>, pub start: int, pub poff: int, pub hdr: Seq<u8>, pub inner: Option<Box<Layer>> }

pub open spec fn ser(l: Layer) -> Seq<u8> decreases l {
    match l.inner { Some(i) => l.hdr + ser(*i), None => l.hdr + l.raw.subrange(l.poff, l.raw.len() as int) }     // (H3)
}
pub open spec fn read_only(l: Layer) -> bool decreases l {
    0 <= l.start <= l.poff <= l.raw.len()                                                                          // (H1)
    && l.hdr == l.raw.subrange(l.start, l.poff)                                                                    // (H2)
    && match l.inner { Some(i) => i.raw == l.raw && i.start == l.poff && read_only(*i), None => true }             // (H4)
}
pub proof fn lemma_read_only_serialises_to_captured_bytes(l: Layer)
    requires read_only(l)
    ensures ser(l) =~= l.raw.subrange(l.start, l.raw.len() as int)
    decreases l
{
    match l.inner {
        Some(i) => { lemma_read_only_serialises_to_captured_bytes(*i); }
        None => {}
    }
}
// the same for the pcap record: record header (pcapcodec: encode(decode(16 bytes)) == the 16 bytes) ++ the Ethernet chain at offset 0
pub proof fn lemma_record(rec_hdr: Seq<u8>, eth: Option<Layer>, data: Seq<u8>, out: Seq<u8>)
    requires
        eth matches Some(l) ==> read_only(l) && l.raw == data && l.start == 0,
        out == rec_hdr + (match eth { Some(l) => ser(l), None => data }),
    ensures out =~= rec_hdr + data
{
    if let Some(l) = eth { lemma_read_only_serialises_to_captured_bytes(l); }
}
