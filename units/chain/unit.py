UNIT = dict(
    name="chain",
    prelude=["units/chain/prelude.rs"],
    uses="",
    lemmas={"lemma_read_only_serialises_to_captured_bytes": ["C15"], "lemma_record": ["C15"]},
    items=[],
)
