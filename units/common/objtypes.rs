// ---- payload types the VM helpers treat as opaque (parametric in them) ----
#[verifier::external_body] pub struct Array { _p: () }
impl Array { pub uninterp spec fn view(&self) -> Seq<Rc<Object>>; }
#[verifier::external_body] pub struct HMap { _p: () }
#[verifier::external_body] pub struct FileHandle { _p: () }
#[verifier::external_body] pub struct ErrorObj { _p: () }
#[verifier::external_body] pub struct Pcap { _p: () }
#[verifier::external_body] pub struct PcapPacket { _p: () }
#[verifier::external_body] pub struct Ethernet { _p: () }
#[verifier::external_body] pub struct Vlan { _p: () }
#[verifier::external_body] pub struct Ipv4Packet { _p: () }
#[verifier::external_body] pub struct Ipv6Packet { _p: () }
#[verifier::external_body] pub struct Udp { _p: () }
#[verifier::external_body] pub struct Tcp { _p: () }
// R7: fn-pointer field replaced by a tag; the indirect call goes through a dispatch shim
pub struct BuiltinFnId(pub usize);
pub struct BuiltinFunction { pub name: &'static str, pub func: BuiltinFnId }
impl Clone for BuiltinFnId { fn clone(&self) -> Self { BuiltinFnId(self.0) } }
impl Copy for BuiltinFnId {}

