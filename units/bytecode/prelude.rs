// ---- spec oracles for the bytecode codec (C14, C13) ----
pub open spec fn be16(v: u16) -> Seq<u8> {
    seq![(v / 256) as u8, (v % 256) as u8]
}

pub open spec fn u16_of_be(hi: u8, lo: u8) -> int {
    hi as int * 256 + lo as int
}

// operand widths per opcode: the encoder's own table, as one spec function
pub open spec fn opcode_widths(op: Opcode) -> Seq<usize> {
    match op {
        Opcode::Constant | Opcode::Jump | Opcode::JumpIfFalse | Opcode::JumpIfFalseNoPop
        | Opcode::DefineGlobal | Opcode::GetGlobal | Opcode::SetGlobal | Opcode::Array | Opcode::Map => seq![2usize],
        Opcode::Call | Opcode::DefineLocal | Opcode::GetLocal | Opcode::SetLocal | Opcode::GetBuiltinFn
        | Opcode::GetBuiltinVar | Opcode::GetFree | Opcode::SetFree | Opcode::GetProp | Opcode::SetProp => seq![1usize],
        Opcode::Closure => seq![2usize, 1usize],
        _ => Seq::<usize>::empty(),
    }
}

// discriminant of Opcode in declaration order (Rust: field-less enum, implicit discriminants 0..)
pub open spec fn opcode_to_u8_spec(op: Opcode) -> u8 {
    match op {
        Opcode::Constant => 0u8,
        Opcode::Pop => 1u8,
        Opcode::Add => 2u8,
        Opcode::Sub => 3u8,
        Opcode::Mul => 4u8,
        Opcode::Div => 5u8,
        Opcode::Mod => 6u8,
        Opcode::True => 7u8,
        Opcode::False => 8u8,
        Opcode::Equal => 9u8,
        Opcode::NotEqual => 10u8,
        Opcode::Greater => 11u8,
        Opcode::GreaterEq => 12u8,
        Opcode::Minus => 13u8,
        Opcode::Bang => 14u8,
        Opcode::Jump => 15u8,
        Opcode::JumpIfFalse => 16u8,
        Opcode::JumpIfFalseNoPop => 17u8,
        Opcode::Null => 18u8,
        Opcode::DefineGlobal => 19u8,
        Opcode::GetGlobal => 20u8,
        Opcode::SetGlobal => 21u8,
        Opcode::Array => 22u8,
        Opcode::Map => 23u8,
        Opcode::GetIndex => 24u8,
        Opcode::SetIndex => 25u8,
        Opcode::Call => 26u8,
        Opcode::ReturnValue => 27u8,
        Opcode::Return => 28u8,
        Opcode::DefineLocal => 29u8,
        Opcode::GetLocal => 30u8,
        Opcode::SetLocal => 31u8,
        Opcode::GetBuiltinFn => 32u8,
        Opcode::GetBuiltinVar => 33u8,
        Opcode::Closure => 34u8,
        Opcode::GetFree => 35u8,
        Opcode::SetFree => 36u8,
        Opcode::CurrClosure => 37u8,
        Opcode::Not => 38u8,
        Opcode::And => 39u8,
        Opcode::Or => 40u8,
        Opcode::Xor => 41u8,
        Opcode::ShiftLeft => 42u8,
        Opcode::ShiftRight => 43u8,
        Opcode::Dup => 44u8,
        Opcode::GetProp => 45u8,
        Opcode::SetProp => 46u8,
        Opcode::Dollar => 47u8,
        Opcode::Invalid => 48u8,
    }
}

pub open spec fn widths_ok(ws: Seq<usize>) -> bool {
    forall|i: int| 0 <= i < ws.len() ==> (#[trigger] ws[i] == 1 || ws[i] == 2)
}

pub open spec fn sum_widths(ws: Seq<usize>) -> int
    decreases ws.len()
{
    if ws.len() == 0 { 0 } else { sum_widths(ws.drop_last()) + ws.last() as int }
}

pub open spec fn fits(w: usize, v: usize) -> bool {
    if w == 2 { v <= 0xffff } else { v <= 0xff }
}

pub open spec fn enc1(w: usize, v: usize) -> Seq<u8> {
    if w == 2 { be16(v as u16) } else { seq![v as u8] }
}

// encoding of the first n (operand, width) pairs
pub open spec fn enc_ops(ws: Seq<usize>, ops: Seq<usize>, n: int) -> Seq<u8>
    decreases n
{
    if n <= 0 { Seq::<u8>::empty() } else { enc_ops(ws, ops, n - 1) + enc1(ws[n - 1], ops[n - 1]) }
}

pub open spec fn def_ok(op: Opcode, d: &Definition) -> bool {
    d.operand_widths@ =~= opcode_widths(op)
}

pub open spec fn min(a: int, b: int) -> int { if a < b { a } else { b } }

pub proof fn lemma_sum_widths_push(ws: Seq<usize>, n: int)
    requires 0 <= n < ws.len()
    ensures sum_widths(ws.subrange(0, n + 1)) == sum_widths(ws.subrange(0, n)) + ws[n] as int
{
    assert(ws.subrange(0, n + 1).drop_last() =~= ws.subrange(0, n));
}

pub proof fn lemma_enc_len(ws: Seq<usize>, ops: Seq<usize>, n: int)
    requires 0 <= n <= ws.len(), n <= ops.len(), widths_ok(ws)
    ensures enc_ops(ws, ops, n).len() == sum_widths(ws.subrange(0, n))
    decreases n
{
    if n > 0 {
        lemma_enc_len(ws, ops, n - 1);
        lemma_sum_widths_push(ws, n - 1);
    } else {
        assert(ws.subrange(0, 0) =~= Seq::<usize>::empty());
    }
}

pub proof fn lemma_opcode_widths_ok(op: Opcode)
    ensures widths_ok(opcode_widths(op)), opcode_widths(op).len() <= 2
{
}

// ---- std / byteorder shims (R3): body is the original call ----
#[verifier::external_body]
pub fn write_u16_be(v: &mut Vec<u8>, x: u16)
    ensures final(v)@ == old(v)@ + be16(x)
{
    unimplemented!() // original: v.write_u16::<BigEndian>(x).unwrap()  (byteorder is not linkable in single-file verus)
}

#[verifier::external_body]
pub fn write_u8_(v: &mut Vec<u8>, x: u8)
    ensures final(v)@ == old(v)@ + seq![x]
{
    unimplemented!() // original: v.write_u8(x).unwrap()
}

#[verifier::external_body]
pub fn u16_from_be_bytes(b: [u8; 2]) -> (r: u16)
    ensures r as int == u16_of_be(b[0], b[1])
{
    u16::from_be_bytes(b)
}

#[verifier::external_body]
pub fn vec_repeat_usize(x: usize, n: usize) -> (r: Vec<usize>)
    ensures r@.len() == n, forall|i: int| 0 <= i < n ==> r@[i] == x
{
    vec![x; n]
}

// R6: lookup shim for `DEFINITIONS.get(&op)`; its contract is the postcondition proved
// for the initializer `definitions_init` below.
#[verifier::external_body]
pub fn definitions_get(op: &Opcode) -> (r: Option<&'static Definition>)
    ensures
        *op == Opcode::Invalid ==> r is None,
        *op != Opcode::Invalid ==> r is Some && def_ok(*op, r.unwrap()),
{
    unimplemented!()
}

#[verifier::external_body]
pub fn ws<const N: usize>(a: &'static [usize; N]) -> (r: &'static [usize])
    ensures r@ == a@
{
    a
}

// derived Hash/Eq on the field-less enum Opcode are consistent (trusted: #[derive])
#[verifier::external_body]
pub proof fn axiom_opcode_key_model()
    ensures vstd::std_specs::hash::obeys_key_model::<Opcode>()
{
}

// ---- decoder side ----
pub open spec fn dec1(w: usize, ins: Seq<u8>, off: int) -> usize {
    if w == 2 { u16_of_be(ins[off], ins[off + 1]) as usize } else { ins[off] as usize }
}

// operands decoded from the first n widths
pub open spec fn dec_ops(ws: Seq<usize>, ins: Seq<u8>, n: int) -> Seq<usize>
    decreases n
{
    if n <= 0 { Seq::<usize>::empty() } else {
        dec_ops(ws, ins, n - 1).push(dec1(ws[n - 1], ins, sum_widths(ws.subrange(0, n - 1))))
    }
}

pub proof fn lemma_dec_ops_len(ws: Seq<usize>, ins: Seq<u8>, n: int)
    requires 0 <= n
    ensures dec_ops(ws, ins, n).len() == n
    decreases n
{
    if n > 0 { lemma_dec_ops_len(ws, ins, n - 1); }
}

pub proof fn lemma_dec_ops_index(ws: Seq<usize>, ins: Seq<u8>, n: int, k: int)
    requires 0 <= k < n
    ensures dec_ops(ws, ins, n).len() == n,
            dec_ops(ws, ins, n)[k] == dec1(ws[k], ins, sum_widths(ws.subrange(0, k)))
    decreases n
{
    lemma_dec_ops_len(ws, ins, n);
    lemma_dec_ops_len(ws, ins, n - 1);
    if k < n - 1 { lemma_dec_ops_index(ws, ins, n - 1, k); }
}

pub proof fn lemma_sum_widths_mono(ws: Seq<usize>, n: int)
    requires 0 <= n <= ws.len()
    ensures 0 <= sum_widths(ws.subrange(0, n)) <= sum_widths(ws)
    decreases ws.len() - n
{
    if n < ws.len() {
        lemma_sum_widths_mono(ws, n + 1);
        lemma_sum_widths_push(ws, n);
        lemma_sum_nonneg(ws.subrange(0, n));
    } else {
        assert(ws.subrange(0, n) =~= ws);
        lemma_sum_nonneg(ws);
    }
}

pub proof fn lemma_sum_nonneg(ws: Seq<usize>)
    ensures sum_widths(ws) >= 0
    decreases ws.len()
{
    if ws.len() > 0 { lemma_sum_nonneg(ws.drop_last()); }
}

// ---- C14 core: decode(encode(ops)) == ops, for operands that fit their widths ----
pub proof fn lemma_dec_prefix(ws: Seq<usize>, a: Seq<u8>, b: Seq<u8>, n: int)
    requires widths_ok(ws), 0 <= n <= ws.len(), a.len() <= b.len(),
             sum_widths(ws.subrange(0, n)) <= a.len(),
             forall|i: int| 0 <= i < a.len() ==> a[i] == b[i],
    ensures dec_ops(ws, a, n) =~= dec_ops(ws, b, n)
    decreases n
{
    if n > 0 {
        lemma_sum_widths_push(ws, n - 1);
        lemma_sum_nonneg(ws.subrange(0, n - 1));
        lemma_dec_prefix(ws, a, b, n - 1);
    }
}

pub proof fn lemma_be16_roundtrip(v: usize)
    requires v <= 0xffff
    ensures u16_of_be(be16(v as u16)[0], be16(v as u16)[1]) == v
{
    let x = v as u16;
    assert(x == v);
    assert((x / 256) as u8 == x / 256);
    assert((x % 256) as u8 == x % 256);
}

pub proof fn lemma_roundtrip(ws: Seq<usize>, ops: Seq<usize>, n: int)
    requires widths_ok(ws), 0 <= n <= ws.len(), n <= ops.len(),
             forall|i: int| 0 <= i < n ==> fits(ws[i], #[trigger] ops[i]),
    ensures dec_ops(ws, enc_ops(ws, ops, n), n) =~= ops.subrange(0, n)
    decreases n
{
    if n > 0 {
        let e0 = enc_ops(ws, ops, n - 1);
        let e1 = enc_ops(ws, ops, n);
        lemma_roundtrip(ws, ops, n - 1);
        lemma_enc_len(ws, ops, n - 1);
        lemma_enc_len(ws, ops, n);
        lemma_sum_widths_push(ws, n - 1);
        lemma_dec_prefix(ws, e0, e1, n - 1);
        let off = sum_widths(ws.subrange(0, n - 1));
        assert(e0.len() == off);
        let w = ws[n - 1];
        let v = ops[n - 1];
        assert(fits(w, v));
        if w == 2 {
            lemma_be16_roundtrip(v);
            assert(e1[off] == be16(v as u16)[0]);
            assert(e1[off + 1] == be16(v as u16)[1]);
        } else {
            assert(w == 1);
            assert(e1[off] == v as u8);
            assert((v as u8) as usize == v);
        }
        assert(dec1(w, e1, off) == v);
        assert(dec_ops(ws, e1, n) =~= dec_ops(ws, e0, n - 1).push(v));
        assert(ops.subrange(0, n) =~= ops.subrange(0, n - 1).push(v));
    }
}

// and the converse direction used for "rejected or lossless": an operand that does not fit
// is NOT recovered (so silent truncation is observable as a decode mismatch)
pub proof fn lemma_unfit_not_recovered(w: usize, v: usize, ins: Seq<u8>, off: int)
    requires w == 1 || w == 2, !fits(w, v), 0 <= off, off + 2 <= ins.len()
    ensures dec1(w, ins, off) != v
{
}
