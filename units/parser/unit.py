PM = "src/parser/mod.rs"
PR = "src/parser/precedence.rs"
T = "src/scanner/token.rs"
AE = "src/parser/ast/expr.rs"
AS = "src/parser/ast/stmt.rs"

RW = [
    dict(rule="R1", re=r"self\.(previous|current|peek_next)\.clone\(\)", to=r"clone_token(&self.\1)", why="Token::clone (= Token::new of the same fields) -> structural copy shim"),
    dict(rule="R1", re=r"token_ident\.clone\(\)", to="clone_token(&token_ident)", why="Token::clone -> structural copy shim"),
    dict(rule="R1", re=r"token_ident\.literal\.clone\(\)", to="string_clone(&token_ident.literal)", why="String::clone shim"),
    dict(rule="R1", re=r"\bvalue\.clone\(\)", to="clone_expr(&value)", why="derived Clone on the AST -> structural copy shim"),
    dict(rule="R1", re=r"self\.(previous|current|peek_next)\.ttype == \*ttype", to=r"tt_eq(&self.\1.ttype, ttype)", why="derived PartialEq on TokenType -> structural-equality shim"),
    dict(rule="R3", re=r"self\.scanner\.next_token\(\)", to="scanner_next_token(&mut self.scanner)", why="Scanner::next_token behind the contract proved in the scanner unit"),
    dict(rule="R3", re=r"self\.scanner\.get_line\(\)", to="scanner_get_line(&self.scanner)", why="Scanner::get_line shim"),
    dict(rule="R3f", re=r"(?<!&)format!\((?:[^()]|\((?:[^()]|\([^()]*\))*\))*\)", to="fmt_any()", why="format! message text dropped"),
    dict(rule="R3", re=r"self\.parse_expression\(", to="parse_expression_shim(self, ", why="expression parser behind an assumed contract (diagnostics only grow)"),
    dict(rule="R3", re=r"self\.parse_block_statement\(\)", to="parse_block_statement_shim(self)", why="block parser behind an assumed contract (diagnostics only grow)"),
    dict(rule="R3", re=r"self\.parse_function_params\(\)", to="parse_function_params_shim(self)", why="parameter list parser behind an assumed contract"),
    dict(rule="R1", re=r"self\.current\.ttype != TokenType::Eof", to="!tt_eq(&self.current.ttype, &TokenType::Eof)", why="derived PartialEq on TokenType -> shim"),
]

# every statement parser: never Err; Statement::Invalid only together with a recorded diagnostic (C01: such a
# program is not compiled - the compiler panics on Statement::Invalid - because main runs only error-free programs)
STMT = ["r is Ok", "nerr(final(self)) >= nerr(old(self))", "r matches Ok(Statement::Invalid) ==> nerr(final(self)) > nerr(old(self))"]

def m(path, **kw):
    d = dict(kind="fn", file=PM, path="Parser::" + path, props=["C01"])
    d.update(kw)
    return d

OPAQUE_OK = dict()
UNIT = dict(
    name="parser",
    prelude="units/parser/prelude.rs",
    uses="",
    lemmas={},
    global_rewrites=RW,
    items=[
        dict(kind="enum", file=T, path="TokenType"),
        dict(kind="struct", file=T, path="Token"),
        dict(kind="enum", file=PR, path="Precedence"),
        dict(kind="enum", file=AE, path="AccessType"),
        dict(kind="struct", file=AE, path="ParseContext"),
        dict(kind="struct", file=AE, path="Identifier"),
        dict(kind="struct", file=AE, path="FunctionLiteral"),
        dict(kind="struct", file=AE, path="IntegerLiteral"),
        dict(kind="enum", file=AE, path="Expression"),
        dict(kind="struct", file=AS, path="LetStmt"),
        dict(kind="struct", file=AS, path="ReturnStmt"),
        dict(kind="struct", file=AS, path="ContinueStmt"),
        dict(kind="struct", file=AS, path="BreakStmt"),
        dict(kind="struct", file=AS, path="LoopStmt"),
        dict(kind="struct", file=AS, path="WhileStmt"),
        dict(kind="struct", file=AS, path="ExpressionStmt"),
        dict(kind="struct", file=AS, path="BlockStatement"),
        dict(kind="enum", file=AS, path="FilterPattern"),
        dict(kind="fn", file=AS, path="FilterPattern::is_none", ret="r", ensures=["r == (*self is None)"], props=["C01"]),
        dict(kind="struct", file=AS, path="FilterStmt"),
        dict(kind="enum", file=AS, path="Statement"),
        dict(kind="struct", file=PM, path="Parser"),
        m("next_token", ensures=["nerr(final(self)) == nerr(old(self))", "final(self).scanner.left() <= old(self).scanner.left()",
                                 "final(self).current.ttype == old(self).peek_next.ttype", "final(self).previous.ttype == old(self).current.ttype",
                                 "sync_measure(final(self)) <= sync_measure(old(self))",
                                 "old(self).peek_next.ttype != TokenType::Eof ==> sync_measure(final(self)) < sync_measure(old(self))"]),
        m("prev_token_is", ret="r", ensures=["r == (self.previous.ttype == *ttype)"]),
        m("curr_token_is", ret="r", ensures=["r == (self.current.ttype == *ttype)"]),
        m("peek_token_is", ret="r", ensures=["r == (self.peek_next.ttype == *ttype)"]),
        # error recovery terminates for every input (decreases: input left + look-ahead not yet Eof)
        m("synchronize", ensures=["nerr(final(self)) == nerr(old(self))", "final(self).scanner.left() <= old(self).scanner.left()"],
          loops={0: dict(invariant=["nerr(self) == nerr(old(self))", "self.scanner.left() <= old(self).scanner.left()"], decreases="sync_measure(self)")}),
        m("push_error_at", ensures=["nerr(final(self)) == nerr(old(self)) + 1", "final(self).scanner.left() <= old(self).scanner.left()"]),
        m("push_error", ensures=["nerr(final(self)) == nerr(old(self)) + 1", "final(self).scanner.left() <= old(self).scanner.left()"]),
        m("peek_error", ensures=["nerr(final(self)) == nerr(old(self)) + 1", "final(self).scanner.left() <= old(self).scanner.left()"]),
        m("expect_peek", ret="r", ensures=["r ==> nerr(final(self)) == nerr(old(self))", "!r ==> nerr(final(self)) == nerr(old(self)) + 1",
                                            "final(self).scanner.left() <= old(self).scanner.left()"]),
        m("peek_invalid_assignment", ensures=["nerr(final(self)) >= nerr(old(self))", "final(self).scanner.left() <= old(self).scanner.left()"]),
        m("parse_let_statement", ret="r", ensures=STMT),
        m("parse_return_statement", ret="r", ensures=STMT),
        m("parse_block_begin", ret="r", ensures=STMT),
        m("parse_loop_statement", ret="r", ensures=STMT),
        m("parse_while_statement", ret="r", ensures=STMT),
        m("parse_break_statement", ret="r", ensures=STMT),
        m("parse_continue_statement", ret="r", ensures=STMT),
        m("parse_function_statement", ret="r", ensures=STMT),
        m("parse_filter_statement", ret="r", ensures=STMT),
        m("parse_expr_statement", ret="r", ensures=STMT),
        m("parse_statement", ret="r", ensures=STMT),
    ] + [dict(kind="fn", file="src/parser/rules.rs", path="Parser::parse_%s" % n, ret="r", props=["C01"],
              # token invariant from the scanner: a radix literal token starts with its 2-character ASCII prefix (0x / 0o / 0b)
              requires=["old(self).current.literal@.len() >= 2"],
              ensures=["nerr(final(self)) >= nerr(old(self))"],
              rewrites=[dict(rule="R3", re=r"&(\w+(?:\.\w+)*)\.literal\[2\.\.\]", to=r"str_tail2(&\1.literal)", expect=1, strict=True,
                             why="&literal[2..] -> shim whose precondition is that the string has at least 2 (ASCII) characters"),
                        dict(rule="R3", re=r"i64::from_str_radix\(str_value, \d+\)", to="i64_from_str_radix(str_value)", expect=1, why="std parser shim (arbitrary result)"),
                        dict(rule="R0", re=r"\(&mut self, _: bool\)", to="(&mut self, _unused: bool)", why="`_` parameter named (Verus needs an identifier)"),
                        dict(rule="R1", re=r"\btoken\.clone\(\)", to="clone_token(&token)", why="Token::clone -> structural copy shim")])
         for n in ("octal", "hexadecimal", "binary")] + [
    ],
)
