global size_of usize == 8;

// ---- the scanner behind the contract proved in the scanner unit (next_token: progress, Eof at end of input) ----
#[verifier::external_body] pub struct Scanner { _p: () }
impl Scanner {
    // characters left before the end of input (scanner unit: remaining())
    pub uninterp spec fn left(&self) -> nat;
}
#[verifier::external_body]
pub fn scanner_next_token(s: &mut Scanner) -> (t: Token)
    ensures
        final(s).left() <= old(s).left(),
        t.ttype != TokenType::Eof ==> final(s).left() < old(s).left(),
{ unimplemented!() }
#[verifier::external_body] pub fn scanner_get_line(s: &Scanner) -> (r: usize) { unimplemented!() }

// ---- AST payloads the statement parsers only move around: opaque ----
#[verifier::external_body] pub struct NullLiteral { _p: () }
#[verifier::external_body] pub struct Underscore { _p: () }
#[verifier::external_body] pub struct BuiltinID { _p: () }
#[verifier::external_body] pub struct FloatLiteral { _p: () }
#[verifier::external_body] pub struct StringLiteral { _p: () }
#[verifier::external_body] pub struct CharLiteral { _p: () }
#[verifier::external_body] pub struct ByteLiteral { _p: () }
#[verifier::external_body] pub struct UnaryExpr { _p: () }
#[verifier::external_body] pub struct BinaryExpr { _p: () }
#[verifier::external_body] pub struct BooleanExpr { _p: () }
#[verifier::external_body] pub struct IfExpr { _p: () }
#[verifier::external_body] pub struct MatchExpr { _p: () }
#[verifier::external_body] pub struct CallExpr { _p: () }
#[verifier::external_body] pub struct ArrayLiteral { _p: () }
#[verifier::external_body] pub struct HashLiteral { _p: () }
#[verifier::external_body] pub struct IndexExpr { _p: () }
#[verifier::external_body] pub struct AssignExpr { _p: () }
#[verifier::external_body] pub struct RangeExpr { _p: () }
#[verifier::external_body] pub struct DotExpr { _p: () }
#[verifier::external_body] pub struct PktPropExpr { _p: () }

pub type ParseError = String;
pub type ParseErrors = Vec<ParseError>;

pub open spec fn nerr(p: &Parser) -> nat { p.errors@.len() }
// termination measure of error recovery: input left, plus one while the look-ahead token is not Eof
pub open spec fn sync_measure(p: &Parser) -> nat { p.scanner.left() + (if p.peek_next.ttype != TokenType::Eof { 1nat } else { 0nat }) }

#[verifier::external_body] pub fn clone_token(t: &Token) -> (r: Token) ensures r.ttype == t.ttype, r.line == t.line, r.literal@ == t.literal@ { unimplemented!() }
#[verifier::external_body] pub fn string_clone(s: &String) -> (r: String) ensures r@ == s@ { s.clone() }
#[verifier::external_body] pub fn clone_expr(e: &Expression) -> (r: Expression) ensures r == *e { unimplemented!() }
#[verifier::external_body] pub fn tt_eq(a: &TokenType, b: &TokenType) -> (r: bool) ensures r == (*a == *b) { unimplemented!() }
#[verifier::external_body] pub fn fmt_any() -> (r: String) { String::new() }

// the expression parser (Pratt loop + ~45 prefix/infix functions) and the block parser: not under contract here;
// assumed to record diagnostics only by appending and to consume input monotonically
#[verifier::external_body]
pub fn parse_expression_shim(p: &mut Parser, precedence: Precedence, property: bool) -> (r: Expression)
    ensures nerr(final(p)) >= nerr(old(p)), final(p).scanner.left() <= old(p).scanner.left()
{ unimplemented!() }
#[verifier::external_body]
pub fn parse_block_statement_shim(p: &mut Parser) -> (r: BlockStatement)
    ensures nerr(final(p)) >= nerr(old(p)), final(p).scanner.left() <= old(p).scanner.left()
{ unimplemented!() }
#[verifier::external_body]
pub fn parse_function_params_shim(p: &mut Parser) -> (r: Vec<Identifier>)
    ensures nerr(final(p)) >= nerr(old(p)), final(p).scanner.left() <= old(p).scanner.left()
{ unimplemented!() }

#[verifier::external_body]
pub fn str_tail2(s: &String) -> (r: &str) requires s@.len() >= 2 { &s[2..] }
#[verifier::external_body]
pub fn i64_from_str_radix(s: &str) -> (r: Result<i64, ()>) { unimplemented!() }
