global size_of usize == 8;

// ---- abstract view of a symbol table: name -> symbols in definition order, enclosing table, captured originals ----
pub open spec fn visible(s: &Symbol, depth: usize) -> bool {
    s.depth <= depth || s.scope == SymbolScope::Free
}

// index of the last symbol of `syms` visible at `depth`, or -1
pub open spec fn last_visible(syms: Seq<Rc<Symbol>>, depth: usize, n: int) -> int
    decreases n
{
    if n <= 0 { -1 } else if visible(&*syms[n - 1], depth) { n - 1 } else { last_visible(syms, depth, n - 1) }
}

pub proof fn lemma_last_visible(syms: Seq<Rc<Symbol>>, depth: usize, n: int)
    requires 0 <= n <= syms.len()
    ensures
        -1 <= last_visible(syms, depth, n) < n,
        last_visible(syms, depth, n) >= 0 ==> visible(&*syms[last_visible(syms, depth, n)], depth),
        forall|j: int| last_visible(syms, depth, n) < j < n ==> !visible(&*#[trigger] syms[j], depth),
    decreases n
{
    if n > 0 && !visible(&*syms[n - 1], depth) { lemma_last_visible(syms, depth, n - 1); }
}

pub proof fn lemma_lv_is(syms: Seq<Rc<Symbol>>, depth: usize, n: int, k: int)
    requires 0 <= k < n <= syms.len(), visible(&*syms[k], depth),
             forall|j: int| k < j < n ==> !visible(&*#[trigger] syms[j], depth)
    ensures last_visible(syms, depth, n) == k
    decreases n
{
    if n - 1 > k { lemma_lv_is(syms, depth, n - 1, k); }
}

pub proof fn lemma_lv_none(syms: Seq<Rc<Symbol>>, depth: usize, n: int)
    requires 0 <= n <= syms.len(), forall|j: int| 0 <= j < n ==> !visible(&*#[trigger] syms[j], depth)
    ensures last_visible(syms, depth, n) == -1
    decreases n
{
    if n > 0 { lemma_lv_none(syms, depth, n - 1); }
}

pub open spec fn is_shared_scope(s: SymbolScope) -> bool {
    s == SymbolScope::Global || s == SymbolScope::BuiltinFn || s == SymbolScope::BuiltinVar
}

// abstract view of the store: name (as characters) -> symbols in definition order.
// std::collections::HashMap<String, Vec<_>> is reached only through the shims below, which state the
// std meaning of get / insert / entry().or_default().push() / retain over this view.
pub type Store = HashMap<String, Vec<Rc<Symbol>>>;
pub uninterp spec fn sview(m: &Store) -> Map<Seq<char>, Seq<Rc<Symbol>>>;

// the symbols of `name` in table t ([] when absent)
pub open spec fn syms_of(t: &SymbolTable, name: Seq<char>) -> Seq<Rc<Symbol>> {
    if sview(&t.store).contains_key(name) { sview(&t.store)[name] } else { Seq::empty() }
}

// does resolving `name` at `depth` find something, purely as a function of the table chain?
pub open spec fn resolvable(t: &SymbolTable, name: Seq<char>, depth: usize) -> bool
    decreases t
{
    last_visible(syms_of(t, name), depth, syms_of(t, name).len() as int) >= 0
    || (t.outer matches Some(o) && resolvable(&*o, name, usize::MAX))
}

#[verifier::external_body]
pub fn str_to_string(s: &str) -> (r: String) ensures r@ == s@ { s.to_string() }

#[verifier::external_body]
pub fn string_clone(s: &String) -> (r: String) ensures r@ == s@ { s.clone() }

// std: HashMap::entry(k).or_default().push(v)  ==  append v to the vector stored under k (creating it)
#[verifier::external_body]
pub fn store_push(m: &mut Store, k: String, v: Rc<Symbol>)
    ensures
        sview(final(m)) == sview(old(m)).insert(k@, (if sview(old(m)).contains_key(k@) { sview(old(m))[k@] } else { Seq::empty() }).push(v)),
{ m.entry(k).or_default().push(v); }

#[verifier::external_body]
pub fn store_new() -> (r: Store) ensures sview(&r) == Map::<Seq<char>, Seq<Rc<Symbol>>>::empty() { HashMap::new() }

#[verifier::external_body]
pub fn store_get<'a>(m: &'a Store, k: &str) -> (r: Option<&'a Vec<Rc<Symbol>>>)
    ensures
        r is Some <==> sview(m).contains_key(k@),
        r is Some ==> r.unwrap()@ == sview(m)[k@],
{ m.get(k) }

#[verifier::external_body]
pub fn store_insert(m: &mut Store, k: String, v: Vec<Rc<Symbol>>)
    ensures sview(final(m)) == sview(old(m)).insert(k@, v@)
{ m.insert(k, v); }

pub open spec fn keep(s: &Symbol, depth: usize) -> bool { s.depth <= depth || s.scope == SymbolScope::Free }
// what Vec::retain(|s| s.depth <= depth || s.scope == Free) leaves, in order
pub open spec fn kept(syms: Seq<Rc<Symbol>>, depth: usize) -> Seq<Rc<Symbol>> { syms.filter(|s: Rc<Symbol>| keep(&*s, depth)) }

// std: for v in m.values_mut() { v.retain(p) }; m.retain(|_, v| !v.is_empty())
#[verifier::external_body]
pub fn store_prune(m: &mut Store, depth: usize)
    ensures
        forall|n: Seq<char>| #[trigger] sview(final(m)).contains_key(n) <==>
            (sview(old(m)).contains_key(n) && kept(sview(old(m))[n], depth).len() > 0),
        forall|n: Seq<char>| sview(final(m)).contains_key(n) ==> #[trigger] sview(final(m))[n] == kept(sview(old(m))[n], depth),
{ unimplemented!() /* original: the two retain statements of SymbolTable::leave_block */ }

#[verifier::external_body]
pub fn scope_eq(a: &SymbolScope, b: &SymbolScope) -> (r: bool) ensures r == (*a == *b) { unimplemented!() }

#[verifier::external_body]
pub fn vec1(s: Rc<Symbol>) -> (r: Vec<Rc<Symbol>>) ensures r@ == seq![s] { vec![s] }

#[verifier::external_body]
pub fn string_as_str(s: &String) -> (r: &str) ensures r@ == s@ { s.as_str() }

// no free-symbol counter in the chain is about to overflow (fewer than 2^64 captures)
pub open spec fn chain_room(t: &SymbolTable) -> bool
    decreases t
{
    t.free_symbols@.len() < usize::MAX && (t.outer matches Some(o) ==> chain_room(&*o))
}

// ---- property-level consequences of the contracts (C04) ----
// (shadowing) right after `define(name, d)` the new symbol is what `resolve(name, d')` returns for every d' >= d
pub proof fn lemma_define_shadows(syms: Seq<Rc<Symbol>>, r: Rc<Symbol>, d: usize)
    requires r.depth <= d
    ensures last_visible(syms.push(r), d, syms.len() as int + 1) == syms.len()
{
    assert(syms.push(r)[syms.len() as int] == r);
}

// (block end) leave_block(d) removes exactly the non-captured symbols deeper than d: a symbol that survives is
// visible at depth d, so what `resolve(name, d)` finds afterwards is the last symbol that was kept, and a binding
// of an ended block can never be returned again
pub proof fn lemma_filter_all_kept(syms: Seq<Rc<Symbol>>, d: usize)
    ensures forall|i: int| 0 <= i < kept(syms, d).len() ==> keep(&*#[trigger] kept(syms, d)[i], d)
{
    let f = |s: Rc<Symbol>| keep(&*s, d);
    assert forall|i: int| 0 <= i < kept(syms, d).len() implies keep(&*#[trigger] kept(syms, d)[i], d) by {
        syms.lemma_filter_pred(f, i);
    }
}

// (un-shadowing) an inner binding deeper than d that was pushed last disappears at leave_block(d):
// the name's symbols are again what they were before the inner `let`
pub proof fn lemma_inner_binding_ends(syms: Seq<Rc<Symbol>>, inner: Rc<Symbol>, d: usize)
    requires !keep(&*inner, d)
    ensures kept(syms.push(inner), d) == kept(syms, d)
{
    assert(syms.push(inner).drop_last() =~= syms);
    reveal(Seq::filter);
}
