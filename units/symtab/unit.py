S = "src/compiler/symtab.rs"

def m(path, **kw):
    d = dict(kind="fn", file=S, path="SymbolTable::" + path, props=["C04"])
    d.update(kw)
    return d

RW = [
    dict(rule="R3", re=r"name\.to_string\(\)", to="str_to_string(name)", why="str::to_string shim (same characters)"),
    dict(rule="R3", re=r"vec!\[Rc::clone\(&symbol\)\]", to="vec1(Rc::clone(&symbol))", why="one-element vec! shim"),
    dict(rule="R1", re=r"([\w\.]+) == SymbolScope::(\w+)", to=r"scope_eq(&\1, &SymbolScope::\2)", why="derived PartialEq on a field-less enum -> structural-equality shim"),
    dict(rule="R1", re=r"([\w\.]+) != SymbolScope::(\w+)", to=r"!scope_eq(&\1, &SymbolScope::\2)", why="derived PartialEq on a field-less enum -> structural-equality shim"),
]

UNIT = dict(
    name="symtab",
    prelude="units/symtab/prelude.rs",
    uses="use std::rc::Rc;\nuse std::collections::HashMap;",
    lemmas={"lemma_last_visible": ["C04"], "lemma_lv_is": ["C04"], "lemma_lv_none": ["C04"], "lemma_define_shadows": ["C04"], "lemma_filter_all_kept": ["C04"], "lemma_inner_binding_ends": ["C04"]},
    global_rewrites=RW,
    items=[
        dict(kind="enum", file=S, path="SymbolScope"),
        dict(kind="struct", file=S, path="Symbol"),
        dict(kind="struct", file=S, path="SymbolTable"),
        dict(kind="fn", file=S, path="Symbol::new", ret="r",
             ensures=["r.name@ == name@", "r.scope == scope", "r.index == index", "r.depth == depth"], props=["C04"]),
        m("get_num_definitions", ret="r", ensures=["r == self.num_definitions"]),
        m("define", ret="r", requires=["old(self).num_definitions < usize::MAX"],
          ensures=[
              "r.name@ == name@", "r.depth == depth", "r.index == old(self).num_definitions",
              "r.scope == (if old(self).outer is None { SymbolScope::Global } else { SymbolScope::Local })",
              "final(self).num_definitions == old(self).num_definitions + 1",
              # the new symbol is the most recent one under its name; every other name is untouched
              "syms_of(final(self), name@) == syms_of(old(self), name@).push(r)",
              "forall|n: Seq<char>| n != name@ ==> syms_of(final(self), n) == syms_of(old(self), n)",
              "final(self).outer == old(self).outer", "final(self).free_symbols == old(self).free_symbols"],
          rewrites=[dict(rule="R3", re=r"self\.store\s*\.entry\(name\.to_string\(\)\)\s*\.or_default\(\)\s*\.push\(Rc::clone\(&symbol\)\);",
                         to="store_push(&mut self.store, str_to_string(name), Rc::clone(&symbol));", expect=1,
                         why="HashMap::entry().or_default().push() -> shim with the std meaning")]),
        m("new_enclosed", ret="r",
          ensures=["r.outer matches Some(o) && *o == outer", "r.num_definitions == 0", "r.free_symbols@.len() == 0",
                   "forall|n: Seq<char>| syms_of(&r, n).len() == 0"],
          rewrites=[dict(rule="R3", re=r"HashMap::new\(\)", to="store_new()", expect=1, why="HashMap::new shim over the abstract store view")]),
        m("define_free", ret="r", requires=["old(self).free_symbols@.len() < usize::MAX"],
          ensures=["r.scope == SymbolScope::Free", "r.index == old(self).free_symbols@.len()", "r.depth == original.depth", "r.name@ == original.name@",
                   "final(self).free_symbols@ == old(self).free_symbols@.push(original)",
                   "syms_of(final(self), original.name@) == seq![r]",
                   "forall|n: Seq<char>| n != original.name@ ==> syms_of(final(self), n) == syms_of(old(self), n)",
                   "final(self).outer == old(self).outer", "final(self).num_definitions == old(self).num_definitions"],
          rewrites=[dict(rule="R3", re=r"self\.store\.insert\(symbol\.name\.clone\(\), vec!\[symbol\.clone\(\)\]\);", to="store_insert(&mut self.store, string_clone(&symbol.name), vec1(symbol.clone()));", expect=1, why="HashMap::insert shim over the abstract store view"),
                    dict(rule="R3", re=r"&original\.name,", to="string_as_str(&original.name),", expect=1, why="&String -> &str deref made explicit")]),
        m("leave_block",
          ensures=["forall|n: Seq<char>| #[trigger] syms_of(final(self), n) == kept(syms_of(old(self), n), depth)",
                   "final(self).outer == old(self).outer", "final(self).free_symbols == old(self).free_symbols",
                   "final(self).num_definitions == old(self).num_definitions"],
          rewrites=[dict(rule="R3", re=r"for symbols in self\.store\.values_mut\(\) (/\*@L0@\*/)\{(/\*@LB0@\*/)\s*symbols\.retain\(\|s\| [^;]*?\);\s*(/\*@LE0@\*/)\}(/\*@LA0@\*/)\s*self\.store\.retain\(\|_, symbols\| !symbols\.is_empty\(\)\);",
                         to="store_prune(&mut self.store, depth);", expect=1, strict=True,
                         why="values_mut()/retain -> one shim stating the std meaning of the two retain statements (filter by the predicate verified below as verif_retain_pred, then drop empty vectors)")],
          aux=[dict(re=r"symbols\.retain\(\|s\| ([^;]*?)\);",
                    template=r"pub fn verif_retain_pred(s: &Rc<Symbol>, depth: usize) -> (r: bool)\n    ensures r == keep(&**s, depth)\n{ \1 }\n",
                    why="the predicate closure given to Vec::retain, verified as a function against keep()")]),
        m("resolve", ret="r", requires=["chain_room(old(self))"],
          ensures=[
              # found in this table: the most recent symbol visible at `depth`, and the table is unchanged
              "last_visible(syms_of(old(self), name@), depth, syms_of(old(self), name@).len() as int) >= 0 ==> r == Some(syms_of(old(self), name@)[last_visible(syms_of(old(self), name@), depth, syms_of(old(self), name@).len() as int)]) && *final(self) == *old(self)",
              # a name is resolved exactly when some table of the chain has a visible symbol for it
              "r is Some <==> resolvable(old(self), name@, depth)",
              "r is None ==> *final(self) == *old(self)",
              # found only in an enclosing function: shared scopes are returned as they are, anything else is captured
              "(r matches Some(s) && last_visible(syms_of(old(self), name@), depth, syms_of(old(self), name@).len() as int) < 0) ==> (is_shared_scope(r.unwrap().scope) || (r.unwrap().scope == SymbolScope::Free && r.unwrap().index == old(self).free_symbols@.len() && final(self).free_symbols@.len() == old(self).free_symbols@.len() + 1 && syms_of(final(self), r.unwrap().name@) == seq![r.unwrap()]))",
              "final(self).num_definitions == old(self).num_definitions",
          ],
          decreases="*old(self)",
          rewrites=[dict(rule="R3", re=r"self\.store\.get\(name\)", to="store_get(&self.store, name)", expect=1, why="HashMap::get shim over the abstract store view"),
                    dict(rule="R5", re=r"for symbol in symbols\.iter\(\)\.rev\(\) (/\*@L0@\*/)\{(/\*@LB0@\*/)", to=r"let mut ri: usize = symbols.len(); while ri > 0 \1{ ri -= 1; let symbol = &symbols[ri]; \2", expect=1, why="iter().rev() -> index loop from the end"),
                    dict(rule="R9", re=r"return Some\(Rc::clone\(symbol\)\);", to="proof { lemma_lv_is(symbols@, depth, symbols@.len() as int, ri as int); } return Some(Rc::clone(symbol));", expect=1, why="proof-only lemma call")],
          loops={0: dict(invariant=["ri <= symbols@.len()", "symbols@ == syms_of(old(self), name@)", "*self == *old(self)",
                                    "forall|j: int| ri <= j < symbols@.len() ==> !visible(&*#[trigger] symbols@[j], depth)"],
                         decreases="ri", after=" proof { lemma_lv_none(symbols@, depth, symbols@.len() as int); } ")}),
    ],
)
