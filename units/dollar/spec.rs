#[verifier::external_body] pub fn rc_null() -> (r: Rc<Object>) ensures *r == Object::Null { unimplemented!() }

pub open spec fn is_null(r: Result<Rc<Object>, RTError>) -> bool { r matches Ok(n) && *n == Object::Null }

pub enum Step { To(Rc<Object>), Fail(RTError), Null, Stop }

pub open spec fn via(x: Result<Rc<Object>, RTError>) -> Step { match x { Ok(o) => Step::To(o), Err(e) => Step::Fail(e) } }

// C16: one level down from `o` - the cached layer if there is one, else the layer the dispatch field selects (read through the
// layer getter exec_prop_*), null for an unsupported one; anything that is not a layer (null, an error object) stays as it is
pub open spec fn next_of(o: Rc<Object>) -> Step {
    match *o {
        Object::Packet(p) => match p.cached() { Some(i) => Step::To(i), None => via(VM::spec_prop_packet(p, PacketPropType::Eth)) },
        Object::Eth(e) => match e.cached() { Some(i) => Step::To(i), None =>
            if e.sel() == 0x8100 { via(VM::spec_prop_eth(e, PacketPropType::Vlan)) }
            else if e.sel() == 0x0800 { via(VM::spec_prop_eth(e, PacketPropType::Ipv4)) }
            else if e.sel() == 0x86DD { via(VM::spec_prop_eth(e, PacketPropType::Ipv6)) }
            else { Step::Null } },
        Object::Vlan(v) => match v.cached() { Some(i) => Step::To(i), None =>
            if v.sel() == 0x8100 { via(VM::spec_prop_vlan(v, PacketPropType::Vlan)) }
            else if v.sel() == 0x0800 { via(VM::spec_prop_vlan(v, PacketPropType::Ipv4)) }
            else if v.sel() == 0x86DD { via(VM::spec_prop_vlan(v, PacketPropType::Ipv6)) }
            else { Step::Null } },
        Object::Ipv4(p) => match p.cached() { Some(i) => Step::To(i), None =>
            if p.sel() == 17 { via(VM::spec_prop_ipv4(p, PacketPropType::Udp)) }
            else if p.sel() == 6 { via(VM::spec_prop_ipv4(p, PacketPropType::Tcp)) }
            else if p.sel() == 41 { via(VM::spec_prop_ipv4(p, PacketPropType::Ipv6)) }
            else { Step::Null } },
        Object::Ipv6(p) => match p.cached() { Some(i) => Step::To(i), None =>
            if p.sel() == 17 { via(VM::spec_prop_ipv6(p, PacketPropType::Udp)) }
            else if p.sel() == 6 { via(VM::spec_prop_ipv6(p, PacketPropType::Tcp)) }
            else { Step::Null } },
        Object::Udp(u) => match u.cached() { Some(i) => Step::To(i), None => Step::Null },
        Object::Tcp(t) => match t.cached() { Some(i) => Step::To(i), None => Step::Null },
        _ => Step::Stop,
    }
}

// what `$depth` applied to `o` must be
pub open spec fn descends(o: Rc<Object>, depth: nat, r: Result<Rc<Object>, RTError>) -> bool decreases depth {
    if depth == 0 { r == Ok::<Rc<Object>, RTError>(o) } else {
        match next_of(o) {
            Step::To(x) => descends(x, (depth - 1) as nat, r),
            Step::Fail(e) => r == Err::<Rc<Object>, RTError>(e),
            Step::Null => is_null(r),
            Step::Stop => r == Ok::<Rc<Object>, RTError>(o),
        }
    }
}
