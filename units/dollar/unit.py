"""C16 ($n and layer descent, Verus): vm/pktprop.rs::get_inner, verbatim, with recursion. The postcondition is the property's
own sentence: $n descends into the layer selected by the EtherType (0x8100 VLAN, 0x0800 IPv4, 0x86DD IPv6), the IPv4 protocol
(17 UDP, 6 TCP, 41 IPv6) or the IPv6 next header (17 UDP, 6 TCP); a cached layer is followed as it is; an unsupported layer
yields null; a truncated layer's error object (or any non-layer object) is returned as it is; depth 0 is the object itself.
The dispatch constants (EtherTypes / Protocols / NextHeaders) are copied from the tree under check, so a changed constant
changes the verified text. Termination: decreases depth."""
import re

from vlib import core

P = "src/vm/pktprop.rs"
PR = "src/builtins/protocols/"


def consts():
    out = []
    for f, ty, mod, w in ((PR + "ethernet.rs", "EtherType", "EtherTypes", "u16"), (PR + "ipv4.rs", "Protocol", "Protocols", "u8"), (PR + "ipv6.rs", "NextHeader", "NextHeaders", "u8")):
        src = core.index(f)["src"].decode()
        m = re.search(r"pub mod %s \{.*?\n\}" % mod, src, re.S)
        if not m:
            raise core.Undecided("lost anchor: mod %s in %s" % (mod, f))
        out.append("#[derive(PartialEq, Eq)]\npub struct %s(pub %s);\n#[allow(unused, non_upper_case_globals, non_snake_case)]\n%s\n" % (ty, w, m.group(0)))
    return "\n".join(out)


LAYERS = [("PcapPacket", "pkt", "packet", None), ("Ethernet", "eth", "eth", "EtherType"), ("Vlan", "vlan", "vlan", "EtherType"), ("Ipv4Packet", "ipv4", "ipv4", "Protocol"),
          ("Ipv6Packet", "ipv6", "ipv6", "NextHeader"), ("Udp", "udp", "udp", None), ("Tcp", "tcp", "tcp", None)]
RAWGET = {"Ethernet": "get_ethertype_raw", "Vlan": "get_ethertype_raw", "Ipv4Packet": "get_protocol_raw", "Ipv6Packet": "get_next_header_raw"}


def prelude():
    b = ["global size_of usize == 8;", consts(),
         "pub enum PacketPropType { Eth, Vlan, Ipv4, Ipv6, Udp, Tcp, Payload, Other }",
         "pub struct RTError { pub line: usize }",
         "pub enum Object { Null, Packet(Rc<PcapPacket>), Eth(Rc<Ethernet>), Vlan(Rc<Vlan>), Ipv4(Rc<Ipv4Packet>), Ipv6(Rc<Ipv6Packet>), Udp(Rc<Udp>), Tcp(Rc<Tcp>), Other }",
         "pub struct VM { pub _p: u8 }"]
    for ty, var, short, sel in LAYERS:
        b.append("#[verifier::external_body] pub struct %s { _p: () }" % ty)
        b.append("impl %s {" % ty)
        b.append("    pub uninterp spec fn cached(&self) -> Option<Rc<Object>>;")
        if sel:
            w = "u16" if sel == "EtherType" else "u8"
            b.append("    pub uninterp spec fn sel(&self) -> %s;" % w)
            b.append("    #[verifier::external_body] pub fn %s(&self) -> (r: %s) ensures r.0 == self.sel() { unimplemented!() }" % (RAWGET[ty], sel))
        b.append("}")
        b.append("#[verifier::external_body] pub fn %s_cached(l: &Rc<%s>) -> (r: Option<Rc<Object>>) ensures r == l.cached() { unimplemented!() }" % (var, ty))
    b.append("impl VM {")
    for ty, var, short, sel in LAYERS[:5]:
        b.append("    pub uninterp spec fn spec_prop_%s(o: Rc<%s>, prop: PacketPropType) -> Result<Rc<Object>, RTError>;" % (short, ty))
        b.append("    #[verifier::external_body] pub fn exec_prop_%s(&self, o: Rc<%s>, prop: PacketPropType, setval: Option<Rc<Object>>, line: usize) -> (r: Result<Rc<Object>, RTError>)\n"
                 "        ensures setval is None ==> r == VM::spec_prop_%s(o, prop), r matches Err(e) ==> e.line == line { unimplemented!() }" % (short, ty, short))
    b.append("}")
    with open(core.VERIF + "/units/dollar/spec.rs") as f:
        b.append(f.read())
    return "\n".join(b) + "\n"


RW = [dict(rule="R2", re=r"\b(%s)\.inner\.borrow\(\)\.clone\(\)" % "|".join(v for _, v, _, _ in LAYERS), to=r"\1_cached(&\1)", expect=7, why="RefCell erased: read of the layer's inner cache"),
      dict(rule="R3", re=r"obj\.as_ref\(\)", to="&**obj", expect=1, why="Rc::as_ref through a reference -> deref"),
      dict(rule="R3", re=r"Rc::new\(Object::Null\)", to="rc_null()", why="Rc::new(Object::Null) shim")]

UNIT = dict(
    name="dollar",
    uses="use std::rc::Rc;",
    lemmas={},
    items=[
        dict(kind="raw", label="prelude", text=prelude()),
        dict(kind="fn", file=P, path="VM::get_inner", ret="r", props=["C16", "C08"], decreases="depth",
             ensures=["descends(*obj, depth as nat, r)",
                      # C13: an error met on the way (raised by a layer getter) carries the instruction's line
                      "r matches Err(e) ==> e.line == line"], rewrites=RW, impl="VM"),
    ],
)
