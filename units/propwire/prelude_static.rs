// ---- objects: only what the property arms build ----
pub struct Array { pub elements: Vec<Rc<Object>> }
impl Array {
    #[verifier::external_body]
    pub fn new(e: Vec<Rc<Object>>) -> (r: Array) ensures r.elements@ == e@ { unimplemented!() }
}
pub enum Object { Null, Byte(u8), Arr(Rc<Array>), Pcap(Rc<Pcap>), Packet(Rc<PcapPacket>), Eth(Rc<Ethernet>), Vlan(Rc<Vlan>), Ipv4(Rc<Ipv4Packet>), Ipv6(Rc<Ipv6Packet>), Udp(Rc<Udp>), Tcp(Rc<Tcp>), Other }
pub struct RTError { pub line: usize }
impl RTError {
    #[verifier::external_body]
    pub fn new(msg: &str, line: usize) -> (r: RTError) ensures r.line == line { unimplemented!() }
}
#[verifier::external_body] pub struct PacketPropType { _p: () }
#[verifier::external_body] pub fn fmt_any() -> (r: String) { unimplemented!() }

pub open spec fn bval(o: Rc<Object>) -> u8 { match *o { Object::Byte(b) => b, _ => 0u8 } }
pub open spec fn byte_vals(s: Seq<Rc<Object>>) -> Seq<u8> { Seq::new(s.len(), |i: int| bval(s[i])) }
pub open spec fn all_byte_objs(s: Seq<Rc<Object>>) -> bool { forall|i: int| 0 <= i < s.len() ==> *#[trigger] s[i] is Byte }
// C16: the payload of a layer is what follows its header in the captured buffer (nothing when the header runs past the end)
pub open spec fn bytes_from(raw: Seq<u8>, start: int) -> Seq<u8> {
    if 0 <= start <= raw.len() { raw.subrange(start, raw.len() as int) } else { Seq::<u8>::empty() }
}

// ---- exec_prop_expr: dispatch on the kind of the object ----
pub uninterp spec fn prop_of(code: u8) -> PacketPropType;
#[verifier::external_body] pub fn prop_from_u8(code: u8) -> (r: PacketPropType) ensures r == prop_of(code) { unimplemented!() }
pub struct VM { pub _p: u8 }
