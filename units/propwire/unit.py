"""C16 / C17 wiring (Verus): the scalar, payload and default arms of vm/pktprop.rs::exec_prop_* and the dispatch of
exec_prop_expr. The Kani `headers` / `pcapcodec` units prove what each getter and setter of a layer does to the bytes; this
unit proves that every documented property name reaches THAT getter and setter and no other:

  read  `obj.<prop>`      == the getter the documentation's table names for <prop>
  write `obj.<prop> = v`  calls only that property's setter; the result is v when the setter accepts, a runtime error
                          carrying the instruction's line when it refuses; read-only properties refuse every assignment
  payload                 == the bytes of the captured buffer after the layer's header (payload offset), as Byte objects
  any other property      == a runtime error carrying the line

The layer types are opaque here: one shim per get_*/set_* method found in the layer's impl at run time (so a call to ANY
existing method type-checks and is then judged by the contract, instead of ending as a tool error)."""
import re

from vlib import core

P = "src/vm/pktprop.rs"
PR = "src/builtins/protocols/"

# type -> (file, variable used in pktprop.rs, exec_prop function)
TYPES = {
    "Pcap": ("src/builtins/pcap.rs", "pcap", "exec_prop_pcap"),
    "PcapPacket": ("src/builtins/pcap.rs", "pkt", "exec_prop_packet"),
    "Ethernet": (PR + "ethernet.rs", "eth", "exec_prop_eth"),
    "Vlan": (PR + "vlan.rs", "vlan", "exec_prop_vlan"),
    "Ipv4Packet": (PR + "ipv4.rs", "ipv4", "exec_prop_ipv4"),
    "Ipv6Packet": (PR + "ipv6.rs", "ipv6", "exec_prop_ipv6"),
    "Udp": (PR + "udp.rs", "udp", "exec_prop_udp"),
    "Tcp": (PR + "tcp.rs", "tcp", "exec_prop_tcp"),
}

# The oracle: docs/language/property.md (property name -> field) through the PacketPropType variant whose Display text is
# that name (checked by the scans below). (variant, accessor base name, writable)
ORACLE = {
    "Pcap": [("Magic", "magic_number", True), ("Major", "version_major", True), ("Minor", "version_minor", True), ("ThisZone", "thiszone", True),
             ("SigFigs", "sigfigs", True), ("Snaplen", "snaplen", True), ("LinkType", "linktype", True)],
    "PcapPacket": [("Sec", "ts_sec", True), ("USec", "ts_usec", True), ("Caplen", "caplen", True), ("Wirelen", "wirelen", True)],
    "Ethernet": [("Dst", "dst", True), ("Src", "src", True), ("EtherType", "ethertype", True)],
    "Vlan": [("Priority", "priority", True), ("Dei", "dei", True), ("Id", "vlan_id", True), ("EtherType", "ethertype", True)],
    "Ipv4Packet": [("Version", "version", False), ("Ihl", "ihl", True), ("TotalLength", "total_length", True), ("Id", "identification", True), ("Dscp", "dscp", True),
                   ("Ecn", "ecn", True), ("Flags", "flags", True), ("FragmentOffset", "fragment_offset", True), ("Ttl", "ttl", True), ("Protocol", "protocol", True),
                   ("Checksum", "checksum", True), ("Src", "src", True), ("Dst", "dst", True)],
    "Ipv6Packet": [("Version", "version", False), ("TrafficClass", "traffic_class", True), ("FlowLabel", "flow_label", True), ("Length", "payload_length", True),
                   ("NextHeader", "next_header", True), ("HopLimit", "hop_limit", True), ("Src", "src", True), ("Dst", "dst", True)],
    "Udp": [("SrcPort", "source_port", True), ("DstPort", "destination_port", True), ("Length", "length", True), ("Checksum", "checksum", True)],
    "Tcp": [("SrcPort", "source_port", True), ("DstPort", "destination_port", True), ("Sequence", "sequence", True), ("Ack", "ack", True), ("DataOffset|PacketPropType::Length", "data_off", True),
            ("Flags", "flags", True), ("WindowSize", "window_size", True), ("Checksum", "checksum", True), ("Urgent", "urgent", True)],
}
# documented name of each variant (docs/language/property.md) - the Display arm must print exactly that
NAMES = {"Magic": "magic", "Major": "major", "Minor": "minor", "ThisZone": "thiszone", "SigFigs": "sigfigs", "Snaplen": "snaplen", "LinkType": "linktype", "Sec": "sec",
         "USec": "usec", "Caplen": "caplen", "Wirelen": "wirelen", "Payload": "payload", "Eth": "eth", "Src": "src", "Dst": "dst", "EtherType": "type", "Vlan": "vlan", "Id": "id",
         "Priority": "priority", "Dei": "dei", "Ipv4": "ipv4", "Version": "version", "Ihl": "ihl", "TotalLength": "totlen", "Dscp": "dscp", "Ecn": "ecn", "Flags": "flags",
         "FragmentOffset": "fragoff", "Ttl": "ttl", "Protocol": "proto", "Checksum": "checksum", "Udp": "udp", "SrcPort": "srcport", "DstPort": "dstport", "Length": "len",
         "Tcp": "tcp", "Sequence": "seq", "Ack": "ack", "DataOffset": "dataoff", "WindowSize": "winsize", "Urgent": "urgent", "Ipv6": "ipv6", "TrafficClass": "trafficclass",
         "FlowLabel": "flowlabel", "NextHeader": "nextheader", "HopLimit": "hoplimit"}
# payload arms: where the payload starts (None = the whole captured buffer)
PAYLOAD_OFF = {"PcapPacket": None, "Ethernet": "off", "Vlan": "off", "Ipv4Packet": "off", "Ipv6Packet": "off", "Udp": "off", "Tcp": "poff"}


def methods_of(ty, file):
    """get_*/set_* methods of `impl <ty>` in the tree under check: (name, kind) with kind in get/set/other"""
    idx = core.index(file)
    out = []
    for it in idx["list"]:
        if it["kind"] != "fn" or not it["path"].startswith(ty + "::") or it.get("impl_trait"):
            continue
        n = it["name"]
        ins = it.get("inputs", [])
        outty = (it.get("output") or {}).get("ty", "").replace(" ", "")
        if n.startswith("get_") and len(ins) == 1 and outty == "Rc<Object>":
            out.append((n, "get"))
        elif n.startswith("set_") and len(ins) == 2 and outty == "Result<(),String>":
            out.append((n, "set"))
    return out


def prelude():
    tags, body = [], []
    for ty, (file, var, fn) in TYPES.items():
        ms = methods_of(ty, file)
        bases = sorted(set(n[4:] for n, _ in ms))
        for b in bases:
            tags.append("%s_%s" % (ty, b))
        body.append("#[verifier::external_body] pub struct %s { _p: () }" % ty)
        body.append("impl %s {" % ty)
        body.append("    pub uninterp spec fn field(&self, t: Tag) -> Rc<Object>;")
        body.append("    pub uninterp spec fn set_ok(&self, t: Tag, v: Rc<Object>) -> bool;")
        body.append("    pub uninterp spec fn raw(&self) -> Rc<Vec<u8>>;")
        body.append("    pub uninterp spec fn off(&self) -> usize;      // where the payload starts (field `offset`)")
        body.append("    pub uninterp spec fn poff(&self) -> usize;     // Tcp::payload_offset()")
        for n, k in ms:
            t = "Tag::%s_%s" % (ty, n[4:])
            if k == "get":
                body.append("    #[verifier::external_body] pub fn %s(&self) -> (r: Rc<Object>) ensures r == self.field(%s) { unimplemented!() }" % (n, t))
            else:
                body.append("    #[verifier::external_body] pub fn %s(&self, v: Rc<Object>) -> (r: Result<(), String>) requires wired() == %s ensures r is Ok <==> self.set_ok(%s, v) { unimplemented!() }" % (n, t, t))
        if ty == "Tcp":
            body.append("    #[verifier::external_body] pub fn payload_offset(&self) -> (r: usize) ensures r == self.poff() { unimplemented!() }")
        body.append("}")
        body.append("#[verifier::external_body] pub fn %s_rawdata(l: &Rc<%s>) -> (r: Rc<Vec<u8>>) ensures r == l.raw() { unimplemented!() }" % (var, ty))
        body.append("#[verifier::external_body] pub fn %s_offset(l: &Rc<%s>) -> (r: usize) ensures r == l.off() { unimplemented!() }" % (var, ty))
    # exec_prop_expr's callees: one opaque method per layer kind, each standing for the whole exec_prop_<kind> function
    body.append("impl VM {")
    for ty, (file, var, fn) in TYPES.items():
        body.append("    pub uninterp spec fn spec_%s(o: Rc<%s>, prop: PacketPropType, setval: Option<Rc<Object>>, line: usize) -> Result<Rc<Object>, RTError>;" % (fn, ty))
        body.append("    #[verifier::external_body] pub fn %s(&self, o: Rc<%s>, prop: PacketPropType, setval: Option<Rc<Object>>, line: usize) -> (r: Result<Rc<Object>, RTError>) ensures r == VM::spec_%s(o, prop, setval, line) { unimplemented!() }" % (fn, ty, fn))
    body.append("}")
    head = "global size_of usize == 8;\npub enum Tag { " + ", ".join(tags) + " }\n// the property being served by the arm under verification: a setter may only be called for its own property\npub uninterp spec fn wired() -> Tag;\n"
    with open(core.VERIF + "/units/propwire/prelude_static.rs") as f:
        static = f.read()
    return head + static + "\n".join(body) + "\n"


def scalar_arm(ty, var, fn, variant, base, writable):
    tag = "Tag::%s_%s" % (ty, base)
    ens = ["setval is None ==> r == Ok::<Rc<Object>, RTError>(%s.field(%s))" % (var, tag)]
    if writable:
        ens += ["setval matches Some(v) ==> (%s.set_ok(%s, v) ==> r == Ok::<Rc<Object>, RTError>(v))" % (var, tag),
                "setval matches Some(v) ==> (!%s.set_ok(%s, v) ==> (r matches Err(e) && e.line == line))" % (var, tag)]
    else:
        ens += ["setval is Some ==> (r matches Err(e) && e.line == line)"]
    return dict(kind="arm", file=P, path="VM::" + fn, arm="PacketPropType::" + variant, scrutinee="prop", fn_name="wire_%s_%s" % (var, re.sub(r"[^a-z]+", "_", variant.lower())),
                params="%s: Rc<%s>, setval: Option<Rc<Object>>, line: usize" % (var, ty), ret="r", ret_ty="Result<Rc<Object>, RTError>", wrap="Ok(%s)",
                requires=["wired() == %s" % tag], ensures=ens, props=["C16", "C17", "C13"])


def payload_arm(ty, var, fn):
    offx = PAYLOAD_OFF[ty]
    start = "0int" if offx is None else ("%s.%s() as int" % (var, offx))
    rw = [
        dict(rule="R2", re=r"let payload = %s\.rawdata\.borrow\(\)\.clone\(\);" % var, to="let payload = %s_rawdata(&%s);" % (var, var), expect=1, strict=True, why="RefCell erased: the captured buffer"),
        dict(rule="R2", re=r"\b%s\.offset\b" % var, to="%s_offset(&%s)" % (var, var), why="field of an opaque layer -> accessor shim"),
        dict(rule="R5", re=r"for byte in payload\.iter\(\)\.skip\(((?:[^()]|\([^()]*\))*)\) (/\*@L0@\*/)?\{", to=r"let skipn: usize = \1; let mut pi: usize = if skipn < payload.len() { skipn } else { payload.len() }; while pi < payload.len() \2{ let byte = &payload[pi]; pi += 1;",
             why="iter().skip(n) -> index loop from min(n, len), same elements in the same order"),
        dict(rule="R5", re=r"for byte in payload\.iter\(\) (/\*@L0@\*/)?\{", to=r"let skipn: usize = 0; let mut pi: usize = 0; while pi < payload.len() \1{ let byte = &payload[pi]; pi += 1;",
             why="iter() -> index loop, same elements in the same order"),
        dict(rule="R1", re=r"let mut elements = Vec::new\(\);", to="let mut elements: Vec<Rc<Object>> = Vec::new();", why="type annotation the invariant needs"),
    ]
    want = "bytes_from(%s.raw()@, %s)" % (var, start)
    return dict(kind="arm", file=P, path="VM::" + fn, arm="PacketPropType::Payload", scrutinee="prop", fn_name="wire_%s_payload" % var,
                params="%s: Rc<%s>, setval: Option<Rc<Object>>, line: usize" % (var, ty), ret="r", ret_ty="Result<Rc<Object>, RTError>", wrap="Ok(%s)",
                ensures=["r matches Ok(o) && (*o matches Object::Arr(a) && all_byte_objs(a.elements@) && byte_vals(a.elements@) =~= %s)" % want],
                loops={0: dict(invariant=["payload == %s.raw()" % var, "skipn <= pi <= payload@.len() || (skipn > payload@.len() && pi == payload@.len())", "skipn == %s" % ("0" if offx is None else "%s.%s()" % (var, offx)),
                                          "all_byte_objs(elements@)", "elements@.len() == pi - (if skipn < payload@.len() { skipn as int } else { payload@.len() as int })",
                                          "byte_vals(elements@) =~= payload@.subrange(if skipn < payload@.len() { skipn as int } else { payload@.len() as int }, pi as int)"],
                               decreases="payload@.len() - pi")},
                prologue="", props=["C16"], rewrites=rw)


def default_arm(ty, var, fn):
    return dict(kind="arm", file=P, path="VM::" + fn, arm="_", scrutinee="prop", fn_name="wire_%s_default" % var,
                params="%s: Rc<%s>, prop: PacketPropType, setval: Option<Rc<Object>>, line: usize" % (var, ty), ret="r", ret_ty="Result<Rc<Object>, RTError>", wrap="Ok(%s)",
                ensures=["r matches Err(e) && e.line == line"], props=["C16", "C13"])


items = [dict(kind="raw", label="prelude", text="__PRELUDE__")]
for ty, (file, var, fn) in TYPES.items():
    for (variant, base, writable) in ORACLE[ty]:
        items.append(scalar_arm(ty, var, fn, variant, base, writable))
    if ty in PAYLOAD_OFF:
        items.append(payload_arm(ty, var, fn))
    items.append(default_arm(ty, var, fn))


VARIANT = {"Pcap": "Pcap", "PcapPacket": "Packet", "Ethernet": "Eth", "Vlan": "Vlan", "Ipv4Packet": "Ipv4", "Ipv6Packet": "Ipv6", "Udp": "Udp", "Tcp": "Tcp"}
items.append(dict(
    kind="fn", file=P, path="VM::exec_prop_expr", ret="r", props=["C16", "C17", "C13"],
    ensures=["*left matches Object::%s(x) ==> r == VM::spec_%s(x, prop_of(prop), setval, line)" % (VARIANT[ty], TYPES[ty][2]) for ty in TYPES]
            + ["!(%s) ==> (r matches Err(e) && e.line == line)" % " || ".join("*left is %s" % VARIANT[ty] for ty in TYPES)],
    rewrites=[dict(rule="R3", re=r"PacketPropType::from\(prop\)", to="prop_from_u8(prop)", expect=1, why="From<u8> for PacketPropType behind its (Kani-checked) table"),
              dict(rule="R3", re=r"left\.as_ref\(\)", to="&*left", expect=1, why="Rc::as_ref -> deref")]))


RW = [
    dict(rule="R3f", re=r"&format!\((?:[^()]|\((?:[^()]|\([^()]*\))*\))*\)", to=r"&fmt_any()", why="format! message text dropped (no obligation depends on it)"),
    dict(rule="R3f", re=r"(?<!&)format!\((?:[^()]|\((?:[^()]|\([^()]*\))*\))*\)", to=r"fmt_any()", why="format! message text dropped (no obligation depends on it)"),
]

UNIT = dict(
    name="propwire",
    uses="use std::rc::Rc;",
    lemmas={},
    global_rewrites=RW,
    items=items,
    scans=[dict(file="src/code/prop.rs", regex=r'PacketPropType::%s => "%s",' % (v, n), expect=1, props=["C16", "C17"],
                clause="the property name '%s' of docs/language/property.md is the Display text of PacketPropType::%s (PACKET_PROP_MAP is built from Display)" % (n, v))
           for v, n in sorted(NAMES.items())]
          + [dict(file="src/parser/rules.rs", regex=r'map\.insert\(prop_type\.to_string\(\), prop_type\);', expect=1, props=["C16", "C17"],
                  clause="PACKET_PROP_MAP maps each variant's Display text to the variant"),
             dict(file="src/parser/rules.rs", regex=r'map\.insert\("nsec"\.to_string\(\), PacketPropType::USec\);', expect=1, props=["C16"],
                  clause="'nsec' is the documented second name of the sub-second timestamp field")],
)


def _fill():
    UNIT["items"][0]["text"] = prelude()


_fill()
