global size_of usize == 8;

// ---- OS / std types: opaque ----
#[verifier::external_body] pub struct IoError { _p: () }
#[verifier::external_body] pub struct Utf8Error { _p: () }
#[verifier::external_body] pub struct PacketError { _p: () }
#[verifier::external_body] pub struct BufReaderFile { _p: () }
#[verifier::external_body] pub struct BufWriterFile { _p: () }
#[verifier::external_body] pub struct OsFile { _p: () }
#[verifier::external_body] pub struct CompiledFunction { _p: () }
#[verifier::external_body] pub struct Closure { _p: () }

#[verifier::external_body] pub fn str_to_string(s: &str) -> (r: String) ensures r@ == s@ { s.to_string() }
#[verifier::external_body] pub fn fmt_any() -> (r: String) { String::new() }

// every OS call is a shim that may return Ok or Err, arbitrarily: the obligations quantify over both
#[verifier::external_body] pub fn os_flush_writer(w: &BufWriterFile) -> (r: Result<(), IoError>) ensures r is Err <==> os_fails() { unimplemented!() }
#[verifier::external_body] pub fn os_flush_stdout() -> (r: Result<(), IoError>) ensures r is Err <==> os_fails() { unimplemented!() }
#[verifier::external_body] pub fn os_flush_stderr() -> (r: Result<(), IoError>) ensures r is Err <==> os_fails() { unimplemented!() }
#[verifier::external_body] pub fn pcap_from_file(f: Rc<FileHandle>) -> (r: Result<Pcap, IoError>) { unimplemented!() }
#[verifier::external_body] pub fn pcap_new(f: Rc<FileHandle>) -> (r: Result<Pcap, IoError>) { unimplemented!() }
#[verifier::external_body] pub fn bufreader_new(f: OsFile) -> (r: BufReaderFile) { unimplemented!() }
#[verifier::external_body] pub fn bufwriter_new(f: OsFile) -> (r: BufWriterFile) { unimplemented!() }
#[verifier::external_body] pub fn file_new_reader(r: BufReaderFile) -> (h: FileHandle) ensures h is Reader { unimplemented!() }
#[verifier::external_body] pub fn file_new_writer(w: BufWriterFile) -> (h: FileHandle) ensures h is Writer { unimplemented!() }

// C21: the documented open-mode table, as the flags each mode must hand to the OS
pub struct OpenFlags { pub read: bool, pub write: bool, pub append: bool, pub create: bool, pub truncate: bool, pub create_new: bool }
pub open spec fn flags_r() -> OpenFlags { OpenFlags { read: true, write: false, append: false, create: false, truncate: false, create_new: false } }
pub open spec fn flags_w() -> OpenFlags { OpenFlags { read: false, write: true, append: false, create: true, truncate: true, create_new: false } }
pub open spec fn flags_a() -> OpenFlags { OpenFlags { read: false, write: false, append: true, create: true, truncate: false, create_new: false } }
pub open spec fn flags_x() -> OpenFlags { OpenFlags { read: false, write: true, append: false, create: false, truncate: false, create_new: true } }
pub open spec fn mode_flags(mode: Seq<char>) -> Option<OpenFlags> {
    if mode.len() != 1 { None }
    else if mode[0] == 'r' { Some(flags_r()) } else if mode[0] == 'w' { Some(flags_w()) }
    else if mode[0] == 'a' { Some(flags_a()) } else if mode[0] == 'x' { Some(flags_x()) } else { None }
}
// the one place the OS is asked to open a file: the flags must be the ones the documented table gives for `mode`
#[verifier::external_body]
pub fn os_open(path: &String, flags: OpenFlags, mode: &str) -> (r: Result<OsFile, IoError>)
    requires mode_flags(mode@) == Some(flags)
{ unimplemented!() }

// builtin_open as seen by builtin_pcap_open: some function of its arguments (one call per invocation)
pub uninterp spec fn open_spec(args: Seq<Rc<Object>>) -> Result<Rc<Object>, String>;
#[verifier::external_body]
pub fn builtin_open_shim(args: Vec<Rc<Object>>) -> (r: Result<Rc<Object>, String>) ensures r == open_spec(args@) { unimplemented!() }
#[verifier::external_body]
pub fn clone_args(a: &Vec<Rc<Object>>) -> (r: Vec<Rc<Object>>) ensures r@ == a@ { a.clone() }
#[verifier::external_body]
pub fn str_eq(a: &str, b: &str) -> (r: bool) ensures r == (a@ == b@) { a == b }

// Result::unwrap / expect panic on Err: callable only when the result is known to be Ok
#[verifier::external_body]
pub fn os_result_unwrap(r: Result<(), IoError>) requires r is Ok { unimplemented!() }

// ---- round 2: read_line / read_to_string / write. One uninterpreted flag says whether the OS call of this invocation fails;
// every OS shim fails exactly then, so a postcondition can say "an OS failure yields an error OBJECT".
pub uninterp spec fn os_fails() -> bool;
#[verifier::external_body] pub fn os_read_to_end(f: &BufReaderFile, buf: &mut Vec<u8>) -> (r: Result<usize, IoError>) ensures r is Err <==> os_fails() { unimplemented!() }
#[verifier::external_body] pub fn os_read_line(f: &BufReaderFile, line: &mut String) -> (r: Result<usize, IoError>) ensures r is Err <==> os_fails() { unimplemented!() }
#[verifier::external_body] pub fn os_read_line_stdin(line: &mut String) -> (r: Result<usize, IoError>) ensures r is Err <==> os_fails() { unimplemented!() }
#[verifier::external_body] pub fn os_write(f: &BufWriterFile) -> (r: Result<usize, IoError>) ensures r is Err <==> os_fails() { unimplemented!() }
#[verifier::external_body] pub fn os_write_all_stdout(b: &Vec<u8>) -> (r: Result<(), IoError>) ensures r is Err <==> os_fails() { unimplemented!() }
#[verifier::external_body] pub fn os_write_all_stderr(b: &Vec<u8>) -> (r: Result<(), IoError>) ensures r is Err <==> os_fails() { unimplemented!() }
#[verifier::external_body] pub fn os_print() { unimplemented!() }
#[verifier::external_body] pub fn string_from_utf8(b: Vec<u8>) -> (r: Result<String, Utf8Error>) { unimplemented!() }
#[verifier::external_body] pub fn string_new() -> (r: String) { String::new() }
#[verifier::external_body] pub fn string_bytes<'a>(s: &'a String) -> (r: &'a [u8]) { s.as_bytes() }
#[verifier::external_body] pub fn str_len(s: &String) -> (r: usize) { s.len() }
#[verifier::external_body] pub fn packet_to_bytes(p: &PcapPacket) -> (r: Vec<u8>) { unimplemented!() }
impl Array { pub uninterp spec fn elems(&self) -> Seq<Rc<Object>>; }
#[verifier::external_body] pub fn array_elems(a: &Array) -> (r: Vec<Rc<Object>>) ensures r@ == a.elems() { unimplemented!() }
#[verifier::external_body] pub fn array_len(a: &Array) -> (r: usize) ensures r == a.elems().len() { unimplemented!() }
pub open spec fn all_bytes(a: Seq<Rc<Object>>) -> bool { forall|k: int| 0 <= k < a.len() ==> *#[trigger] a[k] is Byte }
// the documented second argument of write: a byte, an array of bytes, a string or a packet
pub open spec fn writable(o: Object) -> bool {
    o is Byte || o is Str || o is Packet || (o matches Object::Arr(a) && all_bytes(a.elems()))
}
