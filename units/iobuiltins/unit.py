F = "src/builtins/functions.rs"
OB = "src/object/mod.rs"
FH = "src/object/file.rs"
EO = "src/object/error.rs"

RW = [
    dict(rule="R2", re=r"RefCell<io::BufReader<fs::File>>", to="BufReaderFile", why="RefCell erased; std type opaque"),
    dict(rule="R2", re=r"RefCell<io::BufWriter<fs::File>>", to="BufWriterFile", why="RefCell erased; std type opaque"),
    dict(rule="R3", re=r"io::Error", to="IoError", why="std type opaque"),
    dict(rule="R3", re=r"std::string::FromUtf8Error", to="Utf8Error", why="std type opaque"),
    dict(rule="R3f", re=r"(?<!&)format!\((?:[^()]|\((?:[^()]|\([^()]*\))*\))*\)", to="fmt_any()", why="format! message text dropped"),
    dict(rule="R3", re=r"(\"[^\"]*\")\.to_string\(\)", to=r"str_to_string(\1)", why="str::to_string shim"),
    dict(rule="R3", re=r"String::from\((\"[^\"]*\")\)", to=r"str_to_string(\1)", why="String::from(&str) shim"),
    dict(rule="R3", re=r"args\[(\d)\]\.as_ref\(\)", to=r"&*args[\1]", why="Rc::as_ref on an owned Rc -> deref"),
    dict(rule="R3", re=r"\bobj\.as_ref\(\)", to=r"&*obj", why="Rc::as_ref on an owned Rc -> deref"),
    dict(rule="R3", re=r"\bf\.as_ref\(\)", to=r"&**f", why="Rc::as_ref through a pattern-bound reference -> double deref"),
    dict(rule="R2", re=r"let mut writer = writer\.borrow_mut\(\);", to="", why="RefCell erased"),
    dict(rule="R3", re=r"writer\s*\.borrow_mut\(\)\s*\.flush\(\)", to="os_flush_writer(writer)", why="RefCell erased; Write::flush on the file writer -> OS shim"),
    dict(rule="R3", re=r"writer\.flush\(\)", to="os_flush_writer(writer)", why="Write::flush on the file writer -> OS shim (Ok or Err, arbitrarily)"),
    dict(rule="R3", re=r"io::stdout\(\)\.flush\(\)", to="os_flush_stdout()", why="stdout flush -> OS shim"),
    dict(rule="R3", re=r"io::stderr\(\)\.flush\(\)", to="os_flush_stderr()", why="stderr flush -> OS shim"),
    # std shapes that do not occur in the current code but are the obvious alternatives (see emitter unit)
    dict(rule="R3", re=r"(os_flush_\w+\([^)]*\))\s*\.map_err\(\|(\w+)\| ((?:[^()]|\((?:[^()]|\([^()]*\))*\))*)\)\?;", to=r"if let Err(\2) = \1 { return Err(\3); }", why="Result::map_err(closure)? -> explicit early return (same meaning)"),
    dict(rule="R3", re=r"(os_flush_\w+\([^)]*\))\s*\.(?:unwrap|expect)\((?:\"[^\"]*\")?\);", to=r"os_result_unwrap(\1);", why="unwrap/expect on an OS result -> shim whose precondition is that the result is Ok"),
    dict(rule="R3", re=r"Pcap::from_file\(f\.clone\(\)\)", to="pcap_from_file(f.clone())", why="Pcap::from_file (reads the global header) -> OS shim"),
    dict(rule="R3", re=r"Pcap::new\(f\.clone\(\)\)", to="pcap_new(f.clone())", why="Pcap::new (writes the global header) -> OS shim"),
]

import re as _re

def _open_options(m):
    """fs::OpenOptions::new().a(true).b(true).open(path) -> os_open(path, OpenFlags{..}, mode)"""
    names = _re.findall(r"\.(\w+)\(true\)", m.group(0))
    allf = ["read", "write", "append", "create", "truncate", "create_new"]
    for n in names:
        if n not in allf:
            return m.group(0)   # unknown option: leave the text; Verus will reject it (undecided)
    lit = ", ".join("%s: %s" % (f, "true" if f in names else "false") for f in allf)
    return "os_open(path, OpenFlags { %s }, mode)" % lit

def _loop_rw(m):
    return "let els = array_elems(arr); let mut wi: usize = 0; while wi < els.len() %s{ let obj = &els[wi]; wi += 1; %s" % (m.group(1) or "", m.group(2) or "")


FILE_OUT = "(*args@[0] matches Object::File(f) && (*f is Writer || *f is Stdout || *f is Stderr))"

UNIT = dict(
    name="iobuiltins",
    prelude=["units/iobuiltins/prelude.rs"],
    uses="use std::rc::Rc;",
    lemmas={},
    global_rewrites=RW,
    items=[
        dict(kind="raw", label="opaque", text='''
#[verifier::external_body] pub struct Array { _p: () }
#[verifier::external_body] pub struct HMap { _p: () }
#[verifier::external_body] pub struct Pcap { _p: () }
#[verifier::external_body] pub struct PcapPacket { _p: () }
#[verifier::external_body] pub struct Ethernet { _p: () }
#[verifier::external_body] pub struct Vlan { _p: () }
#[verifier::external_body] pub struct Ipv4Packet { _p: () }
#[verifier::external_body] pub struct Ipv6Packet { _p: () }
#[verifier::external_body] pub struct Udp { _p: () }
#[verifier::external_body] pub struct Tcp { _p: () }
#[verifier::external_body] pub struct BuiltinFunction { _p: () }
'''),
        dict(kind="enum", file=FH, path="FileHandle"),
        dict(kind="enum", file=EO, path="ErrorObj"),
        dict(kind="enum", file=OB, path="Object"),
        dict(kind="fn", file=F, path="builtin_flush", ret="r",
             ensures=[
                 # C22: a flush that the OS fails is an error OBJECT: never a panic (the shims may fail), never a runtime error
                 "args@.len() == 1 && %s ==> r is Ok" % FILE_OUT,
                 "args@.len() == 1 && %s ==> (r matches Ok(o) && (if os_fails() { *o is Err } else { *o == Object::Null }))" % FILE_OUT,
                 "args@.len() != 1 ==> r is Err",
             ], props=["C22", "C08"]),
        dict(kind="fn", file=F, path="builtin_read_to_string", ret="r", props=["C22", "C08"],
             ensures=["args@.len() != 1 ==> r is Err",
                      "args@.len() == 1 && (*args@[0] matches Object::File(f) && *f is Reader) ==> (r matches Ok(o) && (if os_fails() { *o is Err } else { *o is Str || *o is Err }))"],
             rewrites=[dict(rule="R2", re=r"let mut file = reader\.borrow_mut\(\);", to="let file = reader;", expect=1, why="RefCell erased"),
                       dict(rule="R3", re=r"file\.read_to_end\(&mut result_bytes\)", to="os_read_to_end(file, &mut result_bytes)", expect=1, why="Read::read_to_end -> OS shim"),
                       dict(rule="R1", re=r"let mut result_bytes = Vec::new\(\);", to="let mut result_bytes: Vec<u8> = Vec::new();", why="type annotation"),
                       dict(rule="R3", re=r"String::from_utf8\(result_bytes\)", to="string_from_utf8(result_bytes)", expect=1, why="String::from_utf8 shim (Ok or Err)")]),
        dict(kind="fn", file=F, path="builtin_read_line", ret="r", props=["C22", "C08"],
             ensures=["args@.len() != 1 ==> r is Err",
                      "args@.len() == 1 && (*args@[0] matches Object::File(f) && (*f is Reader || *f is Stdin)) ==> (r matches Ok(o) && (if os_fails() { *o is Err } else { *o is Str }))"],
             rewrites=[dict(rule="R2", re=r"let mut file = reader\.borrow_mut\(\);", to="let file = reader;", expect=1, why="RefCell erased"),
                       dict(rule="R3", re=r"let mut line = String::new\(\);", to="let mut line = string_new();", expect=1, why="String::new shim"),
                       dict(rule="R3", re=r"file\.read_line\(&mut line\)", to="os_read_line(file, &mut line)", expect=1, why="BufRead::read_line -> OS shim"),
                       dict(rule="R3", re=r"io::stdin\(\)\.read_line\(&mut line\)", to="os_read_line_stdin(&mut line)", expect=1, why="stdin read_line -> OS shim")]),
        dict(kind="fn", file=F, path="builtin_write", ret="r", props=["C22", "C08"],
             ensures=["args@.len() != 2 ==> r is Err",
                      # a file writer: the OS write may fail; the result is then an error object, else the byte count
                      "args@.len() == 2 && (*args@[0] matches Object::File(f) && *f is Writer) && writable(*args@[1]) ==> (r matches Ok(o) && (if os_fails() { *o is Err } else { *o is Integer }))",
                      "args@.len() == 2 && (*args@[0] matches Object::File(f) && (*f is Stdout || *f is Stderr)) && writable(*args@[1]) ==> r is Ok",
                      "args@.len() == 2 && (*args@[0] matches Object::File(f) && (*f is Stdout || *f is Stderr)) && *args@[1] is Packet ==> (r matches Ok(o) && (if os_fails() { *o is Err } else { *o is Integer }))",
                      "args@.len() == 2 && (*args@[0] matches Object::File(f) && (*f is Reader || *f is Stdin)) ==> r is Err"],
             rewrites=[dict(rule="R2", re=r"let mut file = writer\.borrow_mut\(\);", to="let file = writer;", expect=1, why="RefCell erased"),
                       dict(rule="R3", re=r"file\.write\(&?\w+\)", to="os_write(file)", expect=4, why="Write::write on the file writer -> OS shim (the bytes are C21's concern)"),
                       dict(rule="R3f", re=r"\be?print!\((?:[^()]|\((?:[^()]|\([^()]*\))*\))*\)", to="os_print()", why="print!/eprint! -> shim (cannot fail short of a closed stream, which panics in std: listed)"),
                       dict(rule="R2", re=r"for obj in arr\.elements\.borrow\(\)\.iter\(\) (/\*@L\d@\*/)?\{(/\*@LB\d@\*/)?", to=_loop_rw, expect=3, why="RefCell<Vec>::iter() -> index loop over the same elements in order"),
                       dict(rule="R3", re=r"\bobj\.as_ref\(\)", to="&**obj", why="Rc::as_ref through a reference -> deref"),
                       dict(rule="R1", re=r"let mut buf = Vec::new\(\);", to="let mut buf: Vec<u8> = Vec::new();", why="type annotation"),
                       dict(rule="R3", re=r"let bytes = s\.as_bytes\(\);", to="let bytes = string_bytes(s);", why="String::as_bytes shim"),
                       dict(rule="R3", re=r"\bs\.len\(\)", to="str_len(s)", why="String::len shim"),
                       dict(rule="R10", re=r"let bytes: Vec<u8> = s\.as_ref\(\)\.into\(\);", to="let bytes: Vec<u8> = packet_to_bytes(&**s);", why="From<&PcapPacket> for Vec<u8> -> shim (C15's serialiser)"),
                       dict(rule="R3", re=r"io::stdout\(\)\.write_all\(&bytes\)", to="os_write_all_stdout(&bytes)", why="stdout write_all -> OS shim"),
                       dict(rule="R3", re=r"io::stderr\(\)\.write_all\(&bytes\)", to="os_write_all_stderr(&bytes)", why="stderr write_all -> OS shim"),
                       dict(rule="R2", re=r"arr\.elements\.borrow\(\)\.len\(\)", to="array_len(arr)", why="RefCell<Vec>::len shim")],
             loops={k: dict(invariant=["wi <= els@.len()", "els@ == arr.elems()", "forall|j: int| 0 <= j < wi ==> *#[trigger] els@[j] is Byte", "args@.len() == 2",
                                       "*args@[1] matches Object::Arr(a2) && a2 == *arr"],
                            body_prologue=" proof { assert(all_bytes(els@) ==> *els@[wi - 1] is Byte); } ", decreases="els@.len() - wi") for k in range(3)}),
        dict(kind="fn", file=F, path="builtin_pcap_stream", ret="r",
             ensures=[
                 "args@.len() != 1 ==> r is Err",   # wrong arity is a runtime error naming the builtin, not an index panic
                 "args@.len() == 1 && (*args@[0] matches Object::File(f) && (*f is Stdin || *f is Stdout)) ==> r is Ok",
             ], props=["C22", "C08"]),
        dict(kind="fn", file=F, path="builtin_pcap_open", ret="r",
             ensures=[
                 # C22: when the underlying open failed with an error object, that object is the result
                 "(open_spec(args@) matches Ok(o) && *o is Err) && (args@.len() != 2 || *args@[1] is Str) ==> r == open_spec(args@)",
                 "open_spec(args@) is Err ==> r is Err",
             ], props=["C22"],
             rewrites=[dict(rule="R3", re=r"builtin_open\(args\.clone\(\)\)", to="builtin_open_shim(clone_args(&args))", expect=1, why="builtin_open behind an uninterpreted result function of its arguments"),
                       dict(rule="R4", re=r"match mode \{\s*\"r\" =>", to="match () { _ if str_eq(mode, \"r\") =>", why="match on &str literals -> guards over a string-equality shim"),
                       dict(rule="R4", re=r"\n\s*\"(a|w|x)\" =>", to='\n            _ if str_eq(mode, "\\1") =>', why="match on &str literals -> guards")]),
        dict(kind="fn", file=F, path="builtin_open", ret="r",
             ensures=[
                 # C22: with well-formed arguments the result is never a runtime error, whatever the OS answers
                 "(args@.len() == 1 && *args@[0] is Str) ==> r is Ok",
                 "(args@.len() == 2 && *args@[0] is Str && (*args@[1] matches Object::Str(m) && (m@ == \"r\"@ || m@ == \"w\"@ || m@ == \"a\"@ || m@ == \"x\"@))) ==> r is Ok",
                 "(args@.len() == 0 || args@.len() > 2) ==> r is Err",
                 # C21 (open-mode table): the precondition of os_open at each call site - flags == mode_flags(mode)
             ], props=["C21", "C22", "C08"],
             prologue=' proof { reveal_strlit("r"); reveal_strlit("a"); reveal_strlit("w"); reveal_strlit("x"); } ',
             rewrites=[
                 dict(rule="R3", re=r"fs::File::open\(path\)", to="os_open(path, OpenFlags { read: true, write: false, append: false, create: false, truncate: false, create_new: false }, mode)", why="File::open = open for reading only -> OS shim whose precondition is the documented mode table"),
                 dict(rule="R3", re=r"fs::OpenOptions::new\(\)(?:\s*\.\w+\(true\))*\s*\.open\(path\)", to=_open_options, why="OpenOptions chain -> OS shim taking the set of options as a flag record; precondition = documented mode table"),
                 dict(rule="R3", re=r"io::BufReader::new\(file\)", to="bufreader_new(file)", why="std constructor shim"),
                 dict(rule="R3", re=r"io::BufWriter::new\(file\)", to="bufwriter_new(file)", why="std constructor shim"),
                 dict(rule="R3", re=r"FileHandle::new_reader\(reader\)", to="file_new_reader(reader)", why="constructor behind its contract (RefCell erased)"),
                 dict(rule="R3", re=r"FileHandle::new_writer\(writer\)", to="file_new_writer(writer)", why="constructor behind its contract (RefCell erased)"),
                 dict(rule="R4", re=r"match mode \{\s*\"r\" =>", to='match () { _ if str_eq(mode, "r") =>', why="match on &str literals -> guards over a string-equality shim"),
                 dict(rule="R4", re=r"\n\s*\"(a|w|x)\" =>", to='\n        _ if str_eq(mode, "\\1") =>', why="match on &str literals -> guards"),
             ]),
    ],
)
