"""C10 (Verus): Object == and Object's Hash on their real bodies, arrays included (any length, any nesting), against
 - eq_spec: == is structural on arrays (element-wise, same length) and the numeric / text / char / byte / bool / builtin
   comparison of the payloads otherwise;
 - stream_of: what hash() feeds the hasher (numbers through float_key_bits of the double they compare as);
and the lemma that two valid keys that are == feed the same stream (induction over arrays), which is the precondition of
std HashMap's lookup contract. The scalar fact (equal numbers -> equal key bits) is proved on the compiled code by the ops
Kani harnesses c10_hash_*; it enters here as an axiom."""
OB = "src/object/mod.rs"
AR = "src/object/array.rs"

RW = [
    dict(rule="R2", re=r"RefCell<((?:[^<>]|<(?:[^<>]|<[^<>]*>)*>)*)>", to=r"\1", why="RefCell erased"),
]

EQ_RW = [
    dict(rule="R10", re=r"fn /\*@RS@\*/?eq\(&self, other: &Self\) ->", to="fn object_eq(a_obj: &Object, other: &Object) ->", why="trait impl -> free fn"),
]

UNIT = dict(
    name="keys",
    prelude="units/keys/prelude.rs",
    uses="use std::rc::Rc;",
    lemmas={"lemma_eq_keys_hash_alike": ["C10"], "lemma_arr": ["C10"], "lemma_arr_eq_index": ["C10"]},
    global_rewrites=RW,
    items=[
        dict(kind="struct", file=AR, path="Array"),
        dict(kind="enum", file=OB, path="Object"),
        # ---- == ----
        dict(kind="fn", file=OB, path="impl PartialEq for Object::eq", free=True, rename="object_eq", ret="r", props=["C10"],
             ensures=["r == eq_spec(*self_, *other) || !(valid_key(*self_) && valid_key(*other))"], decreases="*self_",
             rewrites=[dict(rule="R10", re=r"fn eq\(&self, other: &Self\)", to="fn eq(self_: &Object, other: &Object)", expect=1, why="trait method -> free fn (receiver named)"),
                       dict(rule="R10", re=r"match \(self, other\)", to="match (self_, other)", expect=1, why="receiver named"),
                       dict(rule="R3", re=r"\(Object::Str\(a\), Object::Str\(b\)\) => a\.eq\(b\)", to="(Object::Str(a), Object::Str(b)) => eq_str(a, b)", expect=1, why="String == shim (equal text)"),
                       dict(rule="R3", re=r"\(Object::(Char|Byte|Bool)\(a\), Object::\1\(b\)\) => a\.eq\(b\)", to=r"(Object::\1(a), Object::\1(b)) => *a == *b", expect=3, why="primitive == spelled with the operator"),
                       dict(rule="R3", re=r"\(Object::Integer\(a\), Object::Integer\(b\)\) => a\.eq\(b\)", to="(Object::Integer(a), Object::Integer(b)) => eq_ii(*a, *b)", expect=1, why="integer == behind the numeric-equality name the axiom speaks about"),
                       dict(rule="R3", re=r"\(Object::Integer\(a\), Object::Float\(b\)\) => \(\*a as f64\)\.eq\(b\)", to="(Object::Integer(a), Object::Float(b)) => eq_if(*a, *b)", expect=1, why="i64 as f64 == f64 shim"),
                       dict(rule="R3", re=r"\(Object::Float\(a\), Object::Integer\(b\)\) => a\.eq\(&\(\*b as f64\)\)", to="(Object::Float(a), Object::Integer(b)) => eq_if(*b, *a)", expect=1, why="f64 == i64 as f64 shim (== is symmetric on doubles)"),
                       dict(rule="R3", re=r"\(Object::Float\(a\), Object::Float\(b\)\) => a\.eq\(b\)", to="(Object::Float(a), Object::Float(b)) => eq_ff(*a, *b)", expect=1, why="f64 == shim"),
                       dict(rule="R10", re=r"\(Object::Arr\(a\), Object::Arr\(b\)\) => a\.eq\(b\)", to="(Object::Arr(a), Object::Arr(b)) => array_eq(&**a, &**b)", expect=1, why="PartialEq for Array -> the free fn below"),
                       dict(rule="R3", re=r"\(Object::Builtin\(a\), Object::Builtin\(b\)\) => a\.eq\(b\)", to="(Object::Builtin(a), Object::Builtin(b)) => eq_builtin(a, b)", expect=1, why="derived PartialEq of BuiltinFunction shim"),
                       dict(rule="R3", re=r"\(Object::(Map|Func|Clos)\(a\), Object::\1\(b\)\) => a\.eq\(b\)", to=r"(Object::\1(a), Object::\1(b)) => eq_opaque(a, b)", expect=3, why="not map keys: opaque comparison")]),
        dict(kind="fn", file=AR, path="impl PartialEq for Array::eq", free=True, rename="array_eq", ret="r", props=["C10"],
             ensures=["all_valid(self_.elements@) && all_valid(other.elements@) ==> r == arr_eq_spec(self_.elements@, other.elements@, self_.elements@.len() as int)"], decreases="*self_",
             rewrites=[dict(rule="R10", re=r"fn eq\(&self, other: &Self\)", to="fn eq(self_: &Array, other: &Array)", expect=1, why="trait method -> free fn"),
                       dict(rule="R2", re=r"let self_elements = self\.elements\.borrow\(\);", to="let self_elements = &self_.elements;", expect=1, why="RefCell erased"),
                       dict(rule="R2", re=r"let other_elements = other\.elements\.borrow\(\);", to="let other_elements = &other.elements;", expect=1, why="RefCell erased"),
                       dict(rule="R5", re=r"for \(a, b\) in self_elements\.iter\(\)\.zip\(other_elements\.iter\(\)\) (/\*@L0@\*/)\{(/\*@LB0@\*/)", to=r"let mut zi: usize = 0; while zi < self_elements.len() \1{ let a = &self_elements[zi]; let b = &other_elements[zi]; zi += 1;\2", expect=1,
                            why="iter().zip() over two vectors of the same length -> index loop over the same pairs in order"),
                       dict(rule="R10", re=r"if \*a != \*b \{", to="if !object_eq(&**a, &**b) {", expect=1, why="!= on Rc<Object> -> the free fn above")],
             loops={0: dict(invariant=["zi <= self_elements@.len()", "self_elements@.len() == other_elements@.len()", "self_elements@ == self_.elements@", "other_elements@ == other.elements@",
                                       "all_valid(self_.elements@) && all_valid(other.elements@) ==> arr_eq_spec(self_elements@, other_elements@, zi as int)"], decreases="self_elements@.len() - zi",
                            body_prologue=" proof { if arr_eq_spec(self_elements@, other_elements@, self_elements@.len() as int) { lemma_arr_eq_index(self_elements@, other_elements@, self_elements@.len() as int, zi - 1); } } ")}),
        # ---- hash ----
        dict(kind="fn", file=OB, path="impl Hash for Object::hash", free=True, rename="object_hash", props=["C10"],
             ensures=["final(state).w == old(state).w + stream_of(*self_)"], decreases="*self_",
             rewrites=[dict(rule="R10", re=r"fn hash<H: Hasher>\(&self, state: &mut H\)", to="fn hash(self_: &Object, state: &mut HashStream)", expect=1, why="trait method generic in the hasher -> free fn over the recorded stream"),
                       dict(rule="R10", re=r"match self \{", to="match self_ {", expect=1, why="receiver named"),
                       dict(rule="R4", re=r"\(ref (\w+)\)", to=r"(\1)", why="ref pattern -> default binding through the reference"),
                       dict(rule="R3", re=r"Object::Integer\(n\) => state\.write_u64\(float_key_bits\(\*n as f64\)\)", to="Object::Integer(n) => hs_int(state, *n)", expect=1, why="write_u64(float_key_bits(n as f64)) -> stream shim (key bits of the double the integer compares as)"),
                       dict(rule="R3", re=r"Object::Float\(f\) => state\.write_u64\(float_key_bits\(\*f\)\)", to="Object::Float(f) => hs_float(state, *f)", expect=1, why="write_u64(float_key_bits(f)) -> stream shim"),
                       dict(rule="R3", re=r"Object::Char\(ch\) => ch\.hash\(state\)", to="Object::Char(ch) => hs_char(state, *ch)", expect=1, why="char::hash -> stream shim"),
                       dict(rule="R3", re=r"Object::Byte\(b\) => b\.hash\(state\)", to="Object::Byte(b) => hs_byte(state, *b)", expect=1, why="u8::hash -> stream shim"),
                       dict(rule="R3", re=r"Object::Bool\(b\) => b\.hash\(state\)", to="Object::Bool(b) => hs_bool(state, *b)", expect=1, why="bool::hash -> stream shim"),
                       dict(rule="R3", re=r"Object::Str\(s\) => s\.hash\(state\)", to="Object::Str(s) => hs_str(state, s)", expect=1, why="String::hash -> stream shim"),
                       dict(rule="R3", re=r"Object::Builtin\(f\) => f\.name\.hash\(state\)", to="Object::Builtin(f) => hs_builtin(state, f)", expect=1, why="hash of the builtin's name -> stream shim"),
                       dict(rule="R10", re=r"Object::Arr\(a\) => a\.hash\(state\)", to="Object::Arr(a) => array_hash(&**a, state)", expect=1, why="Hash for Array -> the free fn below"),
                       dict(rule="R3", re=r'_ => ""\.hash\(state\)', to="_ => hs_empty(state)", expect=1, why='"".hash -> stream shim')]),
        dict(kind="fn", file=AR, path="impl Hash for Array::hash", free=True, rename="array_hash", props=["C10"],
             ensures=["final(state).w == old(state).w + arr_stream(self_.elements@, self_.elements@.len() as int)"], decreases="*self_",
             rewrites=[dict(rule="R10", re=r"fn hash<H: Hasher>\(&self, state: &mut H\)", to="fn hash(self_: &Array, state: &mut HashStream)", expect=1, why="trait method -> free fn"),
                       dict(rule="R5", re=r"for element in self\.elements\.borrow\(\)\.iter\(\) (/\*@L0@\*/)\{(/\*@LB0@\*/)", to=r"let mut hi: usize = 0; while hi < self_.elements.len() \1{ let element = &self_.elements[hi]; hi += 1;\2", expect=1, why="RefCell<Vec>::iter() -> index loop in the same order"),
                       dict(rule="R10", re=r"element\.hash\(state\);", to="object_hash(&**element, state);", expect=1, why="Hash for Object through Rc -> the free fn above")],
             loops={0: dict(invariant=["hi <= self_.elements@.len()", "state.w == old(state).w + arr_stream(self_.elements@, hi as int)"], decreases="self_.elements@.len() - hi")}),
    ],
)
