global size_of usize == 8;

#[verifier::external_body] pub struct HMap { _p: () }
#[verifier::external_body] pub struct FileHandle { _p: () }
#[verifier::external_body] pub struct ErrorObj { _p: () }
#[verifier::external_body] pub struct Pcap { _p: () }
#[verifier::external_body] pub struct PcapPacket { _p: () }
#[verifier::external_body] pub struct Ethernet { _p: () }
#[verifier::external_body] pub struct Vlan { _p: () }
#[verifier::external_body] pub struct Ipv4Packet { _p: () }
#[verifier::external_body] pub struct Ipv6Packet { _p: () }
#[verifier::external_body] pub struct Udp { _p: () }
#[verifier::external_body] pub struct Tcp { _p: () }
#[verifier::external_body] pub struct BuiltinFunction { _p: () }
#[verifier::external_body] pub struct CompiledFunction { _p: () }
#[verifier::external_body] pub struct Closure { _p: () }
impl BuiltinFunction { pub uninterp spec fn name(&self) -> Seq<char>; }

// ---- what a key feeds to the hasher (std HashMap finds a key only among the entries whose fed stream is the same) ----
pub enum Word { U64(u64), Char(char), Byte(u8), Bool(bool), Text(Seq<char>) }
pub struct HashStream { pub ghost w: Seq<Word> }
// numbers hash through float_key_bits of the double they compare as (the ops harnesses c10_hash_* prove, on the compiled
// code and for every payload: two numbers that are == feed identical bytes)
pub uninterp spec fn kb_int(n: i64) -> u64;
pub uninterp spec fn kb_float(f: f64) -> u64;
pub uninterp spec fn num_eq_ii(a: i64, b: i64) -> bool;
pub uninterp spec fn num_eq_if(a: i64, b: f64) -> bool;
pub uninterp spec fn num_eq_ff(a: f64, b: f64) -> bool;
#[verifier::external_body] pub proof fn axiom_numeric_keys()
    ensures
        forall|a: i64, b: i64| #[trigger] num_eq_ii(a, b) ==> kb_int(a) == kb_int(b),
        forall|a: i64, b: f64| #[trigger] num_eq_if(a, b) ==> kb_int(a) == kb_float(b),
        forall|a: f64, b: f64| #[trigger] num_eq_ff(a, b) ==> kb_float(a) == kb_float(b),
{ }
#[verifier::external_body] pub fn hs_int(s: &mut HashStream, n: i64) ensures final(s).w == old(s).w.push(Word::U64(kb_int(n))) { unimplemented!() }
#[verifier::external_body] pub fn hs_float(s: &mut HashStream, f: f64) ensures final(s).w == old(s).w.push(Word::U64(kb_float(f))) { unimplemented!() }
#[verifier::external_body] pub fn hs_char(s: &mut HashStream, c: char) ensures final(s).w == old(s).w.push(Word::Char(c)) { unimplemented!() }
#[verifier::external_body] pub fn hs_byte(s: &mut HashStream, b: u8) ensures final(s).w == old(s).w.push(Word::Byte(b)) { unimplemented!() }
#[verifier::external_body] pub fn hs_bool(s: &mut HashStream, b: bool) ensures final(s).w == old(s).w.push(Word::Bool(b)) { unimplemented!() }
#[verifier::external_body] pub fn hs_str(s: &mut HashStream, t: &String) ensures final(s).w == old(s).w.push(Word::Text(t@)) { unimplemented!() }
#[verifier::external_body] pub fn hs_builtin(s: &mut HashStream, f: &Rc<BuiltinFunction>) ensures final(s).w == old(s).w.push(Word::Text(f.name())) { unimplemented!() }
#[verifier::external_body] pub fn hs_empty(s: &mut HashStream) ensures final(s).w == old(s).w.push(Word::Text(Seq::<char>::empty())) { unimplemented!() }

// ---- equality of the payload kinds ----
#[verifier::external_body] pub fn eq_ii(a: i64, b: i64) -> (r: bool) ensures r == num_eq_ii(a, b) { a == b }
#[verifier::external_body] pub fn eq_if(a: i64, b: f64) -> (r: bool) ensures r == num_eq_if(a, b) { (a as f64) == b }
#[verifier::external_body] pub fn eq_ff(a: f64, b: f64) -> (r: bool) ensures r == num_eq_ff(a, b) { a == b }
#[verifier::external_body] pub fn eq_str(a: &String, b: &String) -> (r: bool) ensures r == (a@ == b@) { a == b }
pub uninterp spec fn builtin_eq_spec(a: BuiltinFunction, b: BuiltinFunction) -> bool;
#[verifier::external_body] pub fn eq_builtin(a: &Rc<BuiltinFunction>, b: &Rc<BuiltinFunction>) -> (r: bool) ensures r == builtin_eq_spec(**a, **b) { unimplemented!() }
// equal builtins have the same name (derived PartialEq compares the name field)
#[verifier::external_body] pub proof fn axiom_builtin_name() ensures forall|a: BuiltinFunction, b: BuiltinFunction| #[trigger] builtin_eq_spec(a, b) ==> a.name() == b.name() { }
#[verifier::external_body] pub fn eq_opaque<T>(a: &Rc<T>, b: &Rc<T>) -> (r: bool) { unimplemented!() }

// ---- the specification: == on objects and the stream an object feeds ----
pub open spec fn eq_spec(a: Object, b: Object) -> bool decreases a {
    match (a, b) {
        (Object::Null, Object::Null) => true,
        (Object::Str(x), Object::Str(y)) => x@ == y@,
        (Object::Char(x), Object::Char(y)) => x == y,
        (Object::Byte(x), Object::Byte(y)) => x == y,
        (Object::Integer(x), Object::Integer(y)) => num_eq_ii(x, y),
        (Object::Integer(x), Object::Float(y)) => num_eq_if(x, y),
        (Object::Float(x), Object::Integer(y)) => num_eq_if(y, x),
        (Object::Float(x), Object::Float(y)) => num_eq_ff(x, y),
        (Object::Bool(x), Object::Bool(y)) => x == y,
        (Object::Arr(x), Object::Arr(y)) => arr_eq_spec(x.elements@, y.elements@, x.elements@.len() as int),
        (Object::Builtin(x), Object::Builtin(y)) => builtin_eq_spec(*x, *y),
        _ => false,
    }
}
// the first n elements are pairwise ==, and the lengths agree
pub open spec fn arr_eq_spec(a: Seq<Rc<Object>>, b: Seq<Rc<Object>>, n: int) -> bool decreases a, n
    when 0 <= n <= a.len()
{
    a.len() == b.len() && (n == 0 || (arr_eq_spec(a, b, n - 1) && eq_spec(*a[n - 1], *b[n - 1])))
}
pub open spec fn stream_of(o: Object) -> Seq<Word> decreases o {
    match o {
        Object::Integer(n) => seq![Word::U64(kb_int(n))],
        Object::Char(c) => seq![Word::Char(c)],
        Object::Byte(b) => seq![Word::Byte(b)],
        Object::Float(f) => seq![Word::U64(kb_float(f))],
        Object::Bool(b) => seq![Word::Bool(b)],
        Object::Str(s) => seq![Word::Text(s@)],
        Object::Builtin(f) => seq![Word::Text(f.name())],
        Object::Arr(a) => arr_stream(a.elements@, a.elements@.len() as int),
        _ => seq![Word::Text(Seq::<char>::empty())],
    }
}
pub open spec fn arr_stream(a: Seq<Rc<Object>>, n: int) -> Seq<Word> decreases a, n
    when 0 <= n <= a.len()
{
    if n == 0 { Seq::<Word>::empty() } else { arr_stream(a, n - 1) + stream_of(*a[n - 1]) }
}
// C10: what may be a map key (docs/language/data-model.md)
pub open spec fn valid_key(o: Object) -> bool decreases o {
    match o {
        Object::Str(_) | Object::Char(_) | Object::Byte(_) | Object::Integer(_) | Object::Float(_) | Object::Bool(_) | Object::Builtin(_) => true,
        Object::Arr(a) => forall|i: int| 0 <= i < a.elements@.len() ==> valid_key(*#[trigger] a.elements@[i]),
        _ => false,
    }
}

// C10, the induction: two valid keys that are == feed the hasher the same stream - arrays of any length and nesting included
pub open spec fn is_arr(o: Rc<Object>) -> bool { *o is Arr }
pub open spec fn elems(o: Rc<Object>) -> Seq<Rc<Object>> { match *o { Object::Arr(x) => x.elements@, _ => Seq::<Rc<Object>>::empty() } }
pub proof fn lemma_eq_keys_hash_alike(a: Rc<Object>, b: Rc<Object>)
    requires eq_spec(*a, *b), valid_key(*a), valid_key(*b)
    ensures stream_of(*a) == stream_of(*b)
    decreases *a
{
    axiom_numeric_keys();
    axiom_builtin_name();
    if is_arr(a) && is_arr(b) {
        lemma_arr(elems(a), elems(b), elems(a).len() as int);
    }
}
pub proof fn lemma_arr(a: Seq<Rc<Object>>, b: Seq<Rc<Object>>, n: int)
    requires 0 <= n <= a.len(), arr_eq_spec(a, b, n),
             forall|i: int| 0 <= i < a.len() ==> valid_key(*#[trigger] a[i]), forall|i: int| 0 <= i < b.len() ==> valid_key(*#[trigger] b[i])
    ensures arr_stream(a, n) == arr_stream(b, n)
    decreases a, n
{
    if n > 0 {
        lemma_arr(a, b, n - 1);
        lemma_eq_keys_hash_alike(a[n - 1], b[n - 1]);
    }
}
pub open spec fn all_valid(a: Seq<Rc<Object>>) -> bool { forall|i: int| 0 <= i < a.len() ==> valid_key(*#[trigger] a[i]) }
pub proof fn lemma_arr_eq_index(a: Seq<Rc<Object>>, b: Seq<Rc<Object>>, n: int, i: int)
    requires 0 <= i < n <= a.len(), arr_eq_spec(a, b, n)
    ensures eq_spec(*a[i], *b[i])
    decreases n
{
    if i < n - 1 { lemma_arr_eq_index(a, b, n - 1, i); }
}
