"""C17 bounded stand-in: assignments to writable header properties on generated frames. In-range value: read-back equals it,
every other property of the layer reads as before, and the written frame differs from the captured one exactly as the
reference field writer says (only that field's bits). Out-of-range value: a runtime error, or the value reduced to the
field's width with the same frame condition. Sequences of two assignments compose."""
import ipaddress
import struct
from .common import pcap_global, pcap_record, no_panic, parse_pcap
from .frames import gen_frame, decode, mac_text, v4_text, v6_text
from .C16 import norm, want_val

# kind -> prop -> (byte offset in header, bit offset from the MSB of that byte group, width in bits, bytes spanned)
F = {
    "eth": {"type": (12, 0, 16, 2), "dst": "mac0", "src": "mac6"},
    "vlan": {"priority": (0, 0, 3, 2), "dei": (0, 3, 1, 2), "id": (0, 4, 12, 2), "type": (2, 0, 16, 2)},
    "ipv4": {"ihl": (0, 4, 4, 1), "dscp": (1, 0, 6, 1), "ecn": (1, 6, 2, 1), "totlen": (2, 0, 16, 2), "id": (4, 0, 16, 2), "flags": (6, 0, 3, 2), "fragoff": (6, 3, 13, 2),
             "ttl": (8, 0, 8, 1), "proto": (9, 0, 8, 1), "checksum": (10, 0, 16, 2), "src": "v4_12", "dst": "v4_16"},
    "ipv6": {"trafficclass": (0, 4, 8, 4), "flowlabel": (0, 12, 20, 4), "len": (4, 0, 16, 2), "nextheader": (6, 0, 8, 1), "hoplimit": (7, 0, 8, 1), "src": "v6_8", "dst": "v6_24"},
    "udp": {"srcport": (0, 0, 16, 2), "dstport": (2, 0, 16, 2), "len": (4, 0, 16, 2), "checksum": (6, 0, 16, 2)},
    "tcp": {"srcport": (0, 0, 16, 2), "dstport": (2, 0, 16, 2), "seq": (4, 0, 32, 4), "ack": (8, 0, 32, 4), "dataoff": (12, 0, 4, 2), "flags": (12, 4, 12, 2),
            "winsize": (14, 0, 16, 2), "checksum": (16, 0, 16, 2), "urgent": (18, 0, 16, 2)},
}
ADDR_TEXT = {"mac": ["11:22:33:44:55:66", "00:00:00:00:00:00", "FF:FF:FF:FF:FF:FF", "a0:B1:c2:D3:e4:F5"],
             "v4": ["1.2.3.4", "0.0.0.0", "255.255.255.255", "192.168.0.1"],
             "v6": ["::1", "2001:db8::1", "1:2:3:4:5:6:7:8", "ffff:ffff:ffff:ffff:ffff:ffff:ffff:ffff", "::"]}


def addr_bytes(kind, t):
    if kind == "mac":
        return bytes(int(x, 16) for x in t.split(":"))
    if kind == "v4":
        return bytes(int(x) for x in t.split("."))
    return ipaddress.IPv6Address(t).packed


def set_field(frame, start, spec, value):
    b = bytearray(frame)
    if isinstance(spec, str):
        kind, off = spec.rstrip("0123456789"), int(spec[len(spec.rstrip("0123456789")):])
        kind = {"mac": "mac", "v4_": "v4", "v6_": "v6"}[kind]
        ab = addr_bytes(kind, value)
        b[start + off:start + off + len(ab)] = ab
        return bytes(b)
    off, bit, width, span = spec
    word = int.from_bytes(b[start + off:start + off + span], "big")
    shift = span * 8 - bit - width
    mask = ((1 << width) - 1) << shift
    word = (word & ~mask) | ((value & ((1 << width) - 1)) << shift)
    b[start + off:start + off + span] = word.to_bytes(span, "big")
    return bytes(b)


def lit(spec, v):
    if isinstance(spec, str):
        return '"%s"' % v
    if spec[2] == 1:
        return "true" if v else "false"
    return str(v) if v >= 0 else "(%d)" % v


def pick_value(rng, spec):
    """-> (value literal semantic, in_range)"""
    if isinstance(spec, str):
        kind = "mac" if spec.startswith("mac") else ("v4" if spec.startswith("v4") else "v6")
        return rng.choice(ADDR_TEXT[kind]), True
    w = spec[2]
    if w == 1:
        return rng.choice([0, 1]), True
    r = rng.random()
    if r < 0.7:
        return rng.choice([0, 1, (1 << w) - 1, (1 << w) - 2, 1 << (w - 1), rng.getrandbits(w)]), True
    return rng.choice([1 << w, (1 << w) + 5, -1, -(1 << w), (1 << 40) + 3, 2**63 - 1]), False


def frame_with(rng, kind):
    for _ in range(400):
        f = gen_frame(rng, truncate=0.05)
        lay = [L for L in decode(f) if L["kind"] in F]
        for idx, L in enumerate(lay):
            if L["kind"] == kind:
                return f, L, idx + 1
    raise RuntimeError("generator: no frame with a %s layer" % kind)


def boundary_values(rng, spec):
    if isinstance(spec, str):
        kind = "mac" if spec.startswith("mac") else ("v4" if spec.startswith("v4") else "v6")
        return [(t, True) for t in ADDR_TEXT[kind]]
    w = spec[2]
    if w == 1:
        return [(0, True), (1, True)]
    vs = [(0, True), (1, True), ((1 << w) - 1, True), (1 << (w - 1), True), (rng.getrandbits(w), True), ((1 << w) - 2, True)]
    vs += [(1 << w, False), (-1, False), ((1 << 40) + 3, False)]
    if w > 8:
        vs += [(0x200 | rng.getrandbits(8), True), (1 << (w - 2), True)]
    return vs


def gen(tier, rng):
    plan = []
    for kind in F:
        for p in F[kind]:
            for (v, ok) in boundary_values(rng, F[kind][p]):
                plan.append((kind, [(p, v, ok)]))
    # two assignments on the same layer
    for _ in range(60 if tier == "quick" else 3000):
        kind = rng.choice(list(F))
        a = []
        for _ in range(2):
            p = rng.choice(list(F[kind]))
            v, ok = pick_value(rng, F[kind][p])
            a.append((p, v, ok))
        plan.append((kind, a))
    reps = 1 if tier == "quick" else 4
    c = 0
    for rep in range(reps):
      for (kind, assigns) in plan:
        f, L, depth = frame_with(rng, kind)
        allprops = list(L["fields"].keys())
        dump = " ".join('eprintln("{}", o.%s);' % p for p in allprops)
        stm = ["let o = $%d;" % depth, dump]
        for (p, v, ok) in assigns:
            stm.append("o.%s = %s;" % (p, lit(F[L["kind"]][p], v)))
            stm.append('eprintln("{}", o.%s);' % p)
        stm.append(dump)
        prog = "@ { " + " ".join(stm) + " }\n@ true\n"
        gh = pcap_global()
        rec = pcap_record(f, ts_sec=3, ts_usec=4)
        stdin = gh + rec
        # reference: apply the assignments (value reduced to the field width)
        newf = f
        fields = dict(L["fields"])
        rb = []
        for (p, v, ok) in assigns:
            spec = F[L["kind"]][p]
            newf = set_field(newf, L["start"], spec, v)
            if isinstance(spec, str):
                nv = v
            elif spec[2] == 1:
                nv = bool(v & 1)
            else:
                nv = v & ((1 << spec[2]) - 1)
            fields[p] = nv
            rb.append((p, nv))
        any_invalid = any(not ok for _, _, ok in assigns)

        def check(r, f=f, newf=newf, fields=fields, rb=rb, any_invalid=any_invalid, allprops=allprops, kind=kind, L=L, assigns=assigns, gh=gh):
            m = no_panic(r)
            if m:
                return m
            if "untime error" in r.etext:
                if any_invalid:
                    return None      # rejected invalid value (the packet is not written after a runtime error, nothing more to compare)
                return "assigning in-range values %r to %s raised: %s" % ([(p, v) for p, v, _ in assigns], kind, r.etext.strip().splitlines()[-1][:200])
            lines = r.etext.split("\n")
            k = len(allprops)
            need = 2 * k + len(rb)
            if len(lines) < need:
                return "expected %d report lines, got %d: %r" % (need, len(lines), r.etext[-300:])
            before, mid, after = lines[:k], lines[k:k + len(rb)], lines[k + len(rb):need]
            for (p, nv), g in zip(rb, mid):
                kp = "%s.%s" % (kind, p)
                if norm(kp, g) != want_val(kp, nv):
                    return "%s = %r reads back %r (expected %r)" % (kp, [v for q, v, _ in assigns if q == p][-1], g, nv)
            for p, g, g0 in zip(allprops, after, before):
                kp = "%s.%s" % (kind, p)
                if norm(kp, g) != want_val(kp, fields[p]):
                    return "after assigning %r, %s reads %r (before: %r; expected %r)" % ([(q, v) for q, v, _ in assigns], kp, g, g0, fields[p])
            out = parse_pcap(r.out)
            if not out or out[0] != gh or len(out[1]) != 1:
                return "the modified packet was not written as one record (stdout %d bytes)" % len(r.out)
            got = out[1][0][1]
            if got != newf:
                diff = [i for i in range(min(len(got), len(newf))) if got[i] != newf[i]]
                return "after %s assignments %r the written frame differs from the reference at bytes %s (layer starts at %d; lengths %d vs %d)" % (
                    kind, [(p, v) for p, v, _ in assigns], diff[:8], L["start"], len(got), len(newf))
        yield dict(id="assign/%d/%s/%s" % (c, kind, "+".join(p for p, _, _ in assigns)), prog=prog, stdin=stdin, check=check)
        c += 1


def gen_packet_hdr(tier, rng):
    for c in range(24 if tier == "quick" else 400):
        f = gen_frame(rng, truncate=0.0)
        p = rng.choice(["sec", "usec", "wirelen"])
        v = rng.choice([0, 1, 2**32 - 1, rng.getrandbits(32)])
        vals = dict(sec=3, usec=4, wirelen=len(f))
        vals[p] = v
        prog = '@ { ($0).%s = %d; eprintln("{} {} {} {}", ($0).sec, ($0).usec, ($0).caplen, ($0).wirelen); }\n@ true\n' % (p, v)
        stdin = pcap_global() + pcap_record(f, ts_sec=3, ts_usec=4)
        want = pcap_global() + pcap_record(f, ts_sec=vals["sec"], ts_usec=vals["usec"], wirelen=vals["wirelen"])
        werr = "%d %d %d %d\n" % (vals["sec"], vals["usec"], len(f), vals["wirelen"])

        def check(r, want=want, werr=werr):
            m = no_panic(r)
            if m:
                return m
            if r.etext != werr:
                return "record header properties read %r, expected %r" % (r.etext[:200], werr)
            if r.out != want:
                return "the written record header differs from the reference (only the assigned field may change)"
        yield dict(id="pkthdr/%d/%s" % (c, p), prog=prog, stdin=stdin, check=check)


GROUPS = [
    dict(name="C17/field-assignment", clause="assigned in-range value reads back; every other property reads as before; written bytes differ only in the field's bit range (reference field writer); invalid values raise a runtime error or are stored reduced to the field width; two assignments compose",
         bound="every writable property of every layer x 6-11 values (width boundaries, random, out of range; 4-5 address texts) on a generated frame holding that layer, plus 60/3000 seeded pairs of assignments; thorough repeats 4x with new frames", gen=gen),
    dict(name="C17/record-header", clause="assigning sec/usec/wirelen of the pcap record changes exactly that record header field", bound="24/400 seeded cases", gen=gen_packet_hdr),
]
