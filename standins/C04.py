"""C04 bounded stand-in: generated programs over let / assignment / blocks / functions / closures, run on the real binary and
on a reference evaluator that implements the property's scoping rules: a binding is visible from its definition to the end
of its block (also inside functions written in that region), an inner binding hides an outer one until its block ends, a name
without a visible binding is a compile error, functions read and write global bindings by reference, a closure captures the
values of the enclosing functions' locals and parameters at the moment it is created."""
from .common import no_panic


class CompileError(Exception):
    pass


# ---- tiny AST: ("let", name, expr) ("set", name, expr) ("put", expr) ("block", [stmts]) ("fn", name, params, [stmts], retexpr)
#      ("call", name, [args]) as expression; ("lit", n), ("var", name), ("add", e1, e2), ("fnlit", params, stmts, retexpr)
class Cell:
    def __init__(self, v, is_global):
        self.v, self.g = v, is_global


class Closure:
    def __init__(self, params, body, ret, env):
        self.params, self.body, self.ret, self.env = params, body, ret, env


def free_names(stmts, ret, bound):
    """names used in a function body that are not bound inside it (in order of first use)"""
    out = []

    def ex(e, b):
        k = e[0]
        if k == "var":
            if e[1] not in b and e[1] not in out:
                out.append(e[1])
        elif k == "add":
            ex(e[1], b); ex(e[2], b)
        elif k == "call":
            if e[1] not in b and e[1] not in out:
                out.append(e[1])
            for a in e[2]:
                ex(a, b)
        elif k == "fnlit":
            nb = set(b) | set(e[1])
            for n in free_names(e[2], e[3], nb):
                if n not in b and n not in out:
                    out.append(n)

    def st(ss, b):
        b = set(b)
        for s in ss:
            k = s[0]
            if k == "let":
                ex(s[2], b); b.add(s[1])
            elif k == "set":
                ex(s[2], b)
                if s[1] not in b and s[1] not in out:
                    out.append(s[1])
            elif k == "put":
                ex(s[1], b)
            elif k == "block":
                st(s[1], b)
            elif k == "fn":
                b.add(s[1])
                nb = set(b) | set(s[2])
                for n in free_names(s[3], s[4], nb):
                    if n not in b and n not in out:
                        out.append(n)
        return b
    b2 = st(stmts, bound)
    ex(ret, b2) if ret is not None else None
    return out


def check_names(stmts, scopes):
    """compile-time pass: every use must have a visible binding (lexical position matters)"""
    def visible(n):
        return any(n in s for s in scopes)

    def ex(e):
        k = e[0]
        if k == "var" and not visible(e[1]):
            raise CompileError(e[1])
        if k == "add":
            ex(e[1]); ex(e[2])
        if k == "call":
            if not visible(e[1]):
                raise CompileError(e[1])
            for a in e[2]:
                ex(a)
        if k == "fnlit":
            scopes.append(set(e[1]))
            check_names(e[2], scopes)
            scopes.append(set())
            # the return expression sees the body's top-level lets
            for s in e[2]:
                if s[0] in ("let", "fn"):
                    scopes[-1].add(s[1])
            ex(e[3])
            scopes.pop(); scopes.pop()
    for s in stmts:
        k = s[0]
        if k == "let":
            ex(s[2]); scopes[-1].add(s[1])
        elif k == "set":
            ex(s[2])
            if not visible(s[1]):
                raise CompileError(s[1])
        elif k == "put":
            ex(s[1])
        elif k == "block":
            scopes.append(set()); check_names(s[1], scopes); scopes.pop()
        elif k == "fn":
            scopes[-1].add(s[1])
            ex(("fnlit", s[2], s[3], s[4]))


def run(stmts, env, out, in_fn):
    """env: list of dict name->Cell (innermost last)"""
    def look(n):
        for fr in reversed(env):
            if n in fr:
                return fr[n]
        raise CompileError(n)

    def ev(e):
        k = e[0]
        if k == "lit":
            return e[1]
        if k == "var":
            return look(e[1]).v
        if k == "add":
            return ev(e[1]) + ev(e[2])
        if k == "fnlit":
            return mkclo(e[1], e[2], e[3])
        if k == "call":
            f = look(e[1]).v
            args = [ev(a) for a in e[2]]
            fr = {p: Cell(a, False) for p, a in zip(f.params, args)}
            cenv = f.env + [fr]
            run(f.body, cenv, out, True)
            return ev_in(f.ret, cenv)

    def ev_in(e, cenv):
        saved = env[:]
        env[:] = cenv
        try:
            return ev(e)
        finally:
            env[:] = saved

    def mkclo(params, body, ret):
        cap = {}
        for n in free_names(body, ret, set(params)):
            c = look(n)
            cap[n] = c if c.g else Cell(c.v, False)     # globals by reference, enclosing locals by value at creation
        return Closure(params, body, ret, [cap])
    for s in stmts:
        k = s[0]
        if k == "let":
            v = ev(s[2]); env[-1][s[1]] = Cell(v, not in_fn)
        elif k == "set":
            look(s[1]).v = ev(s[2])
        elif k == "put":
            out.append(str(ev(s[1])))
        elif k == "block":
            env.append({}); run(s[1], env, out, in_fn); env.pop()
        elif k == "fn":
            env[-1][s[1]] = Cell(None, not in_fn)
            env[-1][s[1]].v = mkclo(s[2], s[3], s[4])


# ---- rendering ----------------------------------------------------------------------------------------------------
def rex(e):
    k = e[0]
    if k == "lit":
        return str(e[1])
    if k == "var":
        return e[1]
    if k == "add":
        return "(%s + %s)" % (rex(e[1]), rex(e[2]))
    if k == "call":
        return "%s(%s)" % (e[1], ", ".join(rex(a) for a in e[2]))
    if k == "fnlit":
        return "fn(%s) { %s return %s; }" % (", ".join(e[1]), " ".join(rst(s) for s in e[2]), rex(e[3]))


def rst(s):
    k = s[0]
    if k == "let":
        return "let %s = %s;" % (s[1], rex(s[2]))
    if k == "set":
        return "%s = %s;" % (s[1], rex(s[2]))
    if k == "put":
        return "puts(%s);" % rex(s[1])
    if k == "block":
        return "{ %s }" % " ".join(rst(x) for x in s[1])
    if k == "fn":
        return "fn %s(%s) { %s return %s; }" % (s[1], ", ".join(s[2]), " ".join(rst(x) for x in s[3]), rex(s[4]))


# ---- generator ------------------------------------------------------------------------------------------------------
NAMES = ["a", "b", "c", "d"]


class Gen:
    def __init__(self, rng):
        self.rng, self.k, self.fnk = rng, 0, 0

    def lit(self):
        self.k += 1
        return ("lit", self.k * 10)

    def expr(self, vis, fns, depth=0):
        r = self.rng.random()
        ints = [n for n in vis if n not in fns]
        if ints and r < 0.5:
            return ("var", self.rng.choice(ints))
        if ints and r < 0.65 and depth < 2:
            return ("add", self.expr(vis, fns, depth + 1), self.lit())
        callable_ = [f for f in fns if f in vis and fns[f] is not None]
        if callable_ and r < 0.85 and depth < 2:
            f = self.rng.choice(callable_)
            return ("call", f, [self.lit() for _ in range(fns[f])])
        return self.lit()

    def stmts(self, vis, fns, depth, in_fn, n):
        out = []
        vis = list(vis)
        fns = dict(fns)
        for _ in range(n):
            r = self.rng.random()
            ints = [x for x in vis if x not in fns]
            if r < 0.30 or not vis:
                name = self.rng.choice(NAMES)
                # the initialiser never mentions the name being bound: the language makes a binding visible inside its own
                # initialiser (recursive function literals need that), which the property does not speak about
                out.append(("let", name, self.expr([v for v in vis if v != name], fns)))
                if name in fns:
                    del fns[name]
                if name not in vis:
                    vis.append(name)
            elif r < 0.42 and ints:
                out.append(("set", self.rng.choice(ints), self.expr(vis, fns)))
            elif r < 0.62:
                out.append(("put", self.expr(vis, fns)))
            elif r < 0.78 and depth < 3:
                out.append(("block", self.stmts(vis, fns, depth + 1, in_fn, self.rng.randint(1, 4))))
            elif r < 0.93 and depth < 2:
                self.fnk += 1
                fname = "f%d" % self.fnk
                params = self.rng.sample(["p", "q"], self.rng.randint(0, 2))
                bvis = vis + [fname] + params
                bfns = dict(fns); bfns[fname] = None       # no recursion
                body = self.stmts(bvis, bfns, depth + 1, True, self.rng.randint(0, 3))
                top = [s[1] for s in body if s[0] == "let"]
                ret = self.expr([v for v in bvis + top], {k: v for k, v in bfns.items() if k not in top})
                out.append(("fn", fname, params, body, ret))
                vis.append(fname); fns[fname] = len(params)
                out.append(("put", ("call", fname, [self.lit() for _ in params])))
            else:
                # a use of a name that may have no visible binding (must then be a compile error)
                out.append(("put", ("var", self.rng.choice(NAMES + ["zz"]))))
        return out


def closure_templates():
    """hand-written shapes around capture-at-creation and globals-by-reference"""
    return [
        ("fn mk(p) { let v = p; let g = fn() { return v; }; v = v + 1; return g; } let c = mk(5); puts(c());", "5\n"),
        ("fn mk(p) { let g = fn() { return p; }; p = p + 1; return g; } puts(mk(7)());", "7\n"),
        ("fn mk(p) { let v = p; v = v + 1; let g = fn() { return v; }; return g; } puts(mk(5)());", "6\n"),
        ("let x = 1; fn f() { return x; } x = 2; puts(f());", "2\n"),
        ("let x = 1; fn s() { x = 5; return 0; } s(); puts(x);", "5\n"),
        ("let x = 1; fn f() { let x = 2; return x; } puts(f()); puts(x);", "2\n1\n"),
        ("let x = 1; { let x = 2; puts(x); } puts(x);", "2\n1\n"),
        ("let x = 1; { let x = 2; { let x = 3; puts(x); } puts(x); } puts(x);", "3\n2\n1\n"),
        ("let x = 1; { let x = 2; if true { 0; } } { puts(x); }", "1\n"),
        ("let x = 1; { let x = 2; while false { 0; } } fn g() { return x; } puts(g());", "1\n"),
        ("fn mk(x) { { let x = 9; while false { 0; } } return fn() { return x; }; } puts(mk(4)());", "4\n"),
        ("fn o(a) { fn m(b) { return fn(c) { return a + b + c; }; } return m(10); } puts(o(100)(1));", "111\n"),
        ("fn o(a) { let f = fn() { return a; }; a = a + 1; let g = fn() { return a; }; return f() * 1000 + g(); } puts(o(1));", "1002\n"),
        ("let a = [1]; fn mk() { let l = a; return fn() { return l[0]; }; } let c = mk(); a[0] = 7; puts(c());", "7\n"),
        ("fn f() { { let t = 1; } return 2; } puts(f());", "2\n"),
        # a function that outlives its block keeps reading and writing the block's binding, whatever is bound afterwards
        ("let keep = []; { let h = 41; fn f() { h = h + 1; return h; } push(keep, f); } { let lim = 7; puts(lim); } puts(keep[0]()); puts(keep[0]());", "7\n42\n43\n"),
        ("let m = map {}; { let hits = 40; m[\"inc\"] = fn() { hits = hits + 1; return hits; }; m[\"get\"] = fn() { return hits; }; } { let limit = 7; puts(limit); let other = 100; puts(m[\"inc\"]()); puts(limit); puts(other); } puts(m[\"get\"]());", "7\n41\n7\n100\n41\n"),
        ("let g = null; { let a = 1; { let b = 2; g = fn() { return a * 10 + b; }; } let c = 3; puts(c); } let d = 4; let e = 5; puts(g()); puts(d + e);", "3\n12\n9\n"),
        ("let fs = []; let i = 0; while i < 3 { let v = i * 10; push(fs, fn() { return v; }); i = i + 1; } let z = 99; puts(fs[0](), \" \", fs[1](), \" \", fs[2](), \" \", z);", None),
        ("fn mk() { let fs = []; let i = 0; while i < 3 { let v = i * 10; push(fs, fn() { return v; }); i = i + 1; } return fs; } let fs = mk(); puts(fs[0](), \" \", fs[1](), \" \", fs[2]());", "0 10 20\n"),
        ("{ let x = 5; fn get() { return x; } { let y = 6; puts(get() + y); } } { let w = 70; let v = 80; puts(w + v); }", "11\n150\n"),
        ("let out = []; { let p = 1; push(out, fn() { p = p + 1; return p; }); } { let q = 50; push(out, fn() { q = q + 1; return q; }); } puts(out[0](), \" \", out[1](), \" \", out[0](), \" \", out[1]());", "2 51 3 52\n"),
    ]


UNDEF = [
    "{ let t = 1; if true { 0; } } { puts(t); }", "{ let t = 1; } puts(t);", "fn f() { return y; } let y = 1; puts(f());", "fn f() { { let u = 1; } return u; } puts(f());",
    "let a = 1; { let b = 2; } puts(a + b);", "fn f(p) { return p; } puts(p);", "puts(nosuch);", "nosuch = 1;", "fn f() { let l = 1; return fn() { return l; }; } puts(l);",
    "{ { let d = 1; } puts(d); }", "fn f() { { let t = 1; while false { 0; } } { return t; } } puts(f());",
]


def gen(tier, rng):
    for k, (prog, want) in enumerate(closure_templates()):
        if want is None:
            continue      # shape kept for documentation: a global re-bound in a loop body is one binding per iteration or one in all - the property does not say
        yield dict(id="tmpl/%d" % k, prog=prog, batch=True,
                   check=(lambda r, want=want, prog=prog: no_panic(r) or (None if r.text == want and "rror" not in r.etext else "%s: expected %r, got %r %r" % (prog, want, r.text[:80], r.etext[:160]))))
    for k, prog in enumerate(UNDEF):
        yield dict(id="undef/%d" % k, prog='puts("RAN"); ' + prog,
                   check=(lambda r, prog=prog: no_panic(r) or (None if "compile error" in r.etext and r.text == "" else "%s: a name without a visible binding must be a compile error; got stdout=%r stderr=%r" % (prog, r.text[:80], r.etext[:160]))))
    n = 300 if tier == "quick" else 6000
    for c in range(n):
        g = Gen(rng)
        prog_ast = g.stmts([], {}, 0, False, rng.randint(3, 9))
        text = "\n".join(rst(s) for s in prog_ast) + "\n"
        try:
            check_names(prog_ast, [set()])
            out = []
            run(prog_ast, [{}], out, False)
            want, cerr = "".join(x + "\n" for x in out), False
        except CompileError:
            want, cerr = "", True
        except RecursionError:
            continue

        def check(r, want=want, cerr=cerr, text=text):
            m = no_panic(r)
            if m:
                return m
            if cerr:
                if "compile error" not in r.etext or r.text != "":
                    return "a name has no visible binding: expected a compile error and no output; got stdout=%r stderr=%r\n%s" % (r.text[:80], r.etext[:160], text[:600])
                return None
            if "rror" in r.etext:
                return "the reference evaluator prints %r, the interpreter raised %s\n%s" % (want[:80], r.etext.strip()[:160], text[:600])
            if r.text != want:
                return "the reference evaluator prints %r, the interpreter %r\n%s" % (want[:120], r.text[:120], text[:600])
        yield dict(id="rand/%d" % c, prog=text, check=check, batch=not cerr)


GROUPS = [
    dict(name="C04/scoping-and-capture", clause="names resolve to the innermost visible binding; a binding ends with its block; no visible binding is a compile error; functions read and write globals by reference; closures capture the enclosing functions' locals and parameters by value at creation",
         bound="15 capture/shadowing templates, 11 undefined-name programs, 300/6000 seeded random programs (<= 9 top-level statements, blocks 3 deep, functions 2 deep, 4 names) against a reference evaluator", gen=gen),
]
