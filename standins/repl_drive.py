"""Drive the p2sh REPL through a pseudo-terminal: argv = binary, then one REPL line per argument. Prints the transcript with
terminal escape sequences removed."""
import os, pty, re, select, sys, time
binary, lines = sys.argv[1], sys.argv[2:]
pid, fd = pty.fork()
if pid == 0:
    os.environ["TERM"] = "xterm"
    os.execv(binary, [binary])
out = b""


def drain(quiet, limit):
    global out
    end = time.time() + limit
    last = time.time()
    while time.time() < end and time.time() - last < quiet:
        r, _, _ = select.select([fd], [], [], 0.05)
        if r:
            try:
                d = os.read(fd, 4096)
            except OSError:
                return
            if not d:
                return
            out += d
            last = time.time()


drain(0.6, 8.0)
for k, l in enumerate(lines + ["quit"]):
    os.write(fd, l.encode() + b"\r")
    # wait for the marker line that follows each input (the caller alternates inputs with marker prints) or for quiet
    drain(0.35, 6.0)
try:
    os.waitpid(pid, 0)
except Exception:
    pass
txt = out.decode(errors="replace")
txt = re.sub(r"\x1b\[[0-9;?]*[A-Za-z]", "", txt).replace("\r", "")
sys.stdout.write(txt)
