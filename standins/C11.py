"""C11 bounded stand-in: the pure builtins on the real binary. Expected values are taken from docs/language/builtins.md
and the property text (round-trip laws, sort); where the documentation does not fix a value (e.g. what char() makes of an
out-of-range integer) nothing is demanded beyond 'no panic'."""
from .common import strlit, intlit, no_panic, I64_MIN, I64_MAX


def expect_out(cid, prog, want, batch=True):
    def check(r, want=want):
        m = no_panic(r)
        if m:
            return m
        if "untime error" in r.etext or "rror" in r.etext and "compile" in r.etext:
            return "expected %r, got an error: %s" % (want, r.etext.strip()[:200])
        if r.text != want:
            return "expected stdout %r, got %r (stderr %r)" % (want, r.text[:300], r.etext[:200])
    return dict(id=cid, prog=prog, check=check, batch=batch)


def expect_rterr(cid, prog, name):
    def check(r, name=name):
        m = no_panic(r)
        if m:
            return m
        if "untime error" not in r.etext:
            return "expected a runtime error naming %s; got exit=%s stdout=%r stderr=%r" % (name, r.rc, r.text[:200], r.etext[:200])
        if name not in r.etext:
            return "the runtime error does not name the builtin %s: %s" % (name, r.etext.strip()[:200])
    return dict(id=cid, prog=prog, check=check)


INTS = [0, 1, -1, 7, -7, 255, 256, 65535, 65536, 2**31 - 1, 2**31, -2**31, 2**32, 2**53 - 1, 2**53, 2**53 + 1, -(2**53) - 1,
        9007199254740993, 123456789012345678, I64_MAX, I64_MAX - 1, I64_MIN, I64_MIN + 1, 10**18, -10**18, 999999999999999999]
# finite doubles written so that the scanner reads exactly that double (decimal literals)
FLOATS = ["0.5", "1.5", "0.1", "0.30000000000000004", "123456.789", "1e300", "1.7976931348623157e308", "5e-324", "2.2250738585072014e-308",
          "1e-7", "1e21", "1e22", "9007199254740993.0", "0.000001", "3.141592653589793", "100.0", "1e16", "4.35", "2.675", "1e15", "123456789012345680.0"]
STRS = ["", "a", "abc", "héllo", "日本語", "a b\tc", "x😀y", "ß", "'", "{}", "0", "-1"]


def gen_laws(tier, rng):
    ints = list(INTS)
    n_extra = 60 if tier == "quick" else 1500
    for _ in range(n_extra):
        k = rng.choice([8, 16, 31, 32, 52, 53, 54, 62, 63])
        v = rng.getrandbits(k)
        ints.append(rng.choice([v, -v]))
    for n in ints:
        yield expect_out("int-of-str/%d" % n, "let n = %s; puts(int(str(n)) == n); puts(int(str(n)));" % intlit(n), "true\n%d\n" % n)
    fl = list(FLOATS)
    for _ in range(40 if tier == "quick" else 800):
        m = rng.getrandbits(53) | (1 << 52)
        e = rng.randint(-60, 60)
        fl.append(repr(float(m) * (2.0 ** e)))
    for x in fl:
        for sign in ("", "-"):
            yield expect_out("float-of-str/%s%s" % (sign, x), "let x = %s%s; puts(float(str(x)) == x);" % (sign, x), "true\n")
    for s in STRS:
        lit = strlit(s)
        nb = len(s.encode())
        yield expect_out("utf8-roundtrip/%s" % s, "let s = %s; puts(decode_utf8(encode_utf8(s)) == s); puts(join(chars(s)) == s); puts(len(encode_utf8(s)) == len(s)); puts(len(encode_utf8(s)));" % lit,
                         "true\ntrue\ntrue\n%d\n" % nb)


def p2arr(xs):
    return "[" + ", ".join(strlit(x) if isinstance(x, str) else (intlit(x) if isinstance(x, int) else repr(x)) for x in xs) + "]"


def show(xs):
    def one(x):
        if isinstance(x, str):
            return '"%s"' % x
        if isinstance(x, float):
            return ("%d" % x) if x == int(x) and abs(x) < 1e15 else repr(x)
        return str(x)
    return "[" + ", ".join(one(x) for x in xs) + "]"


def gen_sort(tier, rng):
    n = 40 if tier == "quick" else 600
    for k in range(n):
        L = rng.randint(0, 9)
        kind = rng.choice(["int", "int", "mixed", "str", "bigint", "bigint"])
        if kind == "bigint":
            L = rng.randint(2, 30)
            xs = [rng.choice([2**53, 2**53 + 1, 2**53 + 2, 2**53 + 3, 2**62, 2**62 + 1, I64_MAX, I64_MAX - 1, I64_MAX - 2, -(2**53) - 1, -(2**53), -(2**53) - 2, I64_MIN + 1, I64_MIN + 2,
                              1700000000123456789, 1700000000123456790, 1700000000123456791]) for _ in range(L)]
        elif kind == "int":
            xs = [rng.choice([rng.randint(-5, 5), rng.randint(-10**6, 10**6), I64_MAX, I64_MIN + 1, 0]) for _ in range(L)]
        elif kind == "mixed":
            xs = [rng.choice([rng.randint(-4, 4), rng.randint(-4, 4) + 0.5, float(rng.randint(-4, 4)) + 0.25]) for _ in range(L)]
        else:
            xs = [rng.choice(["", "a", "b", "ab", "ba", "B", "aa", "z", "é"]) for _ in range(L)]
        want = sorted(xs)
        # a non-decreasing permutation: with mixed int/float ties (2 and 2.0 cannot both occur here) the order is unique up to equal elements
        yield expect_out("sort/%d/%s" % (k, kind), "let a = %s; sort(a); puts(a);" % p2arr(xs), show(want) + "\n")
        yield expect_out("sort-ret/%d/%s" % (k, kind), "puts(sort(%s));" % p2arr(xs), show(want) + "\n")


DOC = [
    # (program, expected stdout) - documented results
    ('puts(len("abc"));', "3\n"), ('puts(len(""));', "0\n"), ('puts(len([1, 2]));', "2\n"), ('puts(len([]));', "0\n"), ('puts(len(map {1: 2, 3: 4}));', "2\n"),
    ('puts(first([1, 2, 3]));', "1\n"), ('puts(first([]));', "null\n"), ('puts(last([1, 2, 3]));', "3\n"), ('puts(last([]));', "null\n"),
    ('puts(rest([1, 2, 3]));', "[2, 3]\n"), ('puts(rest([1]));', "[]\n"), ('puts(rest([]));', "null\n"),
    ('let a = [1, 2, 3]; push(a, 4); puts(a);', "[1, 2, 3, 4]\n"), ('let a = []; push(a, "x"); puts(a);', '["x"]\n'),
    ('let a = [1, 2, 3]; puts(pop(a)); puts(a);', "3\n[1, 2]\n"), ('let a = []; puts(pop(a)); puts(a);', "null\n[]\n"),
    ('puts(get([1, 2, 3], 1));', "2\n"), ('puts(get([1, 2, 3], 0));', "1\n"), ('puts(get([1, 2, 3], 3));', "null\n"), ('puts(get([], 0));', "null\n"),
    ('puts(get(map {"a": 1, "b": 2}, "a"));', "1\n"), ('puts(get(map {"a": 1}, "zz"));', "null\n"),
    ('puts(contains(map {"a": 1, "b": 2}, "a"));', "true\n"), ('puts(contains(map {"a": 1}, "b"));', "false\n"), ('puts(contains(map {}, 1));', "false\n"),
    ('let m = map {"a": 1}; puts(insert(m, "a", 5)); puts(insert(m, "q", 6)); puts(m["a"]); puts(m["q"]); puts(len(m));', "1\nnull\n5\n6\n2\n"),
    ('puts(str(123));', "123\n"), ('puts(str(-5));', "-5\n"), ('puts(str("s"));', "s\n"), ('puts(str(true));', "true\n"), ('puts(str(null));', "null\n"), ('puts(str(1.5));', "1.5\n"),
    ('puts(len(str(1234)));', "4\n"), ('puts(str([1, 2]));', "[1, 2]\n"),
    ('puts(int("123"));', "123\n"), ('puts(int("-9223372036854775808"));', "-9223372036854775808\n"), ('puts(int(7));', "7\n"), ('puts(int(true));', "1\n"), ('puts(int(false));', "0\n"),
    ("puts(int('a'));", "97\n"), ("puts(int(b'a'));", "97\n"), ('puts(int(3.0));', "3\n"),
    ('puts(float("123.4"));', "123.4\n"), ('puts(float(2));', "2\n"), ('puts(float(2.5));', "2.5\n"), ('puts(float(true));', "1\n"), ("puts(float(b'a'));", "97\n"),
    ('puts(char(97));', "'a'\n"), ("puts(char(b'a'));", "'a'\n"), ("puts(char('z'));", "'z'\n"), ('puts(char("a"));', "'a'\n"), ('puts(char(97.0));', "'a'\n"),
    ('puts(byte(97));', "0x61\n"), ("puts(byte('a'));", "0x61\n"), ("puts(byte(b'z'));", "0x7a\n"), ('puts(byte(true));', "0x1\n"), ('puts(byte("a"));', "0x61\n"), ('puts(byte(97.0));', "0x61\n"),
    ('puts(tolower("AbC"));', "abc\n"), ("puts(tolower('A'));", "'a'\n"), ("puts(tolower(b'A'));", "0x61\n"),
    ('puts(toupper("AbC"));', "ABC\n"), ("puts(toupper('a'));", "'A'\n"), ("puts(toupper(b'a'));", "0x41\n"), ('puts(toupper("a1-z"));', "A1-Z\n"),
    ('puts(chars("ab"));', "['a', 'b']\n"), ('puts(chars(""));', "[]\n"), ("puts(join(['a', 'b']));", "ab\n"), ("puts(join([]));", "\n"),
    ("puts(join(['a', 'b', 'c'], \"-\"));", "a-b-c\n"), ("puts(join(['a', 'b'], ','));", "a,b\n"), ("puts(join(['a'], \"--\"));", "a\n"),
    ('puts(encode_utf8("hi"));', "[0x68, 0x69]\n"), ('puts(encode_utf8(""));', "[]\n"), ("puts(decode_utf8([b'h', b'i']));", "hi\n"),
    ('puts(is_error(1));', "false\n"), ('puts(is_error(null));', "false\n"), ('puts(is_error(open("/nonexistent-dir/x")));', "true\n"), ('puts(is_error(decode_utf8([byte(255)])));', "true\n"),
    ('puts(round(3.11111, 2));', "3.11\n"), ('puts(round(3.14159, 3));', "3.142\n"), ('puts(round(2.0, 0));', "2\n"), ('puts(round(1.25, 1) == 1.3 || round(1.25, 1) == 1.2);', "true\n"),
    ('puts(sort([3, 2, 1]));', "[1, 2, 3]\n"), ("puts(sort(['b', 'a']));", "['a', 'b']\n"), ('puts(sort([]));', "[]\n"),
]

# wrong arity / wrong kind: a runtime error naming the builtin
ARITY = {"len": 1, "first": 1, "last": 1, "rest": 1, "push": 2, "pop": 1, "get": 2, "contains": 2, "insert": 3, "str": 1, "int": 1, "float": 1, "char": 1,
         "byte": 1, "tolower": 1, "toupper": 1, "sort": 1, "chars": 1, "encode_utf8": 1, "decode_utf8": 1, "is_error": 1, "round": 2}
WRONG_KIND = {
    "len": ["1", "1.5", "true", "null", "'a'"], "first": ["1", '"s"', "map {1: 2}", "null"], "last": ["1", '"s"', "null"], "rest": ["1", '"s"', "true"],
    "push": ["1, 1", '"s", 1', "map {}, 1"], "pop": ["1", '"s"', "null"], "get": ["1, 1", '"s", 0', "null, 1"], "contains": ["[1], 1", '"s", "s"', "1, 1"],
    "insert": ["[1], 0, 1", '"s", 0, 1', "1, 1, 1"], "int": ["[1]", "map {}", "null"], "float": ["[1]", "map {}", "null"], "char": ["[1]", "map {}", "null"],
    "byte": ["[1]", "map {}", "null"], "tolower": ["1", "1.5", "[1]", "true"], "toupper": ["1", "null", "[1]"], "sort": ["1", '"cba"', "map {}"],
    "chars": ["1", "['a']", "null"], "encode_utf8": ["1", "[1]", "null"], "decode_utf8": ["1", '"s"', "null"], "round": ['"s", 1', "[1], 1", "1.5, 1.5", 'null, 0'],
}
GOOD_ARG = {"len": '"a"', "first": "[1]", "last": "[1]", "rest": "[1]", "push": "[1]", "pop": "[1]", "get": "[1]", "contains": "map {1: 2}", "insert": "map {1: 2}",
            "str": "1", "int": "1", "float": "1", "char": "97", "byte": "97", "tolower": '"A"', "toupper": '"a"', "sort": "[1]", "chars": '"a"', "encode_utf8": '"a"',
            "decode_utf8": "[b'a']", "is_error": "1", "round": "1.5"}


def gen_doc(tier, rng):
    for k, (prog, want) in enumerate(DOC):
        yield expect_out("doc/%d/%s" % (k, prog[:40]), prog, want)


def gen_errors(tier, rng):
    for name, ar in sorted(ARITY.items()):
        for n in range(0, 5):
            if n == ar or (name == "join" and n in (1, 2)):
                continue
            args = ", ".join([GOOD_ARG[name]] + ["1"] * (n - 1)) if n > 0 else ""
            yield expect_rterr("arity/%s/%d" % (name, n), "puts(1); %s(%s); puts(2);" % (name, args), name)
    for n in (0, 3):
        yield expect_rterr("arity/join/%d" % n, "join(%s);" % ("" if n == 0 else "['a'], \"-\", 1"), "join")
    for name, bad in sorted(WRONG_KIND.items()):
        for b in bad:
            yield expect_rterr("kind/%s/%s" % (name, b), "%s(%s);" % (name, b), name)
    yield expect_rterr("kind/join/1", "join(1);", "join")
    yield expect_rterr("kind/join/str", 'join("ab");', "join")
    yield expect_rterr("kind/join/delim", "join(['a'], 1);", "join")


GROUPS = [
    dict(name="C11/round-trip-laws", clause="int(str(n)) == n; float(str(x)) == x for finite x; decode_utf8(encode_utf8(s)) == s; join(chars(s)) == s; len(encode_utf8(s)) == len(s)",
         bound="26 boundary integers + 60/1500 seeded random ones; 21 doubles + 40/800 random ones, both signs; 12 strings incl. non-ASCII", gen=gen_laws),
    dict(name="C11/sort", clause="sort leaves an array of mutually comparable values as a non-decreasing permutation of itself (and returns it)",
         bound="40/600 seeded random arrays of <= 9 integers, mixed integers/floats or strings", gen=gen_sort),
    dict(name="C11/documented-results", clause="each pure builtin returns the documented result for arguments of a documented kind",
         bound="%d fixed calls taken from docs/language/builtins.md" % len(DOC), gen=gen_doc),
    dict(name="C11/arity-and-kind-errors", clause="any other arity or argument kind is a runtime error naming the builtin",
         bound="every pure builtin x arities 0..4 and 3-5 undocumented argument kinds", gen=gen_errors),
]
