"""C14 bounded stand-in: generated programs whose operands sit just below, at and above the encoding limits (65535 constants,
globals, jump distances, array/map elements; 255 locals, arguments, captured variables). Each either runs with the right
result or is rejected with a compile error - never silently miscompiled, never a crash."""
from .common import no_panic, pcap_global


def mk(cid, prog, want, timeout=600, stdin=b"", flags=None):
    def check(r, want=want):
        m = no_panic(r)
        if m:
            return m
        if "compile error" in r.etext or "parse error" in r.etext:
            if r.text != "":
                return "a compile error was reported but the program produced output %r" % r.text[:80]
            return None                      # rejected: allowed
        if "Stack overflow" in r.etext and "untime error" in r.etext:
            return None                      # a reported resource limit of the VM, not a miscompilation
        if r.text != want or "rror" in r.etext:
            return "expected stdout %r (or a compile error); got stdout=%r stderr=%r" % (want[:80], r.text[:120], r.etext[:160])
    return dict(id=cid, prog=prog, check=check, timeout=timeout, stdin=stdin, flags=flags or [])


def gen(tier, rng):
    quick = tier == "quick"
    # constants: n distinct integer constants (in array literals of 4000, which fit the VM stack), the last one is printed
    for n in ([] if quick else [256, 257, 64000, 65535, 65536, 65537, 65538, 68000]):
        full, rest = divmod(n - 2, 4000)       # the statement's own constants: the index 0 and the final print
        arrs = ["let a%d = [%s];\n" % (k, ", ".join(str(1000000 + k * 4000 + i) for i in range(4000))) for k in range(full)]
        if rest:
            arrs.append("let a%d = [%s];\n" % (full, ", ".join(str(1000000 + full * 4000 + i) for i in range(rest))))
        last = len(arrs) - 1
        lastlen = rest if rest else 4000
        prog = "".join(arrs) + "puts(a%d[%d]);\n" % (last, lastlen - 1)
        yield mk("constants/%d" % n, prog, "%d\n" % (1000000 + last * 4000 + lastlen - 1), timeout=900)
    # globals: n global bindings, first and last read back (compilation is quadratic in program size: thorough tier only)
    for n in ([] if quick else [65530, 65535, 65536, 65537, 65540]):
        prog = "".join("let g%d = %d;\n" % (i, i % 7) for i in range(n)) + "puts(g0, \" \", g%d, \" \", g%d);\n" % (n // 2, n - 1)
        yield mk("globals/%d" % n, prog, "%d %d %d\n" % (0, (n // 2) % 7, (n - 1) % 7), timeout=600)
    # forward jumps across a block of about `size` bytes of bytecode
    for size in ([65500, 66000] if quick else [30000, 60000, 65400, 65500, 65530, 65536, 65540, 65600, 66000, 70000, 131100]):
        filler = "".join("y = y + 1;\n" for _ in range(size // 11))
        yield mk("jump/if-false/%d" % size, "let y = 0;\nif y == 1 {\nputs(\"WRONG\");\n%s}\nputs(\"after \", y);\n" % filler, "after 0\n")
        if quick:
            yield mk("jump/while/%d" % size, "let y = 0;\nlet n = 0;\nwhile n < 2 {\nn = n + 1;\n%s}\nputs(\"after \", y, \" \", n);\n" % filler, "after %d 2\n" % (2 * (size // 11)), timeout=300)
            yield mk("jump/and/%d" % size, "let y = 0;\nlet r = false && [%s];\nputs(r);\n" % ", ".join("y" for _ in range(size // 3)), "false\n", timeout=300)
            continue
        yield mk("jump/if-else/%d" % size, "let y = 0;\nif y == 0 {\n%s} else {\nputs(\"WRONG\");\n}\nputs(\"after \", y);\n" % filler, "after %d\n" % (size // 11))
        yield mk("jump/while/%d" % size, "let y = 0;\nlet n = 0;\nwhile n < 2 {\nn = n + 1;\n%s}\nputs(\"after \", y, \" \", n);\n" % filler, "after %d 2\n" % (2 * (size // 11)))
        yield mk("jump/break/%d" % size, "let y = 0;\nloop {\nif y == 0 { break; }\n%s}\nputs(\"after \", y);\n" % filler, "after 0\n")
        yield mk("jump/and/%d" % size, "let y = 0;\nlet r = false && [%s];\nputs(r);\n" % ", ".join("y" for _ in range(size // 3)), "false\n")
        yield mk("jump/fn-body/%d" % size, "fn f(y) {\nif y == 1 {\n%sreturn 7;\n}\nreturn y;\n}\nputs(f(0));\n" % filler, "0\n")
    # array / map literal sizes
    for n in ([] if quick else [65530, 65535, 65536, 65537, 70000]):
        yield mk("array/%d" % n, "let a = [" + ", ".join(str(i % 10) for i in range(n)) + "];\nputs(len(a), \" \", a[%d]);\n" % (n - 1), "%d %d\n" % (n, (n - 1) % 10))
    for n in ([] if quick else [32760, 32767, 32768, 32769, 40000]):
        yield mk("map/%d" % n, "let m = map {" + ", ".join("%d: %d" % (i, i % 10) for i in range(n)) + "};\nputs(len(m), \" \", m[%d]);\n" % (n - 1), "%d %d\n" % (n, (n - 1) % 10))
    # locals, arguments, captured variables around 255
    for n in [250, 255, 256, 257, 300, 600]:
        yield mk("locals/%d" % n, "fn f() {\n" + "".join("let v%d = %d;\n" % (i, i) for i in range(n)) + "return v0 + v%d;\n}\nputs(f());\n" % (n - 1), "%d\n" % (n - 1))
        yield mk("args/%d" % n, "fn f(" + ", ".join("p%d" % i for i in range(n)) + ") { return p0 + p%d; }\nputs(f(" % (n - 1) + ", ".join(str(i) for i in range(n)) + "));\n", "%d\n" % (n - 1))
        yield mk("free/%d" % n, "fn outer() {\n" + "".join("let v%d = %d;\n" % (i, i) for i in range(n)) + "return fn() { return " + " + ".join("v%d" % i for i in range(n)) + "; };\n}\nputs(outer()());\n",
                 "%d\n" % (n * (n - 1) // 2))
        yield mk("locals-in-filter/%d" % n, "@ end {\n" + "".join("let v%d = %d;\n" % (i, i) for i in range(n)) + "puts(v0 + v%d);\n}\n" % (n - 1), "%d\n" % (n - 1), stdin=pcap_global(), flags=["-s"])


GROUPS = [
    dict(name="C14/operand-limits", clause="a program that needs an operand its encoding cannot hold is rejected with a compile error; every program that is accepted computes the right result",
         bound="quick: 250..600 locals / arguments / captured variables (also in a filter action) and jumps across 65500 / 66000 bytes in if, while and &&; thorough adds: generated programs with 65530..65600 (131073) constants / globals / array elements, 32760..32770 map pairs, forward and backward jumps across 60000..70000 (200000) bytes in if / else / while / break / && / function bodies, 250..600 locals, arguments and captured variables", gen=gen),
]
