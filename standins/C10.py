"""C10 bounded stand-in: sequences of insert / get / contains / indexing on maps whose keys come from a pool of valid keys with
equal-but-differently-represented members (1 and 1.0, 0.0 and -0.0, arrays of those), against a reference dictionary keyed by
the equality class of the key."""
from .common import no_panic

# (p2sh expression, equality class)
KEYS = [
    ("1", ("n", 1.0)), ("1.0", ("n", 1.0)), ("(2 - 1)", ("n", 1.0)), ("0", ("n", 0.0)), ("0.0", ("n", 0.0)), ("(-0.0)", ("n", 0.0)), ("(0.0 * -1.0)", ("n", 0.0)),
    ("2", ("n", 2.0)), ("2.5", ("n", 2.5)), ("(5.0 / 2.0)", ("n", 2.5)), ("(-1)", ("n", -1.0)), ("(-1.0)", ("n", -1.0)), ("9007199254740993", ("n", 9007199254740992.0)),
    ("9007199254740992.0", ("n", 9007199254740992.0)), ("1e300", ("n", 1e300)), ("4611686018427387904", ("n", 4611686018427387904.0)), ("4611686018427387904.0", ("n", 4611686018427387904.0)),
    ('"a"', ("s", "a")), ('"1"', ("s", "1")), ('""', ("s", "")), ("'a'", ("c", "a")), ("'1'", ("c", "1")), ("b'a'", ("b", 97)), ("byte(97)", ("b", 97)), ("byte(1)", ("b", 1)),
    ("true", ("t", True)), ("false", ("t", False)), ("(1 == 1)", ("t", True)),
    ("[1]", ("a", (("n", 1.0),))), ("[1.0]", ("a", (("n", 1.0),))), ("[0.0, 2]", ("a", (("n", 0.0), ("n", 2.0)))), ("[(-0.0), 2.0]", ("a", (("n", 0.0), ("n", 2.0)))),
    ("[]", ("a", ())), ('["a", [1]]', ("a", (("s", "a"), ("a", (("n", 1.0),))))), ('["a", [1.0]]', ("a", (("s", "a"), ("a", (("n", 1.0),))))), ("[[]]", ("a", (("a", ()),))),
    ("len", ("f", "len")), ("puts", ("f", "puts")),
]


def gen(tier, rng):
    n = 160 if tier == "quick" else 4000
    for c in range(n):
        model = {}
        st = ["let m = map {};"]
        want = []
        # optionally start from a literal with possibly equal keys
        if rng.random() < 0.4:
            ks = [rng.choice(KEYS) for _ in range(rng.randint(1, 4))]
            vals = [rng.randint(100, 999) for _ in ks]
            seen = set()
            if len({k[1] for k in ks}) == len(ks):       # literals with duplicate-equal keys are left to the insert sequences
                st = ["let m = map {%s};" % ", ".join("%s: %d" % (k[0], v) for k, v in zip(ks, vals))]
                for k, v in zip(ks, vals):
                    model[k[1]] = v
        for _ in range(rng.randint(3, 12)):
            k = rng.choice(KEYS)
            op = rng.choice(["insert", "insert", "get", "contains", "index", "len"])
            if op == "insert":
                v = rng.randint(100, 999)
                st.append("puts(insert(m, %s, %d));" % (k[0], v))
                want.append(str(model.get(k[1], "null")))
                model[k[1]] = v
            elif op == "get":
                st.append("puts(get(m, %s));" % k[0])
                want.append(str(model.get(k[1], "null")))
            elif op == "contains":
                st.append("puts(contains(m, %s));" % k[0])
                want.append("true" if k[1] in model else "false")
            elif op == "index":
                if k[1] in model:
                    st.append("puts(m[%s]);" % k[0])
                    want.append(str(model[k[1]]))
                else:
                    v = rng.randint(100, 999)
                    st.append("m[%s] = %d; puts(m[%s]);" % (k[0], v, k[0]))
                    model[k[1]] = v
                    want.append(str(v))
            else:
                st.append("puts(len(m));")
                want.append(str(len(model)))
        st.append("puts(len(m));")
        want.append(str(len(model)))
        prog = "\n".join(st) + "\n"
        w = "".join(x + "\n" for x in want)

        def check(r, w=w, prog=prog):
            m = no_panic(r)
            if m:
                return m
            if "rror" in r.etext:
                return "the map program raised %s\n%s" % (r.etext.strip()[:160], prog[:700])
            if r.text != w:
                gl, wl = r.text.split("\n"), w.split("\n")
                i = next((i for i, (x, y) in enumerate(zip(gl, wl)) if x != y), min(len(gl), len(wl)))
                return "output line %d is %r, the reference dictionary says %r\n%s" % (i + 1, gl[i] if i < len(gl) else None, wl[i] if i < len(wl) else None, prog[:700])
        yield dict(id="seq/%d" % c, prog=prog, check=check, batch=True)
    # pairwise: k1 and k2 are the same entry exactly when k1 == k2
    pairs = [(a, b) for a in KEYS for b in KEYS]
    if tier == "quick":
        pairs = [p for p in pairs if p[0][1] == p[1][1]] + rng.sample(pairs, 150)
    for a, b in pairs:
        same = a[1] == b[1]
        prog = "let m = map {}; insert(m, %s, 1); puts(contains(m, %s)); puts(get(m, %s)); insert(m, %s, 2); puts(len(m)); puts(%s == %s);" % (a[0], b[0], b[0], b[0], a[0], b[0])
        w = ("true\n1\n1\ntrue\n" if same else "false\nnull\n2\nfalse\n")
        yield dict(id="pair/%s/%s" % (a[0], b[0]), prog=prog, batch=True,
                   check=(lambda r, w=w, prog=prog: no_panic(r) or (None if r.text == w and "rror" not in r.etext else "%s: expected %r, got %r %r" % (prog, w, r.text[:80], r.etext[:120]))))


GROUPS = [
    dict(name="C10/map-key-equality", clause="indexing, get, contains and insert treat two valid keys as the same entry exactly when they are ==, including 1 and 1.0, 0.0 and -0.0 and arrays equal in that sense; a lookup returns the value most recently inserted under an equal key",
         bound="38 key expressions in 24 equality classes; 160/4000 seeded operation sequences (3-12 operations) against a reference dictionary; every equal pair and 150 random pairs (thorough: all 1444 pairs)", gen=gen),
]
