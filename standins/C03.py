"""C03 bounded stand-in: random expression trees over the binary operators * / % + - << >> & ^ | == != < > <= >= && ||, the prefix
operators ! - ~, indexing and calls. Each tree is written twice - with only the parentheses the documented precedence table
(docs/language/expression-precedence.md) and left-to-right grouping require, and fully parenthesised - and both texts must
evaluate to the same result on the real binary. Assignment chains group right to left."""
from .common import no_panic

LEVEL = {}
for lvl, ops in enumerate([["||"], ["&&"], ["==", "!=", "<", ">", "<=", ">="], ["|"], ["^"], ["&"], ["<<", ">>"], ["+", "-"], ["*", "/", "%"]]):
    for o in ops:
        LEVEL[o] = lvl
UNARY = 9
POSTFIX = 10
INT_OPS = ["*", "/", "%", "+", "-", "<<", ">>", "&", "^", "|"]
CMP = ["==", "!=", "<", ">", "<=", ">="]


def gen_int(rng, d):
    r = rng.random()
    if d <= 0 or r < 0.22:
        return ("lit", rng.choice([0, 1, 2, 3, 5, 7, 12, 64, 255, 1000]))
    if r < 0.70:
        return ("bin", rng.choice(INT_OPS), gen_int(rng, d - 1), gen_int(rng, d - 1))
    if r < 0.80:
        return ("un", rng.choice(["-", "~"]), gen_int(rng, d - 1))
    if r < 0.88:
        return ("idx", ("var", "arr"), ("bin", "&", gen_int(rng, d - 1), ("lit", 3)))
    if r < 0.95:
        return ("call", "inc", [gen_int(rng, d - 1)])
    return ("var", rng.choice(["x", "y"]))


def gen_bool(rng, d):
    r = rng.random()
    if d <= 0 or r < 0.35:
        return ("bin", rng.choice(CMP), gen_int(rng, d - 1), gen_int(rng, d - 1))
    if r < 0.75:
        return ("bin", rng.choice(["&&", "||"]), gen_bool(rng, d - 1), gen_bool(rng, d - 1))
    if r < 0.85:
        return ("un", "!", gen_bool(rng, d - 1))
    if r < 0.93:
        return ("bin", rng.choice(["==", "!="]), gen_bool(rng, d - 1), gen_bool(rng, d - 1))
    return ("var", rng.choice(["t", "f"]))


def full(e):
    k = e[0]
    if k == "lit":
        return str(e[1])
    if k == "var":
        return e[1]
    if k == "bin":
        return "(%s %s %s)" % (full(e[2]), e[1], full(e[3]))
    if k == "un":
        return "(%s%s)" % (e[1], full(e[2]))
    if k == "idx":
        return "(%s[%s])" % (full(e[1]), full(e[2]))
    if k == "call":
        return "(%s(%s))" % (e[1], ", ".join(full(a) for a in e[2]))


def prec(e):
    k = e[0]
    if k == "bin":
        return LEVEL[e[1]]
    if k == "un":
        return UNARY
    return POSTFIX + 1 if k in ("lit", "var") else POSTFIX


def minimal(e):
    """only the parentheses the documented table requires: a child is parenthesised when it binds less tightly than its
    parent, or equally tightly on the right of a (left-associative) binary operator"""
    k = e[0]
    if k == "lit":
        return str(e[1])
    if k == "var":
        return e[1]
    if k == "bin":
        p = LEVEL[e[1]]
        l, r = minimal(e[2]), minimal(e[3])
        if prec(e[2]) < p:
            l = "(%s)" % l
        if prec(e[3]) <= p:
            r = "(%s)" % r
        return "%s %s %s" % (l, e[1], r)
    if k == "un":
        s = minimal(e[2])
        if prec(e[2]) < UNARY:
            s = "(%s)" % s
        elif e[2][0] == "un" and e[1] == "-" and e[2][1] == "-":
            s = " " + s
        return "%s%s" % (e[1], s)
    if k == "idx":
        return "%s[%s]" % (minimal(e[1]), minimal(e[2]))
    if k == "call":
        return "%s(%s)" % (e[1], ", ".join(minimal(a) for a in e[2]))


PRE = "let arr = [11, 22, 33, 44]; let x = 6; let y = 9; let t = true; let f = false; fn inc(n) { return n + 1; }\n"


def gen(tier, rng):
    n = 500 if tier == "quick" else 12000
    for c in range(n):
        e = gen_bool(rng, rng.randint(2, 4)) if rng.random() < 0.4 else gen_int(rng, rng.randint(2, 4))
        a, b = minimal(e), full(e)
        if a.replace(" ", "") == b.replace(" ", ""):
            continue
        prog = PRE + "puts(%s);\n" % a
        ref = PRE + "puts(%s);\n" % b
        yield dict(id="expr/%d" % c, prog=prog, ref=ref, a=a, b=b)


def pair_cases(tier, rng):
    """each case runs both texts: the runner executes `prog`; the check re-runs the fully parenthesised text through a nested
    invocation supplied by the runner (see standin hook `also`)"""
    for case in gen(tier, rng):
        a, b = case["a"], case["b"]
        prog = PRE + 'puts("A");\nputs(%s);\n' % b + 'puts("B");\nputs(%s);\n' % a

        def check(r, a=a, b=b):
            m = no_panic(r)
            if m:
                return m
            t = r.text
            if "untime error" in r.etext:
                if "B\n" in t:
                    return "the fully parenthesised `%s` evaluates to %r but `%s` raises %s" % (b, t[2:t.find("B\n")].strip(), a, r.etext.strip()[:120])
                return None      # the fully parenthesised text itself fails at run time (e.g. division by zero): nothing to compare
            i, j = t.find("A\n"), t.find("B\n")
            if i != 0 or j < 0:
                return "unexpected output %r %r" % (t[:100], r.etext[:100])
            va, vb = t[2:j], t[j + 2:]
            if va != vb:
                return "`%s` evaluates to %r but the fully parenthesised `%s` to %r" % (a, vb.strip(), b, va.strip())
        yield dict(id=case["id"], prog=prog, check=check, batch=True, a=a, b=b)


ASSIGN = [
    ("let a = 0; let b = 0; a = b = 5; puts(a, \" \", b);", "5 5\n"),
    ("let a = 0; let b = 0; let c = 0; a = b = c = 7; puts(a + b + c);", "21\n"),
    ("let a = [0, 0]; let b = 0; a[0] = b = 3; puts(a[0], \" \", b);", "3 3\n"),
    ("let a = 1; let b = 2; a = b = a + b * 2; puts(a, \" \", b);", "5 5\n"),
    ("let a = 0; let b = 1; a = b == 1; puts(a);", "true\n"),
    ("let a = 0; a = 1 < 2 && 2 < 3; puts(a);", "true\n"),
    ("puts(2 + 3 * 4, \" \", 2 * 3 + 4, \" \", 10 - 4 - 3, \" \", 100 / 10 / 5, \" \", 2 * 3 % 4, \" \", -2 * 3, \" \", ~1 + 1, \" \", !true == false);", "14 10 3 2 2 -6 -1 true\n"),
    ("puts(1 << 2 + 1, \" \", 12 & 6 >> 1, \" \", 64 >> 1 << 2, \" \", 1 | 2 ^ 3 & 4, \" \", 1 + 2 << 3, \" \", 7 & 3 == 3, \" \", 1 < 2 == true, \" \", 5 | 2 == 7);",
     None),
]


def gen_fixed(tier, rng):
    for k, (p, w) in enumerate(ASSIGN):
        if w is None:
            # documented grouping: shifts bind tighter than &, & tighter than ^, ^ tighter than |, all tighter than comparisons
            w = "%d %d %d %d %d %s %s %s\n" % (1 << 3, 12 & (6 >> 1), (64 >> 1) << 2, 1 | (2 ^ (3 & 4)), (1 + 2) << 3, "true", "true", "true")
        yield dict(id="fixed/%d" % k, prog=p, batch=True,
                   check=(lambda r, w=w, p=p: no_panic(r) or (None if r.text == w and "rror" not in r.etext else "%s: expected %r, got %r %r" % (p, w, r.text[:100], r.etext[:120]))))


def gen_pairs(tier, rng):
    solo = []
    for c in pair_cases(tier, rng):
        yield c


GROUPS = [
    dict(name="C03/minimal-vs-full-parentheses", clause="an expression written with only the parentheses the documented precedence table and left-to-right grouping require evaluates to the same result as the fully parenthesised text",
         bound="500/12000 seeded expression trees of depth <= 4 over 18 binary operators, 3 prefix operators, indexing and calls (integer and boolean typed)", gen=gen_pairs),
    dict(name="C03/fixed-groupings", clause="assignment groups right to left; the documented levels for arithmetic, shifts, bitwise operators and comparisons", bound="8 fixed programs", gen=gen_fixed),
]
