"""C19 bounded stand-in: legacy pcap files through pcap_read_next / pcap_read_all(f[, n]) / pcap_write on the real binary,
against the file format: records come back in file order with stored timestamps, lengths and bytes, then null;
pcap_read_all(f, n) returns min(n, remaining); rewriting and re-reading reproduces the records; a file truncated or
corrupted after k complete records yields exactly those k records and then null or an error object."""
from .common import pcap_global, pcap_record, parse_pcap, no_panic


def rec_text(ts, tu, cl, wl, data):
    return "%d %d %d %d [%s]" % (ts, tu, cl, wl, ", ".join("0x%x" % x for x in data))


SHOW = 'fn show(p) { puts(p.sec, " ", p.usec, " ", p.caplen, " ", p.wirelen, " ", p.payload); }\n'


def gen_records(rng):
    k = rng.choice([0, 1, 2, 3, 5, 8])
    snaplen = rng.choice([65535, 64, 1500, 262144])
    recs = []
    for i in range(k):
        n = rng.choice([0, 1, 14, 60, min(snaplen, 64), min(snaplen, 300)])
        data = bytes(rng.getrandbits(8) for _ in range(n))
        recs.append((rng.getrandbits(32), rng.getrandbits(32) if rng.random() < 0.4 else rng.randint(0, 999999), data, n + rng.choice([0, 0, 5, 70000])))
    return snaplen, recs


def file_of(snaplen, recs, magic):
    return pcap_global(magic=magic, snaplen=snaplen) + b"".join(pcap_record(d, ts_sec=ts, ts_usec=tu, wirelen=wl) for ts, tu, d, wl in recs)


def gen_read(tier, rng):
    n = 120 if tier == "quick" else 3000
    for c in range(n):
        snaplen, recs = gen_records(rng)
        magic = rng.choice([0xA1B2C3D4, 0xA1B23C4D])
        pc = file_of(snaplen, recs, magic)
        k = len(recs)
        mode = rng.choice(["all", "next", "mixed", "alln"])
        lines = [rec_text(ts, tu, len(d), wl, d) for ts, tu, d, wl in recs]
        if mode == "all":
            prog = SHOW + 'let f = pcap_open("@TMP@/in.pcap"); let ps = pcap_read_all(f); puts(len(ps)); let i = 0; while i < len(ps) { show(ps[i]); i = i + 1; } puts(pcap_read_next(f)); puts(len(pcap_read_all(f)));'
            want = "%d\n" % k + "".join(l + "\n" for l in lines) + "null\n0\n"
        elif mode == "next":
            prog = SHOW + 'let f = pcap_open("@TMP@/in.pcap"); let n = 0; loop { let p = pcap_read_next(f); if p == null { break; } if is_error(p) { puts("error"); break; } show(p); n = n + 1; } puts(n); puts(pcap_read_next(f));'
            want = "".join(l + "\n" for l in lines) + "%d\nnull\n" % k
        elif mode == "alln":
            a = rng.randint(0, k + 2)
            b = rng.randint(0, k + 2)
            prog = SHOW + 'let f = pcap_open("@TMP@/in.pcap"); let ps = pcap_read_all(f, %d); puts(len(ps)); let i = 0; while i < len(ps) { show(ps[i]); i = i + 1; } let qs = pcap_read_all(f, %d); puts(len(qs)); let j = 0; while j < len(qs) { show(qs[j]); j = j + 1; } puts(len(pcap_read_all(f)));' % (a, b)
            n1 = min(a, k)
            n2 = min(b, k - n1)
            want = "%d\n" % n1 + "".join(l + "\n" for l in lines[:n1]) + "%d\n" % n2 + "".join(l + "\n" for l in lines[n1:n1 + n2]) + "%d\n" % (k - n1 - n2)
        else:
            a = rng.randint(0, 2)
            prog = SHOW + 'let f = pcap_open("@TMP@/in.pcap"); let i = 0; while i < %d { let p = pcap_read_next(f); if p != null { show(p); } i = i + 1; } let ps = pcap_read_all(f); puts(len(ps)); let j = 0; while j < len(ps) { show(ps[j]); j = j + 1; }' % a
            n1 = min(a, k)
            want = "".join(l + "\n" for l in lines[:n1]) + "%d\n" % (k - n1) + "".join(l + "\n" for l in lines[n1:])

        def check(r, want=want, mode=mode):
            m = no_panic(r)
            if m:
                return m
            if "rror" in r.etext:
                return "reading a well-formed file raised: %s" % r.etext.strip()[:200]
            if r.text != want:
                gl, wl_ = r.text.split("\n"), want.split("\n")
                i = next((i for i, (x, y) in enumerate(zip(gl, wl_)) if x != y), min(len(gl), len(wl_)))
                return "mode %s: output line %d is %r, the file holds %r" % (mode, i, gl[i][:120] if i < len(gl) else None, wl_[i][:120] if i < len(wl_) else None)
        yield dict(id="read/%d/%s" % (c, mode), prog=prog, files={"in.pcap": pc}, check=check)


def gen_rewrite(tier, rng):
    n = 40 if tier == "quick" else 800
    for c in range(n):
        snaplen, recs = gen_records(rng)
        pc = file_of(snaplen, recs, rng.choice([0xA1B2C3D4, 0xA1B23C4D]))
        prog = ('let f = pcap_open("@TMP@/in.pcap"); let ps = pcap_read_all(f); let o = pcap_open("@TMP@/out.pcap", "w"); let i = 0; let tot = 0; '
                'while i < len(ps) { %s tot = tot + pcap_write(o, ps[i]); i = i + 1; } puts(tot);' % rng.choice(["", "ps[i].eth;", "ps[i].caplen; ps[i].payload;", "let e = ps[i].eth; if !is_error(e) { e.src; e.payload; }"]))
        want_recs = parse_pcap(pc)[1]
        tot = sum(16 + len(d) for _, d in want_recs)

        def check(r, want_recs=want_recs, tot=tot):
            m = no_panic(r)
            if m:
                return m
            if "rror" in r.etext:
                return "rewriting raised: %s" % r.etext.strip()[:200]
            out = r.files.get("out.pcap")
            p = parse_pcap(out) if out is not None else None
            if p is None:
                return "the written file is not a well-formed pcap file (%s bytes)" % (None if out is None else len(out))
            if p[1] != want_recs:
                return "re-reading the written file gives %d records, the original has %d (or contents differ)" % (len(p[1]), len(want_recs))
            if r.text != "%d\n" % tot:
                return "pcap_write returned %r in total, the records take %d bytes" % (r.text.strip(), tot)
        yield dict(id="rewrite/%d" % c, prog=prog, files={"in.pcap": pc}, collect=["out.pcap"], check=check)


def gen_truncated(tier, rng):
    n = 100 if tier == "quick" else 2500
    for c in range(n):
        snaplen, recs = gen_records(rng)
        k = len(recs)
        pc = file_of(snaplen, recs, 0xA1B2C3D4)
        kind = rng.choice(["cut", "cut", "caplen>snaplen", "garbage"])
        extra_rec = pcap_record(bytes(rng.getrandbits(8) for _ in range(rng.choice([1, 20, 60]))), ts_sec=9, ts_usec=9)
        if kind == "cut":
            cutat = rng.choice([1, 8, 15, 16, 17, len(extra_rec) - 1])
            bad = pc + extra_rec[:min(cutat, len(extra_rec) - 1)]
        elif kind == "caplen>snaplen":
            import struct
            bad = pc + struct.pack("<IIII", 1, 2, snaplen + 1 + rng.randint(0, 5), snaplen + 10) + b"q" * 30
        else:
            bad = pc + bytes([0xFF]) * rng.choice([16, 40])
        lines = [rec_text(ts, tu, len(d), wl, d) for ts, tu, d, wl in recs]
        use_all = rng.random() < 0.5
        if use_all:
            prog = SHOW + 'let f = pcap_open("@TMP@/in.pcap"); let ps = pcap_read_all(f); if is_error(ps) { puts("error"); } else { puts(len(ps)); let i = 0; while i < len(ps) { show(ps[i]); i = i + 1; } } puts("done");'
        else:
            prog = SHOW + 'let f = pcap_open("@TMP@/in.pcap"); let n = 0; loop { let p = pcap_read_next(f); if p == null { puts("null"); break; } if is_error(p) { puts("error"); break; } show(p); n = n + 1; } puts(n); puts("done");'

        def check(r, lines=lines, k=k, use_all=use_all, kind=kind):
            m = no_panic(r)
            if m:
                return m
            if "untime error" in r.etext:
                return "a damaged tail (%s) raised a runtime error: %s" % (kind, r.etext.strip()[:200])
            out = r.text.split("\n")
            if out[-2:] != ["done", ""]:
                return "the program did not continue: %r" % r.text[-120:]
            if use_all:
                if out[0] == "error":
                    return None           # an error object for the whole read is allowed ('then null or an error object')
                if out[0] != str(k) or out[1:1 + k] != lines:
                    return "pcap_read_all on a file damaged after %d complete records (%s) returned %s records / different contents" % (k, kind, out[0])
            else:
                if out[:k] != lines or out[k] not in ("null", "error") or out[k + 1] != str(k):
                    return "pcap_read_next on a file damaged after %d complete records (%s): got %r" % (k, kind, out[max(0, k - 1):k + 2])
        yield dict(id="damaged/%d/%s" % (c, kind), prog=prog, files={"in.pcap": bad}, check=check)


GROUPS = [
    dict(name="C19/read-order", clause="pcap_read_all and repeated pcap_read_next return the records in file order with stored timestamps, lengths and bytes, then null; pcap_read_all(f, n) returns the next min(n, remaining)",
         bound="120/3000 seeded files: 0-8 records, 2 magics, 4 snaplens, caplen 0..snaplen (incl. equal), 4 reading modes on one handle", gen=gen_read),
    dict(name="C19/rewrite", clause="writing the packets with pcap_write and reading the file back reproduces the records; pcap_write returns the bytes written", bound="40/800 seeded files", gen=gen_rewrite),
    dict(name="C19/damaged-tail", clause="a file truncated or corrupted after k complete records yields exactly those k records and then null or an error object, never a crash",
         bound="100/2500 seeded files cut inside the next record header or data, with caplen > snaplen, or followed by garbage", gen=gen_truncated),
]
