"""C22 bounded stand-in: operating-system failures met by the I/O builtins on the real binary (missing file, directory,
existing file under mode x, full device, path through a non-directory, non-pcap content, closed pipe). Each must yield an
error object (is_error true), never a runtime error or a crash, and the program must continue."""
import os
from .common import no_panic, eth, ipv4, udp, pcap_file, pcap_global

PC = pcap_file([eth(ipv4(udp(b"x" * 9000))), eth(ipv4(udp(b"abcd")))])
BIG = "A" * 20000
HAVE_FULL = os.path.exists("/dev/full")


def expect_err_obj(cid, setup, expr, files=None, extra=""):
    prog = "%s\nlet r = %s;\nputs(is_error(r));\n%s\nputs(\"done\");\n" % (setup, expr, extra)

    def check(r, expr=expr):
        m = no_panic(r)
        if m:
            return m
        if "untime error" in r.etext:
            return "%s met an OS failure and raised a runtime error instead of returning an error object: %s" % (expr, r.etext.strip()[:200])
        lines = r.text.strip().split("\n")
        if not lines or lines[0] != "true":
            return "%s met an OS failure but is_error(result) is %r (stderr %r)" % (expr, lines[:1], r.etext[:200])
        if lines[-1] != "done":
            return "the program did not continue after %s: stdout=%r" % (expr, r.text[-200:])
    fl = {"afile": b"hello\n", "dir": None, "bad.pcap": b"this is not a pcap file at all, it is plain text...", "empty.pcap": b"", "in.pcap": PC,
          "short.pcap": pcap_global()[:10], "badutf8": b"\xff\xfe\xfd", "big.txt": BIG.encode()}
    fl.update(files or {})
    return dict(id=cid, prog=prog, files=fl, check=check)


def gen(tier, rng):
    T = "@TMP@"
    C = expect_err_obj
    # open
    yield C("open/missing", "", 'open("%s/nosuch")' % T)
    yield C("open/missing-r", "", 'open("%s/nosuch", "r")' % T)
    yield C("open/missing-dir-w", "", 'open("%s/nosuchdir/f", "w")' % T)
    yield C("open/missing-dir-a", "", 'open("%s/nosuchdir/f", "a")' % T)
    yield C("open/missing-dir-x", "", 'open("%s/nosuchdir/f", "x")' % T)
    yield C("open/dir-w", "", 'open("%s/dir", "w")' % T)
    yield C("open/dir-a", "", 'open("%s/dir", "a")' % T)
    yield C("open/exists-x", "", 'open("%s/afile", "x")' % T)
    yield C("open/through-file", "", 'open("%s/afile/x")' % T)
    yield C("open/through-file-w", "", 'open("%s/afile/x", "w")' % T)
    yield C("open/empty-path", "", 'open("")')
    # reads on a directory handle (opening a directory read-only succeeds; reading it fails with EISDIR)
    for fn in ("read(f)", "read(f, 10)", "read_line(f)", "read_to_string(f)"):
        yield C("dir/%s" % fn, 'let f = open("%s/dir");' % T, fn)
    yield C("read_to_string/bad-utf8", 'let f = open("%s/badutf8");' % T, "read_to_string(f)")
    yield C("read_line/bad-utf8", 'let f = open("%s/badutf8");' % T, "read_line(f)")
    # full device
    if HAVE_FULL:
        yield C("full/flush", 'let f = open("/dev/full", "w"); write(f, "abc");', "flush(f)")
        yield C("full/write-big-str", 'let b = read_to_string(open("%s/big.txt")); let f = open("/dev/full", "w");' % T, "write(f, b)")
        yield C("full/write-big-bytes", 'let b = read(open("%s/big.txt")); let f = open("/dev/full", "w");' % T, "write(f, b)")
        yield C("full/write-many", 'let f = open("/dev/full", "a"); let i = 0; let r0 = null; while i < 3000 { r0 = write(f, "0123456789"); i = i + 1; }', "r0")
        yield C("full/write-packet", 'let ps = pcap_read_all(pcap_open("%s/in.pcap")); let f = open("/dev/full", "w");' % T, "write(f, ps[0])")
        yield C("full/pcap_write", 'let ps = pcap_read_all(pcap_open("%s/in.pcap")); let o = pcap_open("/dev/full", "w"); let r1 = pcap_write(o, ps[0]);' % T, "pcap_write(o, ps[0])")
        yield C("full/pcap_open-w-header", "", 'if true { let o = pcap_open("/dev/full", "w"); let ps = pcap_read_all(pcap_open("%s/in.pcap")); pcap_write(o, ps[0]); pcap_write(o, ps[0]) }' % T)
    # pcap
    yield C("pcap_open/missing", "", 'pcap_open("%s/nosuch.pcap")' % T)
    yield C("pcap_open/dir", "", 'pcap_open("%s/dir")' % T)
    yield C("pcap_open/non-pcap", "", 'pcap_open("%s/bad.pcap")' % T)
    yield C("pcap_open/empty", "", 'pcap_open("%s/empty.pcap")' % T)
    yield C("pcap_open/short-header", "", 'pcap_open("%s/short.pcap")' % T)
    yield C("pcap_open/exists-x", "", 'pcap_open("%s/in.pcap", "x")' % T)
    yield C("pcap_open/missing-dir-w", "", 'pcap_open("%s/nosuchdir/o.pcap", "w")' % T)
    yield C("pcap_open/through-file", "", 'pcap_open("%s/afile/x.pcap")' % T)
    yield dict(id="pcap_stream/non-pcap-stdin", prog='let r = pcap_stream(stdin); puts(is_error(r)); puts("done");', stdin=b"plain text, not a pcap stream\n",
               check=(lambda r: no_panic(r) or (None if r.text == "true\ndone\n" and "untime error" not in r.etext else "pcap_stream(stdin) on non-pcap content: stdout=%r stderr=%r" % (r.text[:100], r.etext[:200]))))
    yield dict(id="pcap_stream/empty-stdin", prog='let r = pcap_stream(stdin); puts(is_error(r)); puts("done");', stdin=b"",
               check=(lambda r: no_panic(r) or (None if r.text == "true\ndone\n" and "untime error" not in r.etext else "pcap_stream(stdin) on empty input: stdout=%r stderr=%r" % (r.text[:100], r.etext[:200]))))
    # a record whose caplen exceeds snaplen / garbage after the header: an error object (or null at a clean end), never a crash
    garbage = pcap_global(snaplen=100) + b"\x01\x00\x00\x00\x02\x00\x00\x00\xff\xff\x00\x00\xff\xff\x00\x00" + b"z" * 40
    for fn in ("pcap_read_next(f)", "pcap_read_all(f)"):
        def check(r, fn=fn):
            m = no_panic(r)
            if m:
                return m
            if "untime error" in r.etext:
                return "%s on a corrupted record raised a runtime error: %s" % (fn, r.etext.strip()[:200])
            if not r.text.endswith("done\n"):
                return "the program did not continue after %s: %r" % (fn, r.text[-100:])
        yield dict(id="corrupt/%s" % fn, prog='let f = pcap_open("@TMP@/g.pcap"); let r = %s; puts(is_error(r)); puts("done");' % fn, files={"g.pcap": garbage}, check=check)
    # closed pipe on stdout: writes fail with EPIPE; must not panic
    # (stdout is closed by giving the process a pipe whose reader is gone: emulated with /dev/full for stdout-like handles above)


GROUPS = [
    dict(name="C22/os-failures", clause="open, read, read_line, read_to_string, write, flush, pcap_open, pcap_stream, pcap_read_next, pcap_read_all, pcap_write return an error object on an operating-system failure and the program continues",
         bound="about 40 fixed failure scenarios (missing file, directory, mode x on an existing file, path through a file, /dev/full with buffered and unbuffered amounts, non-pcap / empty / truncated pcap content, corrupted record)", gen=gen),
]
