"""C21 bounded stand-in: sequences of read(f), read(f, n), read_line(f), read_to_string(f) on one handle (files larger and
smaller than the reader's buffer) and stdin fed through a pipe in arbitrary chunks with pauses; the data returned must
concatenate to a prefix of the content, stopping short only at end of input, with read(f) / read_to_string(f) consuming the
rest. Files written through modes w, a, x hold exactly the bytes written, and the modes follow the documented rules."""
from .common import no_panic


def content(rng, n, text):
    if text:
        words = ["alpha", "be ta", "", "gamma,delta", "x", "0123456789" * 3]
        s = ""
        while len(s) < n:
            s += rng.choice(words) + "\n"
        return s[:n].encode()
    return bytes(rng.getrandbits(8) for _ in range(n))


def parse_bytes(line):
    line = line.strip()
    if line == "[]":
        return b""
    return bytes(int(x, 16) for x in line[1:-1].split(", "))


def gen_reads(tier, rng):
    n = 120 if tier == "quick" else 2500
    for c in range(n):
        size = rng.choice([0, 1, 10, 100, 5000, 8191, 8192, 8193, 16384, 20000, 30011])
        via = rng.choice(["file", "file", "stdin", "stdin-chunks"])
        text = rng.random() < 0.5
        data = content(rng, size, text)
        ops = []
        for _ in range(rng.randint(1, 5)):
            if text and rng.random() < 0.4:
                ops.append(("line", None))
            else:
                ops.append(("n", rng.choice([0, 1, 7, 100, 4096, 8192, 9000, 50000])))
        # read_to_string is documented for file handles only
        ops.append(rng.choice([("all", None), ("str", None) if (text and via == "file") else ("all", None)]))
        h = "f" if via == "file" else "stdin"
        st = ['let f = open("@TMP@/data.bin");'] if via == "file" else []
        for k, a in ops:
            if k == "n":
                st.append('puts("B ", read(%s, %d));' % (h, a))
            elif k == "all":
                st.append('puts("B ", read(%s));' % h)
            elif k == "line":
                st.append('puts("B ", encode_utf8(read_line(%s)));' % h)
            else:
                st.append('puts("B ", encode_utf8(read_to_string(%s)));' % h)
        st.append('puts("B ", read(%s));' % h)      # nothing may be left
        prog = "\n".join(st) + "\n"
        kw = {}
        if via == "file":
            kw["files"] = {"data.bin": data}
        elif via == "stdin":
            kw["stdin"] = data
        else:
            chunks, i = [], 0
            while i < len(data):
                j = min(len(data), i + rng.choice([1, 3, 100, 4096, 8192, 10000]))
                chunks.append(data[i:j])
                i = j
            kw["stdin_chunks"] = chunks[:40] + ([b"".join(chunks[40:])] if len(chunks) > 40 else [])

        def check(r, data=data, ops=ops, via=via):
            m = no_panic(r)
            if m:
                return m
            if "rror" in r.etext:
                return "reading raised: %s" % r.etext.strip()[:200]
            got = [parse_bytes(l[2:]) for l in r.text.split("\n") if l.startswith("B ")]
            if len(got) != len(ops) + 1:
                return "expected %d results, got %d" % (len(ops) + 1, len(got))
            pos = 0
            for (k, a), g in zip(ops, got):
                rest = data[pos:]
                if k == "n":
                    want = rest[:a]
                elif k == "line":
                    i = rest.find(b"\n")
                    want = rest if i < 0 else rest[:i + 1]
                else:
                    want = rest
                if g != want:
                    return "%s via %s at offset %d of %d bytes: returned %d bytes, the content gives %d bytes%s" % (
                        {"n": "read(f, %s)" % a, "line": "read_line(f)", "all": "read(f)", "str": "read_to_string(f)"}[k], via, pos, len(data), len(g), len(want),
                        "" if len(g) != len(want) else " (different bytes)")
                pos += len(want)
            if got[-1] != b"":
                return "after read(f)/read_to_string(f) a further read returned %d bytes: the rest had not been consumed" % len(got[-1])
        yield dict(id="reads/%d/%s/%d" % (c, via, size), prog=prog, check=check, timeout=20, **kw)


def gen_modes(tier, rng):
    T = "@TMP@"
    cases = [
        # (id, existing content or None, program, expected file content or None (absent), expect error object on open)
        ("w/new", None, 'let f = open("%s/t", "w"); write(f, "abc"); write(f, [b\'d\', b\'e\']); flush(f);' % T, b"abcde", False),
        ("w/new-noflush", None, 'let f = open("%s/t", "w"); write(f, "abc"); write(f, "def");' % T, b"abcdef", False),
        ("w/truncate", b"OLDOLDOLD", 'let f = open("%s/t", "w"); write(f, "new");' % T, b"new", False),
        ("w/truncate-empty", b"OLD", 'let f = open("%s/t", "w");' % T, b"", False),
        ("a/new", None, 'let f = open("%s/t", "a"); write(f, "abc");' % T, b"abc", False),
        ("a/append", b"OLD", 'let f = open("%s/t", "a"); write(f, "abc"); flush(f); write(f, "d");' % T, b"OLDabcd", False),
        ("x/new", None, 'let f = open("%s/t", "x"); write(f, "abc");' % T, b"abc", False),
        ("x/exists", b"OLD", 'let f = open("%s/t", "x"); puts(is_error(f));' % T, b"OLD", True),
        ("r/missing", None, 'let f = open("%s/t", "r"); puts(is_error(f));' % T, None, True),
        ("r/default-missing", None, 'let f = open("%s/t"); puts(is_error(f));' % T, None, True),
        ("r/exists", b"OLD", 'let f = open("%s/t", "r"); puts(is_error(f)); puts(read(f));' % T, b"OLD", False),
        ("w/big", None, 'let f = open("%s/t", "w"); let i = 0; while i < 3000 { write(f, "0123456789"); i = i + 1; }' % T, b"0123456789" * 3000, False),
        ("w/two-handles-order", None, 'let f = open("%s/t", "w"); write(f, "abc"); flush(f); let g = open("%s/t", "a"); write(g, "de"); flush(g);' % (T, T), b"abcde", False),
    ]
    for cid, existing, prog, want, err in cases:
        files = {"t": existing} if existing is not None else {}

        def check(r, want=want, err=err, cid=cid):
            m = no_panic(r)
            if m:
                return m
            if "untime error" in r.etext:
                return "mode case %s raised: %s" % (cid, r.etext.strip()[:200])
            if err and not r.text.startswith("true"):
                return "mode case %s: open must fail with an error object; stdout=%r" % (cid, r.text[:80])
            if not err and r.text.startswith("true"):
                return "mode case %s: open failed although the documented rule allows it" % cid
            if r.files.get("t") != want:
                return "mode case %s: the file holds %r, expected %r" % (cid, (r.files.get("t") or b"")[:40] if r.files.get("t") is not None else None, None if want is None else want[:40])
        yield dict(id="mode/%s" % cid, prog=prog, files=files, collect=["t"], check=check)


GROUPS = [
    dict(name="C21/read-sequences", clause="the data returned by any sequence of read(f), read(f, n), read_line(f), read_to_string(f) on one handle, and by stdin fed through a pipe in arbitrary chunks, concatenates to a prefix of the content and stops short only at end of input; read(f) and read_to_string(f) consume everything that remains",
         bound="120/2500 seeded scenarios: sizes 0..30011 around the 8192-byte buffer, 1-5 reads + a consuming read, via a file, piped stdin, or stdin in 1..10000-byte chunks with pauses", gen=gen_reads),
    dict(name="C21/open-modes", clause="files written through w, a, x contain exactly the bytes written once flushed or at program end; r must exist, w creates or truncates, a creates or appends, x creates and fails if the file exists",
         bound="13 fixed scenarios", gen=gen_modes),
]
