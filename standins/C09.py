"""C09 bounded stand-in: operators on the real binary against a reference model of the property's numeric and typing
rules (two's complement modulo 2^64 / 2^8, shift amounts modulo 64, IEEE doubles as soon as a float is involved, division
and modulo by zero are runtime errors, exact integer comparison, lexicographic strings/chars, + on strings/chars/arrays,
string*integer; every other operator x kind combination is a runtime error). Combinations the property text leaves open
(e.g. byte/integer comparisons) are only checked for 'no panic'."""
import math
import struct
from .common import intlit, no_panic, wrap64, I64_MIN, I64_MAX

INTS = [0, 1, -1, 2, 3, 7, -7, 63, 64, 65, 127, 128, 255, 256, -64, 2**31, 2**32, 2**53, 2**53 + 1, 2**62, I64_MAX, I64_MAX - 1, I64_MIN, I64_MIN + 1, 10**18, -10**18, 1000003]
FLOATS = [0.0, -0.0, 1.0, -1.0, 0.5, 2.5, 1e300, -1e300, 5e-324, 1e-7, 9007199254740992.0, 9007199254740993.0, 1.5e19, float("inf"), float("-inf"), float("nan"), 3.0, 255.0]
BYTES = [0, 1, 2, 7, 127, 128, 200, 254, 255]


def flit(x):
    if x != x:
        return 'float("nan")'
    if x == float("inf"):
        return 'float("inf")'
    if x == float("-inf"):
        return '(-float("inf"))'
    s = repr(abs(x))
    if "e" in s or "E" in s:
        from decimal import Decimal
        s = format(Decimal(s), "f")
        if "." not in s:
            s += ".0"
    neg = math.copysign(1.0, x) < 0
    return "(-%s)" % s if neg else s


def blit(b):
    return "byte(%d)" % b


def lit(v):
    k, x = v
    return {"I": intlit, "F": flit, "B": blit}[k](x) if k in "IFB" else x


def tdiv(a, b):
    q = abs(a) // abs(b)
    return q if (a < 0) == (b < 0) else -q


def tmod(a, b):
    return a - b * tdiv(a, b)


def fdiv(a, b):
    return a / b


def as_f(v):
    return float(v[1])


class Err(Exception):
    pass


def model(op, a, b):
    """-> ('I', n) | ('B', n) | ('F', x) | ('bool', b) | None when the property leaves the combination open; raises Err
    for a runtime error"""
    ka, kb = a[0], b[0]
    x, y = a[1], b[1]
    num = set("IBF")
    if op in "+-*/%":
        if ka in num and kb in num:
            if op in "/%" and y == 0:
                raise Err()
            if ka == "F" or kb == "F":
                fx, fy = float(x), float(y)
                if op == "+": return ("F", fx + fy)
                if op == "-": return ("F", fx - fy)
                if op == "*":
                    return ("F", fx * fy)
                if op == "/": return ("F", fx / fy)
                return ("F", math.fmod(fx, fy)) if not (math.isinf(fx) or math.isnan(fx) or math.isnan(fy)) else ("F", float("nan"))
            if ka == "B" and kb == "B":
                r = {"+": x + y, "-": x - y, "*": x * y, "/": x // y if y else 0, "%": x % y if y else 0}[op]
                return ("B", r & 0xFF)
            r = {"+": x + y, "-": x - y, "*": x * y, "/": tdiv(x, y) if y else 0, "%": tmod(x, y) if y else 0}[op]
            return ("I", wrap64(r))
        return None
    if op in ("<<", ">>"):
        if ka == "I" and kb == "I":
            s = y % 64
            return ("I", wrap64(x << s)) if op == "<<" else ("I", x >> s)
        if "F" in (ka, kb):
            raise Err()
        return None
    if op in "&|^":
        if ka == "I" and kb == "I":
            return ("I", wrap64({"&": x & y, "|": x | y, "^": x ^ y}[op]))
        if "F" in (ka, kb):
            raise Err()
        return None
    if op in ("<", ">", "<=", ">="):
        import operator
        f = {"<": operator.lt, ">": operator.gt, "<=": operator.le, ">=": operator.ge}[op]
        if ka == "I" and kb == "I":
            return ("bool", f(x, y))
        if ka in "IF" and kb in "IF":
            return ("bool", f(float(x), float(y)))
        return None
    if op in ("==", "!="):
        if ka == "I" and kb == "I":
            eq = x == y
        elif ka in "IF" and kb in "IF":
            eq = float(x) == float(y)
        else:
            return None
        return ("bool", eq if op == "==" else not eq)
    return None


def model_open(op, a, b):
    try:
        return model(op, a, b) is None
    except Err:
        return False


def show(res):
    k, v = res
    if k == "I":
        return str(v)
    if k == "B":
        return "0x%x" % v
    if k == "bool":
        return "true" if v else "false"
    return None


def fmatch(text, x):
    try:
        g = float(text.replace("NaN", "nan"))
    except ValueError:
        return False
    if x != x:
        return g != g
    return g == x and (x != 0 or math.copysign(1, g) == math.copysign(1, x))


OPS = ["+", "-", "*", "/", "%", "<<", ">>", "&", "|", "^", "<", ">", "<=", ">=", "==", "!="]


def case_for(cid, op, a, b):
    prog = "let a = %s; let b = %s; puts(a %s b);" % (lit(a), lit(b), op)
    try:
        res = model(op, a, b)
        err = False
    except Err:
        res, err = None, True

    def check(r, res=res, err=err, prog=prog):
        m = no_panic(r)
        if m:
            return m
        if err:
            if "untime error" not in r.etext:
                return "%s must be a runtime error; got stdout=%r stderr=%r" % (prog, r.text[:100], r.etext[:100])
            return None
        if res is None:
            return None
        if "rror" in r.etext:
            return "%s: the model gives %r, the interpreter raised %s" % (prog, res, r.etext.strip()[:160])
        got = r.text.strip()
        if res[0] == "F":
            if not fmatch(got, res[1]):
                return "%s: IEEE result %r, got %r" % (prog, res[1], got)
        elif got != show(res):
            return "%s: expected %s, got %r" % (prog, show(res), got)
    return dict(id=cid, prog=prog, check=check, batch=(not err and res is not None))


def gen_numeric(tier, rng):
    pool = [("I", x) for x in INTS] + [("F", x) for x in FLOATS] + [("B", x) for x in BYTES]
    k = 0
    full = tier != "quick"
    crit = set([("I", x) for x in (0, 1, -1, I64_MIN, I64_MAX, 64)] + [("F", x) for x in FLOATS if (x == 0.0 and math.copysign(1, x) > 0) or x == float("inf")] + [("B", 0), ("B", 255)])
    for op in OPS:
        for a in pool:
            for b in pool:
                k += 1
                both_crit = (a in crit or a[1] != a[1]) and (b in crit or b[1] != b[1])
                if not full and not both_crit and rng.random() > 0.03:
                    continue
                if not full and both_crit and model_open(op, a, b) and rng.random() > 0.2:
                    continue
                yield case_for("num/%s/%s/%s" % (op, a, b), op, a, b)
    for _ in range(200 if tier == "quick" else 5000):
        op = rng.choice(OPS)
        a = ("I", rng.choice([rng.getrandbits(63), -rng.getrandbits(63), rng.getrandbits(8), -rng.getrandbits(6)]))
        b = ("I", rng.choice([rng.getrandbits(63), -rng.getrandbits(63), rng.getrandbits(8), -rng.getrandbits(6), rng.randint(-130, 130)]))
        yield case_for("rnd/%s/%s/%s" % (op, a[1], b[1]), op, a, b)


def gen_unary(tier, rng):
    for x in INTS:
        want = str(wrap64(-x))
        yield dict(id="neg/%d" % x, prog="let a = %s; puts(-a);" % intlit(x), batch=True,
                   check=(lambda r, want=want, x=x: no_panic(r) or (None if r.text.strip() == want else "-(%d): expected %s, got %r %r" % (x, want, r.text[:50], r.etext[:100]))))
        wn = str(wrap64(~x))
        yield dict(id="not/%d" % x, prog="let a = %s; puts(~a);" % intlit(x), batch=True,
                   check=(lambda r, wn=wn, x=x: no_panic(r) or (None if r.text.strip() == wn else "~(%d): expected %s, got %r %r" % (x, wn, r.text[:50], r.etext[:100]))))
    for x in FLOATS:
        yield dict(id="fneg/%r" % x, prog="let a = %s; puts(-a);" % flit(x), batch=True,
                   check=(lambda r, x=x: no_panic(r) or (None if fmatch(r.text.strip(), -x) else "-(%r): IEEE negation is %r, got %r %r" % (x, -x, r.text[:50], r.etext[:100]))))


STR_CASES = [
    ('"ab" + "cd"', "abcd"), ('"" + ""', ""), ("'a' + 'b'", "ab"), ("[1, 2] + [3]", "[1, 2, 3]"), ("[] + []", "[]"), ('"ab" * 3', "ababab"), ('"ab" * 0', ""), ('"" * 5', ""),
    ('"a" < "b"', "true"), ('"b" < "a"', "false"), ('"a" < "ab"', "true"), ('"abc" >= "abd"', "false"), ('"Z" < "a"', "true"), ("'a' < 'b'", "true"), ("'b' <= 'a'", "false"), ("'a' >= 'a'", "true"),
    ('"a" == "a"', "true"), ('"a" != "b"', "true"), ("1 == 1.0", "true"), ("0.0 == -0.0", "true"), ("1 < 2.0", "true"), ("2.0 <= 2", "true"), ("9007199254740993 == 9007199254740992", "false"),
    ("9223372036854775807 > 9223372036854775806", "true"), ("3 > 2.5", "true"), ("2.5 > 3", "false"),
]
ERR_CASES = ["[1] - [2]", "[1] < [2]", "[1] * [2]", "[1] / [2]", "true < false", "true > false", "true <= true", '"ab" * (-1)', '"a" - "b"', '"a" / 2', "null + 1", "1 + null", "true + 1", '"a" + 1', "1 + \"a\"",
             "'a' - 'b'", "'a' * 2", "1.5 << 1", "1 << 1.5", "1.5 & 1", "1 | 2.5", "1.5 ^ 1.5", '"a" & "b"', "map {} + map {}", "[1] + 1", '-"s"', "-true", "-null", "-[1]", "~1.5", '~"s"', "~true",
             "1 / 0", "1 % 0", "1.5 / 0", "1 / 0.0", "1.5 % 0.0", "byte(1) / byte(0)", "byte(1) % byte(0)", "1 / byte(0)", "1 / (-0.0)", "null < 1", '"a" < 1', "1 < \"a\"", "'a' < \"a\""]


def gen_kinds(tier, rng):
    for e, want in STR_CASES:
        yield dict(id="ok/%s" % e, prog="puts(%s);" % e, batch=True,
                   check=(lambda r, want=want, e=e: no_panic(r) or (None if r.text == want + "\n" and "rror" not in r.etext else "%s: expected %r, got %r %r" % (e, want, r.text[:80], r.etext[:120]))))
    for e in ERR_CASES:
        yield dict(id="err/%s" % e, prog="puts(1); let q = %s; puts(2);" % e,
                   check=(lambda r, e=e: no_panic(r) or (None if "untime error" in r.etext and r.text == "1\n" else "%s must be a runtime error; got stdout=%r stderr=%r" % (e, r.text[:80], r.etext[:120]))))


GROUPS = [
    dict(name="C09/numeric-binary", clause="integer/byte/float binary operators equal the two's-complement / modulo-2^8 / IEEE model; division or modulo by zero is a runtime error; integer and float comparisons exact / IEEE, consistent with ==",
         bound="16 operators x 54x54 boundary operands (27 integers, 18 doubles incl. +-0, inf, NaN, 2^53+1, 9 bytes): quick: every pair of 11 critical operands (0, +-1, i64::MIN/MAX, 64, 0.0, inf, NaN, bytes 0/255) plus a 3% sample of the rest; thorough: all; plus 200/5000 random integer pairs", gen=gen_numeric),
    dict(name="C09/unary", clause="unary - and ~ on integers wrap modulo 2^64; unary - on floats is IEEE sign negation", bound="27 integers, 18 doubles", gen=gen_unary),
    dict(name="C09/kinds", clause="+ concatenates strings/chars/arrays, string*integer repeats, strings and chars compare lexicographically; every other operator x kind combination and negative repetition counts are runtime errors",
         bound="%d fixed well-typed and %d fixed ill-typed expressions" % (len(STR_CASES), len(ERR_CASES)), gen=gen_kinds),
]
