"""C23 bounded stand-in: REPL sessions driven through a pseudo-terminal (standins/repl_drive.py). A session is a random
sequence of accepted lines, lines rejected by the parser, lines rejected by the compiler and lines failing at run time; a
model of the bindings says what every name must read afterwards: rejected lines have no effect at all (not even their
well-formed leading statements), a run-time failure keeps what ran before it."""
import re
from .common import no_panic

NAMES = ["x", "y", "z"]


def gen(tier, rng):
    n = 36 if tier == "quick" else 600
    for c in range(n):
        env = {}
        lines = []
        k = 0
        for _ in range(rng.randint(3, 8)):
            k += 1
            kind = rng.choice(["accept", "accept", "parse", "compile", "runtime", "accept-fn"])
            name = rng.choice(NAMES)
            v = 100 * (c % 7) + k
            other = rng.choice(NAMES)
            if kind == "accept":
                if name in env and rng.random() < 0.5:
                    lines.append("%s = %d" % (name, v))
                else:
                    lines.append("let %s = %d" % (name, v))
                env[name] = v
            elif kind == "accept-fn":
                lines.append("fn f%d() { return %d; } let %s = f%d()" % (k, v, name, k))
                env[name] = v
            elif kind == "parse":
                lines.append(rng.choice(["let %s = %d; let %s = ;" % (name, v, other), "let %s = %d; )" % (name, v), "%s = %d; let = 5" % (name, v) if name in env else "let %s = %d; let = 5" % (name, v),
                                         "let %s = %d; 0x" % (name, v), "let %s = %d; \"unterminated" % (name, v)]))
            elif kind == "compile":
                lines.append(rng.choice(["let %s = %d; nosuch%d" % (name, v, k), "let %s = %d; break" % (name, v), "let %s = %d; return 1" % (name, v),
                                         "let %s = %d; let w%d = undefined_name_%d" % (name, v, k, k)]))
            else:
                if rng.random() < 0.5:
                    lines.append("let %s = %d; 1 / 0" % (name, v))
                else:
                    lines.append("let %s = %d; len(1)" % (name, v))
                env[name] = v
        probes = ['puts("<<%s=", %s, ">>")' % (nm, nm) for nm in NAMES]
        want = dict(env)

        def check(r, want=want, lines=lines):
            if r.timed_out:
                return None
            t = r.text
            if "panicked" in t:
                return "the REPL panicked: %s" % t[-300:]
            # transcript after the last session line: one probe per name
            for nm in NAMES:
                m = re.findall(r"^<<%s=([^>]*)>>$" % nm, t, flags=re.M)
                probe_seen = ('puts("<<%s="' % nm) in t
                if not probe_seen:
                    return None          # the terminal driver lost a line: nothing to judge
                if nm in want:
                    if not m or m[-1] != str(want[nm]):
                        return "after the session %r the name %s reads %r, the accepted lines leave it at %d" % (lines, nm, m[-1] if m else "undefined", want[nm])
                else:
                    if m:
                        return "after the session %r the name %s is bound (%r) although only rejected lines mentioned it" % (lines, nm, m[-1])
        yield dict(id="session/%d" % c, repl=lines + probes, check=check, timeout=90)


GROUPS = [
    dict(name="C23/rejected-lines-have-no-effect", clause="a line rejected by the parser or the compiler leaves every earlier binding and its value unchanged (and binds nothing); accepted lines and the part of a line that ran before a runtime error accumulate like one program",
         bound="36/600 seeded REPL sessions of 3-8 lines (accepted, parser-rejected, compiler-rejected, failing at run time) over 3 names, driven through a pseudo-terminal", gen=gen),
]
