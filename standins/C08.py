"""C08 bounded stand-in: 'execution never crashes'. Every builtin with every arity 0..3 over a pool of boundary arguments of
every kind, every operator over every pair of kinds, and the resource shapes the property names (unbounded recursion, many
locals, deep nesting, huge counts, wrong arities, filter actions). The only demand: the process ends with a result, a
reported runtime/compile error or the exit status asked for - never a panic, abort or hang.
Requests for more memory than the machine has (a string repeated i64::MAX times, a format width of 2^64-1) are excluded by the
property and not generated; sleep is only given durations that end at once whatever kinds it accepts."""
from .common import no_panic, eth, ipv4, udp, pcap_file

BUILTINS = ("len puts first last rest push pop get contains insert str int float char byte time flush format print println eprint eprintln round sleep tolower toupper "
            "open read write read_to_string decode_utf8 encode_utf8 read_line input get_errno strerror is_error sort chars join rand pcap_open pcap_stream "
            "pcap_read_next pcap_read_all pcap_write").split()

# boundary arguments of every kind (sleep only ever gets durations that end at once)
POOL = ["0", "1", "(-1)", "255", "256", "65536", "9223372036854775807", "(-9223372036854775807 - 1)", "0.0", "(-0.5)", "2.5", "1e300", "(-1e300)", "1e19", 'float("inf")', '(-float("inf"))', 'float("nan")',
        '""', '"a"', '"héllo"', '"r"', '"w"', '"/nonexistent/x"', '"@TMP@"', "'a'", "b'a'", "true", "false", "null", "[]", "[1, 2]", "[b'a', b'b']", "['a', 'b']", "[[1], [2]]", "map {}", 'map {"a": 1}',
        "len", "fn(x) { x }", "stdin", "stdout", "stderr", 'open("/nonexistent/x")', 'open("@TMP@/f.txt", "w")', 'pcap_open("@TMP@/in.pcap")', '[1, "a", 2.5]', '[3, 1.5, 2]']
SLEEP_OK = [a for a in POOL if a not in ("1", "255", "256", "65536", "9223372036854775807", "1e300", "1e19", 'float("inf")')]
PC = pcap_file([eth(ipv4(udp(b"abcd")))])


def mk(cid, prog, timeout=10, **kw):
    def check(r):
        return no_panic(r)
    d = dict(id=cid, prog=prog, check=check, files={"in.pcap": PC}, timeout=timeout)
    d.update(kw)
    return d


def gen_builtins(tier, rng):
    quick = tier == "quick"
    for b in BUILTINS:
        pool = SLEEP_OK if b == "sleep" else POOL
        yield mk("b/%s/0" % b, "%s();" % b)
        for a in (rng.sample(pool, 22) if quick else pool):
            yield mk("b/%s/1/%s" % (b, a), "%s(%s);" % (b, a))
        pairs = [(a, c) for a in pool for c in pool]
        rng.shuffle(pairs)
        for a, c in pairs[:(6 if quick else 400)]:
            yield mk("b/%s/2/%s,%s" % (b, a, c), "%s(%s, %s);" % (b, a, c))
        for _ in range(3 if quick else 60):
            a, c, d = rng.choice(pool), rng.choice(pool), rng.choice(pool)
            yield mk("b/%s/3/%s,%s,%s" % (b, a, c, d), "%s(%s, %s, %s);" % (b, a, c, d))
    # targeted boundaries the property names: negative counts and precisions, huge values
    for e in ['round(1.5, 100)', 'round(1.5, -1)', 'round(1e308, 18)', 'round(float("nan"), 2)', 'rand(-1)', 'rand(0)', 'rand(-0.5)', 'rand(float("inf"))',
              'char(1114111)', 'char(55296)', 'byte(1e30)', 'int(float("nan"))', 'int(float("inf"))', 'get([1], -1)', 'get([1], 9223372036854775807)', '[1][9223372036854775807]', '[1][-1]',
              'let a = [1]; a[5] = 1', 'sleep(-1)', 'sleep(-0.5)', 'sleep(float("nan"))', 'strerror(-1)', 'strerror(9223372036854775807)', 'exit(256)', 'exit(-1)', 'exit("a")',
              'format("{:99999999999999999999}", 1)', 'format("{99999999999999999999}", 1)', 'join([1])', 'sort([1, "a"])', 'sort([[1], [2]])', 'sort([float("nan"), 1.0, 0.5])',
              'sort([map {}, map {}])', 'read(stdin, -1)', 'read(stdin, 9223372036854775807)', 'pcap_read_all(pcap_open("@TMP@/in.pcap"), -1)', 'pcap_stream()', 'pcap_stream(1)', 'decode_utf8([byte(255)])']:
        yield mk("edge/%s" % e, "let q = %s;" % e, timeout=10)
    # sort on arrays long enough for the library sort to notice an inconsistent comparison (it panics from about 20 elements on):
    # NaN among floats, integers above 2^53 next to floats, values of different kinds, equal values
    pools = [['float("nan")', "1.0", "0.5", "2.5", "-1.0", "7.0"], ["9007199254740993", "9007199254740992.0", "9007199254740992", "9007199254740994.0", "1", "2.0"],
             ["1", '"a"', "2.5", "'c'", "true", "null", "[1]"], ["1", "1.0", "1", "2", "2.0", 'float("nan")'], ['"b"', '"a"', '""', '"ab"', "1"]]
    for k in range(6 if quick else 120):
        pool = pools[k % len(pools)]
        n = rng.choice([20, 22, 33, 64] if quick else [20, 21, 22, 31, 33, 50, 64, 200])
        arr = "[" + ", ".join(rng.choice(pool) for _ in range(n)) + "]"
        yield mk("sort-long/%d" % k, "let a = %s; let q = sort(a); let w = len(a);" % arr, timeout=10)


KINDS = ["1", "(-9223372036854775807 - 1)", "2.5", "0.0", 'float("nan")', "byte(200)", "byte(0)", '"s"', '""', "'c'", "true", "null", "[1]", "[]", "map {1: 2}", "len", "fn() { 1 }", "stdin", "64", "(-1)"]
BIN = ["+", "-", "*", "/", "%", "<<", ">>", "&", "|", "^", "<", ">", "<=", ">=", "==", "!=", "&&", "||"]


def gen_operators(tier, rng):
    quick = tier == "quick"
    for op in BIN:
        for a in KINDS:
            for b in KINDS:
                if quick and rng.random() > 0.1:
                    continue
                yield mk("op/%s/%s/%s" % (op, a, b), "let a = %s; let b = %s; let q = a %s b;" % (a, b, op))
    for u in ["-", "!", "~"]:
        for a in KINDS:
            yield mk("un/%s/%s" % (u, a), "let a = %s; let q = %sa;" % (a, u))
    for a in KINDS:
        for i in ["0", "(-1)", "9223372036854775807", '"k"', "1.5", "null", "[1]"]:
            yield mk("idx/%s/%s" % (a, i), "let a = %s; let q = a[%s];" % (a, i))
        yield mk("call/%s" % a, "let a = %s; let q = a(1, 2);" % a)
        yield mk("prop/%s" % a, "let a = %s; let q = a.src;" % a)
        yield mk("propset/%s" % a, "let a = %s; a.src = 1;" % a)
        yield mk("mapkey/%s" % a, "let m = map {%s: 1}; let q = m[%s];" % (a, a))


def gen_shapes(tier, rng):
    yield mk("rec/unbounded", "fn f(n) { return f(n + 1); } f(0);", timeout=30)
    yield mk("rec/mutual", "fn a(n) { return b(n); } fn b(n) { return a(n); } a(1);", timeout=30)
    yield mk("rec/deep-ok", "fn f(n) { if n == 0 { return 0; } return 1 + f(n - 1); } puts(f(3000));", timeout=30)
    yield mk("rec/closure", "let f = fn(g, n) { return g(g, n + 1); }; f(f, 0);", timeout=30)
    for n in (200, 255, 256, 257, 300, 4000):
        yield mk("locals/%d" % n, "fn f() { " + " ".join("let v%d = %d;" % (i, i) for i in range(n)) + " return v0; } puts(f());", timeout=30)
        yield mk("params/%d" % n, "fn f(" + ", ".join("p%d" % i for i in range(n)) + ") { return 1; } puts(f(" + ", ".join("1" for _ in range(n)) + "));", timeout=30)
        yield mk("elems/%d" % n, "let a = [" + ", ".join(str(i) for i in range(n)) + "]; puts(len(a));", timeout=30)
    yield mk("stack/wide-args", "fn f(a) { return a; } let i = 0; while i < 100000 { f(i); i = i + 1; } puts(i);", timeout=60)
    yield mk("stack/loop-exprs", "let i = 0; while i < 200000 { 1 + 2; [i]; i = i + 1; }", timeout=60)
    yield mk("stack/expr-break", "let i = 0; while i < 100000 { let x = [1, 2, if i > -1 { i = i + 1; continue; } else { 3 }]; }", timeout=60)
    for d in (30, 60, 64):
        yield mk("nest/parens/%d" % d, "puts(" + "(" * d + "1" + ")" * d + ");")
        yield mk("nest/arrays/%d" % d, "puts(" + "[" * d + "1" + "]" * d + ");")
        yield mk("nest/blocks/%d" % d, "{" * d + "1;" + "}" * d)
        yield mk("nest/fns/%d" % d, "fn f0() { " + "".join("let g%d = fn() { " % i for i in range(d)) + "1" + " };" * d + " return 1; } puts(f0());")
    yield mk("big/push", "let a = []; let i = 0; while i < 100000 { push(a, i); i = i + 1; } puts(len(a));", timeout=60)
    yield mk("big/str", 'let s = "ab" * 100000; puts(len(s));', timeout=30)
    yield mk("big/map", "let m = map {}; let i = 0; while i < 50000 { insert(m, i, i); i = i + 1; } puts(len(m));", timeout=60)
    # filter actions
    for act in ["1 / 0;", "return 1;", "f(1);", "let a = [1]; a[9];", "($1).nosuch;", "($9).src;", "($2).src = 5;", "($1).type = \"x\";", "($0).caplen = -1;", "($3).len = 99999999;",
                "fn f(n) { return f(n + 1); } f(0);", "exit(3);", "($1).payload[100000];", "break;", "continue;"]:
        yield mk("filter/%s" % act, "@ { %s }\n@ true\n@ end { %s }" % (act, act.replace("$", "NP + ") if "$" not in act else "puts(NP);"), stdin=PC, timeout=30)
        yield mk("filterpat/%s" % act, "@ NP %s\n" % ("== 1 { " + act + " }"), stdin=PC, flags=["-s"], timeout=30)
    for pat in ["1 / 0", "null", "[1]", '"s"', "5", "f", "($1)", "($9).x", "1 <"]:
        yield mk("pattern/%s" % pat, "@ %s\n" % pat, stdin=PC, timeout=15)


def gen_packets(tier, rng):
    """packet programs on generated frames (truncated and malformed headers included): reading, printing, assigning and
    writing layers must never crash - whatever the header length fields claim"""
    from .frames import gen_frame
    from .C15 import reads
    from .common import pcap_file as pf
    n = 150 if tier == "quick" else 3000
    for c in range(n):
        fr = [gen_frame(rng, truncate=0.5) for _ in range(rng.randint(1, 2))]
        pc = pf(fr)
        acts = [reads(rng, "$1", first=True)]
        acts.append(" ".join('eprintln("{}", $%d);' % k for k in rng.sample(range(0, 6), rng.randint(1, 4))))
        if rng.random() < 0.5:
            k = rng.randint(1, 4)
            prop, val = rng.choice([("ttl", "1"), ("src", '"1.2.3.4"'), ("srcport", "80"), ("type", "2048"), ("ihl", "15"), ("dataoff", "15"), ("len", "0"), ("totlen", "65535"), ("id", "1"), ("flowlabel", "1")])
            acts.append("let t = $%d; if !is_error(t) && t != null { t.%s = %s; }" % (k, prop, val))
        prog = "@ { %s }\n@ true\n@ end { puts(NP); }\n" % " ".join(acts)
        # a runtime error (e.g. a property the layer does not have) is a fine ending; a crash is not
        yield mk("pkt/%d" % c, prog, stdin=pc, timeout=15)
        yield mk("pktfile/%d" % c, 'let ps = pcap_read_all(pcap_open("@TMP@/in.pcap")); let o = pcap_open("@TMP@/o.pcap", "w"); let i = 0; while i < len(ps) { let p = ps[i]; let e = p.eth; puts(p); '
                 'if !is_error(e) { puts(e); let a = e.ipv4; puts(a); let b = e.ipv6; let v = e.vlan; } pcap_write(o, p); write(stdout, p); i = i + 1; }', files={"in.pcap": pc}, timeout=15)


GROUPS = [
    dict(name="C08/builtins-matrix", clause="no builtin panics or hangs for any arity 0..3 and any argument values (negative counts and precisions, huge values, every kind)",
         bound="6/120 sort calls on arrays of 20-200 elements (NaN, integers above 2^53 next to floats, mixed kinds); 45 builtins x (arity 0, 22/46 boundary arguments, 6/400 argument pairs, 3/60 triples) plus 42 targeted boundary calls", gen=gen_builtins),
    dict(name="C08/operators-all-kinds", clause="no operator, index, call, property access or map literal panics for any pair of operand kinds", bound="18 binary operators x 20x20 operand kinds (quick 10% sample), 3 unary, index/call/property/map-key on every kind", gen=gen_operators),
    dict(name="C08/packet-programs", clause="reading, printing, assigning and writing the layers of any frame (truncated or with lying length fields) ends with a result or a reported error",
         bound="150/3000 seeded frames (50% truncated anywhere) x a filter program (layer chain, $n, Display of $n, one assignment, write) and a file program (pcap_read_all, named layers, pcap_write, write)", gen=gen_packets),
    dict(name="C08/resource-shapes", clause="unbounded recursion, many locals/parameters/elements, 64-deep nesting, long loops, huge containers and failing filter actions/patterns end with a result or a reported error",
         bound="about 80 fixed programs (sizes 200..4000, depths 30..64, loops up to 200000 iterations)", gen=gen_shapes),
]
