"""C18 bounded stand-in: address text assigned to header properties on the real binary, against reference parsers
(python ipaddress for RFC 4291 hexadecimal IPv6 text, plain definitions for dotted-quad IPv4 and colon-separated MAC).
Read-back text is compared by VALUE (parsed by the reference), so no particular display spelling is demanded."""
import ipaddress
from .common import eth, ipv4, ipv6, udp, pcap_file, no_panic

F6 = pcap_file([eth(ipv6(udp(b"abcd")), etype=0x86DD)])
F4 = pcap_file([eth(ipv4(udp(b"abcd")))])


def ref6(t):
    try:
        if "." in t or "%" in t or "/" in t:
            return None
        return int(ipaddress.IPv6Address(t))
    except Exception:
        return None


def ref4(t):
    p = t.split(".")
    if len(p) != 4 or not all(x.isdigit() and x.isascii() and len(x) <= 3 for x in p):
        return None
    v = [int(x) for x in p]
    return tuple(v) if all(x <= 255 for x in v) else None


def refmac(t):
    p = t.split(":")
    if len(p) != 6 or not all(len(x) == 2 and all(c in "0123456789abcdefABCDEF" for c in x) for x in p):
        return None
    return tuple(int(x, 16) for x in p)


def case(cid, layer, prop, text, pc, ref, valid):
    want = ref(text)
    prog = '@ NP == 1 { %s.%s = "%s"; puts(%s.%s); let t = %s.%s; %s.%s = t; puts(%s.%s); }' % ((layer, prop, text) + (layer, prop) * 4)

    def check(r, want=want, text=text, ref=ref, valid=valid):
        m = no_panic(r)
        if m:
            return m
        if not valid:
            if "untime error" not in r.etext:
                return "%r must be rejected with a runtime error; got stdout=%r stderr=%r" % (text, r.text[:200], r.etext[:200])
            return None
        if "untime error" in r.etext:
            return "the standard form %r was rejected: %s" % (text, r.etext.strip()[:200])
        lines = r.text.split("\n")
        if len(lines) < 2:
            return "no read-back for %r: stdout=%r" % (text, r.text[:200])
        got, again = ref(lines[0]), ref(lines[1])
        if got != want:
            return "assigned %r (value %r), read back %r (value %r)" % (text, want, lines[0], got)
        if again != want:
            return "displayed text %r assigned back reads %r: not the same address" % (lines[0], lines[1])
    return dict(id=cid, prog=prog, flags=["-s"], stdin=pc, check=check, script=False)


def spell(g, rng):
    s = "%x" % g
    k = rng.randint(0, 4 - len(s))
    s = "0" * k + s
    return s.upper() if rng.random() < 0.3 else s


def gen6(tier, rng):
    n = 0
    vals = [0, 0, 0, 1, 0xFFFF, 0xABCD, 0x12, 0xDB8, 0x2001, 0xFE80]
    fixed = ["::", "::1", "1::", "fe80::", "2001:db8::1", "1:2:3:4:5:6:7:8", "::2:3:4:5:6:7:8", "1:2:3:4:5:6:7::", "1::8", "1:2:3::5:6:7:8", "::ffff:0:1",
             "0:0:0:0:0:0:0:0", "ffff:ffff:ffff:ffff:ffff:ffff:ffff:ffff", "0001:0002:0003:0004:0005:0006:0007:0008", "ABCD:EF01::1", "1:0:0:2::3", "::8:0:0:1"]
    for t in fixed:
        for prop in ("src", "dst"):
            n += 1
            yield case("v6/fixed/%s/%s" % (t, prop), "($2)", prop, t, F6, ref6, True)
    for k in range(120 if tier == "quick" else 2500):
        groups = [rng.choice(vals) for _ in range(8)]
        sp = [spell(g, rng) for g in groups]
        # optionally compress one run of zero groups (any length >= 1) with '::'
        runs = []
        i = 0
        while i < 8:
            if groups[i] == 0:
                j = i
                while j < 8 and groups[j] == 0:
                    j += 1
                for a in range(i, j):
                    for b in range(a + 1, j + 1):
                        runs.append((a, b))
                i = j
            else:
                i += 1
        if runs and rng.random() < 0.75:
            a, b = rng.choice(runs)
            t = ":".join(sp[:a]) + "::" + ":".join(sp[b:])
        else:
            t = ":".join(sp)
        assert ref6(t) is not None, t
        yield case("v6/rand/%d/%s" % (k, t), "($2)", rng.choice(["src", "dst"]), t, F6, ref6, True)
    bad = ["1:2:3:4:5:6:7", "1:2:3:4:5:6:7:8:9", "1::2::3", "12345::", "1:2:3:4:5:6:7:10000", "1:2:3:4:5:6:7:8::", "::1:2:3:4:5:6:7:8", "", "1", "1:2", ":::",
           "g::1", "1:2:3:4:5:6:7:", ":1:2:3:4:5:6:7", "1:2:3:4:5:6:7:8:", "1::2:3:4:5:6:7:8:9", "fffff::1", "1:2:3:4::5:6:7:8:9"]
    for t in bad:
        assert ref6(t) is None, t
        yield case("v6/bad/%s" % t, "($2)", "src", t, F6, ref6, False)


def gen4mac(tier, rng):
    for t in ["0.0.0.0", "255.255.255.255", "1.2.3.4", "10.0.0.1", "192.168.1.254", "127.0.0.1", "8.8.8.8", "1.0.0.0", "0.0.0.1", "249.250.251.252"]:
        for prop in ("src", "dst"):
            yield case("v4/%s/%s" % (t, prop), "($2)", prop, t, F4, ref4, True)
    for k in range(40 if tier == "quick" else 800):
        t = ".".join(str(rng.choice([0, 1, 9, 10, 99, 100, 199, 200, 249, 250, 255, rng.randint(0, 255)])) for _ in range(4))
        yield case("v4/rand/%d/%s" % (k, t), "($2)", rng.choice(["src", "dst"]), t, F4, ref4, True)
    for t in ["1.2.3", "1.2.3.4.5", "256.1.1.1", "1.1.1.256", "1.2.3.999", "", "1", "1..2.3", "a.b.c.d", "1.2.3.", ".1.2.3", "1.2.3.4.", "300.300.300.300"]:
        yield case("v4/bad/%s" % t, "($2)", "src", t, F4, ref4, False)
    for t in ["00:00:00:00:00:00", "ff:ff:ff:ff:ff:ff", "FF:FF:FF:FF:FF:FF", "01:23:45:67:89:ab", "AA:bb:Cc:dD:0e:F0", "de:ad:be:ef:00:01"]:
        for prop in ("src", "dst"):
            yield case("mac/%s/%s" % (t, prop), "($1)", prop, t, F4, refmac, True)
    for k in range(30 if tier == "quick" else 500):
        t = ":".join(rng.choice(["%02x", "%02X"]) % rng.randint(0, 255) for _ in range(6))
        yield case("mac/rand/%d/%s" % (k, t), "($1)", rng.choice(["src", "dst"]), t, F4, refmac, True)
    for t in ["01:02:03:04:05", "01:02:03:04:05:06:07", "", "01", "gg:00:00:00:00:00", "100:00:00:00:00:00", "01:02:03:04:05:1ff", "01:02:03:04:05:", ":01:02:03:04:05", "0102.0304.0506"]:
        yield case("mac/bad/%s" % t, "($1)", "src", t, F4, refmac, False)


GROUPS = [
    dict(name="C18/ipv6-text", clause="every RFC 4291 hexadecimal IPv6 form (at most one '::', leading, trailing or in the middle, standing for one or more zero groups) is accepted and denotes the reference parser's address; displayed text assigned back stores the same address; wrong group counts, two '::' and out-of-range groups are runtime errors",
         bound="17 fixed forms x 2 properties, 120/2500 seeded random spellings (case, leading zeros, every placement of '::' over a zero run), 18 malformed texts", gen=gen6),
    dict(name="C18/ipv4-and-mac-text", clause="dotted-quad IPv4 and colon-separated two-digit MAC octets are accepted and denote the reference value; display round-trips; wrong group counts and out-of-range groups are runtime errors",
         bound="10 fixed + 40/800 random IPv4 texts, 6 fixed + 30/500 random MAC texts, 13 + 10 malformed texts", gen=gen4mac),
]
