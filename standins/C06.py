"""C06 bounded stand-in: the documented truthiness table in every context that consults it (!v, if, while, &&, ||, filter
patterns with and without an action), and the short-circuit rules (which operand is the value, whether the right operand is
evaluated), on the real binary."""
from .common import no_panic, eth, ipv4, udp, pcap_file

PC = pcap_file([eth(ipv4(udp(b"abcd")))])
PCLEN = len(PC)

FALSEY = ["false", "0", "0.0", "null", "char(0)", "byte(0)", '""', "[]", "map {}", "(1 - 1)", "(0.5 - 0.5)", "rest([1])", 'chars("")']
TRUTHY = ["true", "1", "(-1)", "0.1", "1e-20", "(0.1 * 0.1 - 0.01)", '"0"', '"false"', '" "', "[0]", "[[]]", "map {0: 0}", "'a'", "'0'", "byte(1)", "char(1)", "len", "fn() { 0 }",
          "9223372036854775807", "(-0.5)", 'float("inf")', "[null]", "[false]"]


def show_of(e):
    return None


def gen(tier, rng):
    for v, fal in [(x, True) for x in FALSEY] + [(x, False) for x in TRUTHY]:
        t = "true" if fal else "false"     # value of !v
        prog = ('let v = %s;\nfn hit() { puts("EVAL"); return "rhs"; }\nputs(!v);\nputs(!!v);\nif v { puts("then"); } else { puts("else"); }\n'
                'let n = 0; while v { n = n + 1; if n == 2 { break; } } puts(n);\nlet a = v && hit(); puts(a == v, " ", a == "rhs");\nlet o = v || hit(); puts(o == v, " ", o == "rhs");\n'
                'puts(if v { 1 } else { 2 });\nputs(match true { true => { if !v { "f" } else { "t" } } _ => { "x" } });\n') % v
        if fal:
            want = "true\nfalse\nelse\n0\ntrue false\nEVAL\nfalse true\n2\nf\n"
        else:
            want = "false\ntrue\nthen\n2\nEVAL\nfalse true\ntrue false\n1\nt\n"
        # functions / files compare by identity in ==; keep the value comparison meaningful for them too
        yield dict(id="ctx/%s" % v, prog=prog, batch=True,
                   check=(lambda r, want=want, v=v: no_panic(r) or (None if r.text == want and "rror" not in r.etext else "v = %s: expected %r, got %r %r" % (v, want, r.text[:160], r.etext[:160]))))
        # filter patterns: with an action the action runs iff truthy; without one the packet is written iff truthy
        for form in ("action", "write"):
            if form == "action":
                prog2, flags = "@ %s { puts(\"ACT\"); }\n@ end { puts(\"end\"); }\n" % v, ["-s"]
                want2 = ("" if fal else "ACT\n") + "end\n"

                def check(r, want2=want2, v=v):
                    m = no_panic(r)
                    if m:
                        return m
                    if r.text != want2 or "rror" in r.etext:
                        return "filter `@ %s { .. }`: expected stdout %r, got %r %r" % (v, want2, r.text[:80], r.etext[:160])
            else:
                prog2, flags = "@ %s\n" % v, []
                wlen = 24 if fal else PCLEN

                def check(r, wlen=wlen, v=v):
                    m = no_panic(r)
                    if m:
                        return m
                    if len(r.out) != wlen or "rror" in r.etext:
                        return "filter `@ %s` (no action): expected %d output bytes (%s), got %d %r" % (v, wlen, "header only" if wlen == 24 else "the packet", len(r.out), r.etext[:160])
            yield dict(id="filter/%s/%s" % (form, v), prog=prog2, flags=flags, stdin=PC, check=check)
    # short-circuit chains: value and evaluation count
    chains = [("0 && hit()", "0", 0), ("1 && hit()", "rhs", 1), ("0 || hit()", "rhs", 1), ("1 || hit()", "1", 0), ('"" || 0 || []', "[]", 0), ('1 && "" && hit()', "", 0),
              ("null || false || hit()", "rhs", 1), ("[1] && map {1: 1} && 7", "7", 0), ("false || null", "null", 0), ("true && null", "null", 0), ("0.0 || -0.5", "-0.5", 0),
              ("(0 || 2) && (3 || hit())", "3", 0), ("(1 && 0) || (0 && hit())", "0", 0)]
    for e, val, evals in chains:
        prog = 'fn hit() { puts("EVAL"); return "rhs"; }\nlet r = %s;\nputs(r);\n' % e
        want = "EVAL\n" * evals + val + "\n"
        yield dict(id="chain/%s" % e, prog=prog, batch=True,
                   check=(lambda r, want=want, e=e: no_panic(r) or (None if r.text == want and "rror" not in r.etext else "%s: expected %r, got %r %r" % (e, want, r.text[:80], r.etext[:160]))))


GROUPS = [
    dict(name="C06/truthiness-contexts", clause="!v, if, while, &&, ||, match-embedded if and filter patterns treat v as falsey exactly when it is false, 0, 0.0, null, '\\0', b'\\0', an empty string, array or map; a && b / a || b yield an operand and evaluate b only when needed",
         bound="13 falsey and 24 truthy values (incl. 1e-20, 0.1*0.1-0.01, '0', [[]], functions) x 9 program contexts + 2 filter forms; 13 short-circuit chains", gen=gen),
]


# ---- nested logical expressions in value and condition positions --------------------------------------------------------
VALS_F = [("0", "0"), ('""', ""), ("null", "null"), ("false", "false"), ("[]", "[]"), ("0.0", "0")]
VALS_T = [("1", "1"), ('"a"', "a"), ("[0]", "[0]"), ("true", "true"), ("2.5", "2.5"), ("-1", "-1")]


class Atom:
    def __init__(self, k, src, shown, truthy):
        self.k, self.src, self.shown, self.truthy = k, src, shown, truthy


def ev(t, trace):
    """reference evaluation: (shown text, truthy)"""
    if isinstance(t, Atom):
        trace.append(t.k)
        return t.shown, t.truthy
    if t[0] == "!":
        s, tr = ev(t[1], trace)
        return ("false" if tr else "true"), (not tr)
    a = ev(t[1], trace)
    if t[0] == "&&":
        return ev(t[2], trace) if a[1] else a
    return a if a[1] else ev(t[2], trace)


def render(t, minimal):
    if isinstance(t, Atom):
        return "p(%d, %s)" % (t.k, t.src)
    if t[0] == "!":
        return "!" + (render(t[1], minimal) if isinstance(t[1], Atom) else "(" + render(t[1], minimal) + ")")
    def side(x, right):
        r = render(x, minimal)
        if isinstance(x, Atom) or x[0] == "!":
            return r
        if minimal and (x[0] == t[0] and not right or (t[0] == "||" and x[0] == "&&")):
            return r            # left-associative chains of one operator; && binds tighter than ||
        return "(" + r + ")"
    return "%s %s %s" % (side(t[1], False), t[0], side(t[2], True))


def trees(rng, depth, counter):
    if depth == 0 or rng.random() < 0.25:
        f = rng.random() < 0.5
        src, shown = rng.choice(VALS_F if f else VALS_T)
        counter[0] += 1
        return Atom(counter[0], src, shown, not f)
    if rng.random() < 0.2:
        return ("!", trees(rng, depth - 1, counter))
    return (rng.choice(["&&", "||"]), trees(rng, depth - 1, counter), trees(rng, depth - 1, counter))


def gen_nested(tier, rng):
    cases = []
    # every shape of three operands, every operator pair, falsey/truthy in every slot
    for shape in ("L", "R"):
        for o1 in ("&&", "||"):
            for o2 in ("&&", "||"):
                for bits in range(8):
                    for neg in (None, 0, 1):
                        atoms = []
                        for k in range(3):
                            f = not (bits >> k) & 1
                            src, shown = rng.choice(VALS_F if f else VALS_T)
                            atoms.append(Atom(k + 1, src, shown, not f))
                        inner = (o1, atoms[0], atoms[1]) if shape == "L" else (o2, atoms[1], atoms[2])
                        if neg == 0:
                            inner = ("!", inner)
                        t = (o2, inner, atoms[2]) if shape == "L" else (o1, atoms[0], inner)
                        if neg == 1:
                            t = ("!", t)
                        cases.append(t)
    n = 150 if tier == "quick" else 4000
    for _ in range(n):
        cases.append(trees(rng, rng.choice([2, 3, 3, 4]), [0]))
    for c, t in enumerate(cases):
        trace = []
        shown, truthy = ev(t, trace)
        tr = "".join("E%d\n" % k for k in trace)
        for minimal in (True, False):
            e = render(t, minimal)
            prog = ('fn p(k, v) { puts("E", k); return v; }\nlet r = %s; puts("V=", r);\nif %s { puts("T"); } else { puts("F"); }\n'
                    'let n = 0; while %s { n = n + 1; if n == 1 { break; } } puts("W", n);\nif false { puts("X"); } else if %s { puts("T"); } else { puts("F"); }\n'
                    'fn g() { if %s { return "T"; } return "F"; } puts(g());\n') % (e, e, e, e, e)
            tf = "T" if truthy else "F"
            want = tr + "V=" + shown + "\n" + tr + tf + "\n" + tr + "W" + ("1" if truthy else "0") + "\n" + tr + tf + "\n" + tr + tf + "\n"
            yield dict(id="nested/%d/%s" % (c, "min" if minimal else "full"), prog=prog, batch=True,
                       check=(lambda r, want=want, e=e: no_panic(r) or (None if r.text == want and "rror" not in r.etext else
                              "`%s` (as a value, if / while / else-if condition, and inside a function): expected %r, got %r %r" % (e, want, r.text[:300], r.etext[:160]))))


GROUPS.append(dict(name="C06/nested-logic", clause="nested && / || / ! expressions yield the operand the rules name and evaluate exactly the operands the rules allow, in source order - as a value and as an if / while / else-if condition",
                   bound="all 3-operand shapes x operator pairs x falsey/truthy slots x optional negation (288) + 150/4000 seeded random trees of depth 2-4 over 12 values; minimal and full parentheses; 5 positions each", gen=gen_nested))
