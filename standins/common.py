"""Helpers shared by the bounded stand-ins: p2sh literals, pcap and frame builders, common checks."""
import struct

I64_MIN, I64_MAX = -(1 << 63), (1 << 63) - 1


def wrap64(v):
    v &= (1 << 64) - 1
    return v - (1 << 64) if v >> 63 else v


def strlit(s):
    """p2sh string literal for text without quotes/backslashes problems (the scanner has no escapes for arbitrary chars;
    callers keep to text the scanner reads verbatim)."""
    assert '"' not in s and "\\" not in s, s
    return '"' + s + '"'


def intlit(n):
    """An integer expression evaluating to n (i64::MIN has no literal)."""
    if n == I64_MIN:
        return "(-9223372036854775807 - 1)"
    return str(n) if n >= 0 else "(%d)" % n


def no_panic(r):
    if r.timed_out:
        return "the interpreter did not terminate within the time limit"
    if r.panicked:
        return "the interpreter panicked/aborted (exit %s): %s" % (r.rc, r.etext.strip().splitlines()[0][:200] if r.etext.strip() else "")
    return None


# ---------------------------------------------------------------- pcap
def pcap_global(magic=0xA1B2C3D4, major=2, minor=4, thiszone=0, sigfigs=0, snaplen=65535, linktype=1):
    return struct.pack("<IHHiIII", magic, major, minor, thiszone, sigfigs, snaplen, linktype)


def pcap_record(data, ts_sec=1, ts_usec=2, caplen=None, wirelen=None):
    return struct.pack("<IIII", ts_sec, ts_usec, len(data) if caplen is None else caplen,
                       len(data) if wirelen is None else wirelen) + data


def pcap_file(frames, **gh):
    recs = b""
    for i, f in enumerate(frames):
        if isinstance(f, tuple):
            data, kw = f
            recs += pcap_record(data, **kw)
        else:
            recs += pcap_record(f, ts_sec=1000 + i, ts_usec=10 * i + 7)
    return pcap_global(**gh) + recs


def parse_pcap(b):
    """-> (global header bytes, [(rec header bytes, data)]) or None if malformed"""
    if len(b) < 24:
        return None
    gh, rest, recs = b[:24], b[24:], []
    while rest:
        if len(rest) < 16:
            return None
        ts, tu, cl, wl = struct.unpack("<IIII", rest[:16])
        if len(rest) < 16 + cl:
            return None
        recs.append((rest[:16], rest[16:16 + cl]))
        rest = rest[16 + cl:]
    return gh, recs


# ---------------------------------------------------------------- frames
def mac(s):
    return bytes(int(x, 16) for x in s.split(":"))


def eth(payload=b"", dst="01:02:03:04:05:06", src="0a:0b:0c:0d:0e:0f", etype=0x0800):
    return mac(dst) + mac(src) + struct.pack(">H", etype) + payload


def vlan(payload=b"", pcp=0, dei=0, vid=100, etype=0x0800):
    return struct.pack(">HH", (pcp << 13) | (dei << 12) | vid, etype) + payload


def ipv4(payload=b"", ihl=5, options=b"", dscp=0, ecn=0, totlen=None, ident=0x1234, flags=2, frag=0, ttl=64, proto=17,
         csum=0xBEEF, src=(10, 0, 0, 1), dst=(10, 0, 0, 2), version=4):
    hl = 20 + len(options)
    tl = hl + len(payload) if totlen is None else totlen
    h = struct.pack(">BBHHHBBH", (version << 4) | ihl, (dscp << 2) | ecn, tl & 0xFFFF, ident, (flags << 13) | frag, ttl, proto, csum)
    return h + bytes(src) + bytes(dst) + options + payload


def ipv6(payload=b"", tc=0, fl=0, plen=None, nh=17, hlim=64, src=None, dst=None, version=6):
    src = src or bytes(range(1, 17))
    dst = dst or bytes(range(17, 33))
    w = (version << 28) | (tc << 20) | fl
    return struct.pack(">IHBB", w, len(payload) if plen is None else plen, nh, hlim) + src + dst + payload


def udp(payload=b"", sport=1111, dport=2222, length=None, csum=0x1357):
    return struct.pack(">HHHH", sport, dport, 8 + len(payload) if length is None else length, csum) + payload


def tcp(payload=b"", sport=3333, dport=4444, seq=0x01020304, ack=0x0A0B0C0D, doff=5, flags=0x012, win=8192, csum=0x2468, urg=0, options=b""):
    return struct.pack(">HHIIHHHH", sport, dport, seq, ack, (doff << 12) | (flags & 0xFFF), win, csum, urg) + options + payload
