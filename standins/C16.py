"""C16 bounded stand-in: every readable property of the pcap, packet, Ethernet, VLAN, IPv4, IPv6, TCP and UDP objects on
generated frames, against a reference decoder written from the pcap format, IEEE 802.1Q and RFC 791/8200/9293/768
(standins/frames.py::decode); $n and the named layer properties descend by EtherType / protocol / next header, null for
unsupported layers, an error object for truncated ones."""
import ipaddress
import struct
from .common import pcap_global, pcap_record, no_panic
from .frames import gen_frame, decode


def norm(kind_prop, text):
    """read-back text -> comparable value (addresses by value, not spelling)"""
    t = text.strip()
    if kind_prop in ("eth.src", "eth.dst"):
        p = t.split(":")
        return tuple(int(x, 16) for x in p) if len(p) == 6 else t
    if kind_prop in ("ipv4.src", "ipv4.dst"):
        return t
    if kind_prop in ("ipv6.src", "ipv6.dst"):
        try:
            return int(ipaddress.IPv6Address(t))
        except Exception:
            return t
    return t


def want_val(kind_prop, v):
    if kind_prop in ("eth.src", "eth.dst"):
        return tuple(int(x, 16) for x in v.split(":"))
    if kind_prop in ("ipv6.src", "ipv6.dst"):
        return int(ipaddress.IPv6Address(v))
    if isinstance(v, bool):
        return "true" if v else "false"
    return str(v)


def bytes_text(b):
    return "[" + ", ".join("0x%x" % x for x in b) + "]"


def gen_layers(tier, rng):
    n = 300 if tier == "quick" else 6000
    for c in range(n):
        f = gen_frame(rng, truncate=0.25)
        hdr = dict(ts_sec=rng.getrandbits(32), ts_usec=rng.getrandbits(32) if rng.random() < 0.3 else rng.randint(0, 999999), wirelen=len(f) + rng.choice([0, 0, 7, 100000]))
        gh = pcap_global(magic=rng.choice([0xA1B2C3D4, 0xA1B23C4D]))
        stdin = gh + pcap_record(f, **hdr)
        lay = decode(f)
        use_named = rng.random() < 0.5
        stmts, want, labels = [], [], []
        # the packet object
        tprop = rng.choice(["usec", "nsec"])
        stmts.append('puts(($0).sec); puts(($0).%s); puts(($0).caplen); puts(($0).wirelen); puts(($0).payload); puts(PL, " ", WL, " ", TSS, " ", TSU);' % tprop)
        want += [str(hdr["ts_sec"]), str(hdr["ts_usec"]), str(len(f)), str(hdr["wirelen"]), bytes_text(f), "%d %d %d %d" % (len(f), hdr["wirelen"], hdr["ts_sec"], hdr["ts_usec"])]
        labels += ["packet.sec", "packet.usec", "packet.caplen", "packet.wirelen", "packet.payload", "PL WL TSS TSU"]
        prev = "($0)"
        for i, L in enumerate(lay, 1):
            if use_named and L["kind"] not in ("null", "err"):
                # named descent: the property named after the layer kind the dispatch field selects
                obj = "%s.%s" % (prev, L["kind"])
            else:
                obj = "$%d" % i
            var = "l%d" % i
            stmts.append("let %s = %s;" % (var, obj))
            if L["kind"] == "null":
                stmts.append("puts(%s);" % var); want.append("null"); labels.append("$%d (unsupported layer -> null)" % i)
                stmts.append("puts($%d);" % (i + 1)); want.append("null"); labels.append("$%d below null" % (i + 1))
                break
            if L["kind"] == "err":
                stmts.append("puts(is_error(%s));" % var); want.append("true"); labels.append("$%d (truncated layer -> error object)" % i)
                break
            stmts.append("puts(is_error(%s));" % var); want.append("false"); labels.append("$%d is a %s layer" % (i, L["kind"]))
            for p, v in L["fields"].items():
                stmts.append("puts(%s.%s);" % (var, p))
                want.append(("%s.%s" % (L["kind"], p), want_val("%s.%s" % (L["kind"], p), v)))
                labels.append("%s.%s" % (L["kind"], p))
            stmts.append("puts(%s.payload);" % var)
            want.append(bytes_text(f[L["poff"]:]))
            labels.append("%s.payload" % L["kind"])
            prev = var
        prog = "@ {\n" + "\n".join(stmts) + "\n}\n"

        def check(r, want=want, labels=labels, f=f):
            m = no_panic(r)
            if m:
                return m
            if "untime error" in r.etext:
                return "reading the properties raised: %s (frame %s)" % (r.etext.strip()[:200], f[:60].hex())
            got = r.text.split("\n")
            if len(got) < len(want):
                return "expected %d output lines, got %d: %r" % (len(want), len(got), r.text[-200:])
            for g, w, lab in zip(got, want, labels):
                if isinstance(w, tuple):
                    kp, wv = w
                    if norm(kp, g) != wv:
                        return "%s reads %r, the reference decodes %r (frame %s)" % (lab, g, wv, f[:64].hex())
                elif g != w:
                    return "%s reads %r, the reference says %r (frame %s)" % (lab, g[:120], w[:120], f[:64].hex())
        yield dict(id="layers/%d" % c, prog=prog, stdin=stdin, flags=["-s"], check=check)


def gen_pcap_obj(tier, rng):
    for c in range(12 if tier == "quick" else 200):
        kw = dict(magic=rng.choice([0xA1B2C3D4, 0xA1B23C4D]), major=rng.getrandbits(16), minor=rng.getrandbits(16), thiszone=rng.choice([0, -3600, 2**31 - 1, -2**31]),
                  sigfigs=rng.getrandbits(32), snaplen=rng.getrandbits(32), linktype=rng.getrandbits(32))
        pc = pcap_global(**kw)
        prog = 'let f = pcap_open("@TMP@/in.pcap"); puts(f.magic); puts(f.major); puts(f.minor); puts(f.thiszone); puts(f.sigfigs); puts(f.snaplen); puts(f.linktype);'
        want = "".join("%d\n" % kw[k] for k in ("magic", "major", "minor", "thiszone", "sigfigs", "snaplen", "linktype"))

        def check(r, want=want):
            m = no_panic(r)
            if m:
                return m
            if r.text != want:
                return "pcap object properties read %r, the file header holds %r (stderr %r)" % (r.text, want, r.etext[:200])
        yield dict(id="pcapobj/%d" % c, prog=prog, files={"in.pcap": pc}, check=check)


GROUPS = [
    dict(name="C16/layer-properties", clause="each readable property returns the RFC field; payload = bytes after the header the length fields delimit; $n / named layer properties descend by EtherType, protocol, next header; null for unsupported layers, error object for truncated ones",
         bound="300/6000 seeded frames (standins/frames.py), every property of every layer along the descent, via $n or the named layer properties", gen=gen_layers),
    dict(name="C16/pcap-object", clause="the pcap object's properties are the global header fields", bound="12/200 seeded global headers", gen=gen_pcap_obj),
]
