"""C01 bounded stand-in: source texts on the real binary. Every prefix of a corpus that exercises every token and statement
form (so every construct is cut at end of input at every position), single-character mutations, random token soups with
Unicode, and bracket nesting up to 64. The interpreter must end with a run or with diagnostics - never a panic or a hang -
and a program for which diagnostics were reported must not have been executed."""
from .common import no_panic, eth, ipv4, udp, pcap_file

PC = pcap_file([eth(ipv4(udp(b"abcd")))])

CORPUS = [
    'let a = 10; let b = 0x1F + 0o17 + 0b101 + 1.5e3 + 2.; puts(a, b);\n',
    'let s = "str with \\\\ and \\" q"; let c = \'x\'; let d = b\'y\'; let e = \'\\n\'; puts(s, c, d);\n',
    '// comment\n# hash comment\nfn add(x, y) { return x + y; }\nlet f = fn(n) { if n < 2 { n } else { f(n - 1) + f(n - 2) } };\nputs(add(1, 2), f(5));\n',
    'let m = map {"k": 1, 2: [1, 2, 3], \'c\': map {}}; m["k"] = m[2][0] + 1; puts(m);\n',
    'let i = 0; outer: while i < 5 { i = i + 1; inner: loop { if i % 2 == 0 { continue outer; } break inner; } } puts(i);\n',
    'let r = match 5 { 1 | 2 => { "low" } 3..=5 => { "mid" } 6..10 => { "hi" } _ => { "x" } }; puts(r);\n',
    'let t = !true && false || 1 <= 2 && 3 >= 2 && 1 != 2 && 1 == 1; let u = ~5 & 3 | 4 ^ 1 << 2 >> 1; let v = -u % 3 * 2 / 1 - 1; puts(t, u, v);\n',
    '@ NP <= 10 && ($1).type == 0x0800 { puts(NP, " ", PL, " ", ($2).src); ($2).ttl = 5; }\n@ ($3).srcport == 53\n@ end { puts("end ", NP); }\n',
    'let p = stdin; let o = stdout; let e = stderr; println("{:>5} {0:x} {{}}", 255); eprintln("{}", argv);\n',
    'let a = [1, 2.5, "s", \'c\', b\'b\', true, null, [1], map {1: 2}, fn(x) { x }, len]; a[0] = a[1]; puts(a[10]("abc"));\n',
    'if true { 1 } else if false { 2 } else { 3 }\nlet x = if 1 > 2 { "a" } else { "b" };\n{ let y = 1; { let y = 2; puts(y); } puts(y); }\n',
    'let q = 1_000; let w = 0xFFFF_FFFF; let z = 1..5; let k = a.b.c; let h = $0; let j = ($1).eth.ipv4.udp.srcport;\n',
]
MUT_CHARS = ['"', "'", "\\", "{", "}", "(", ")", "[", "]", "@", "$", "#", "/", "*", "0", "0x", "0b", "0o", "1e", ".", "..", "..=", "=", "==", "=>", ":", ";", ",", "|", "&", "!", "~", "<", ">", "-", "b'", "é", "日", "\t", "\n",
             "\u0000", "\u00a0", "\u200b", "\U0001F600", "let", "fn", "match", "loop", "while", "if", "else", "return", "break", "continue", "map", "end", "_", "true", "null"]


def mk(cid, text, stdin=b"", flags=None, script=True):
    import zlib
    marker = "RAN-%d" % (zlib.crc32(cid.encode()) % 100000)

    def check(r):
        diag = ("parse error" in r.etext) or ("compile error" in r.etext)
        if marker in r.text and not diag:
            # scanning, parsing and compiling finished and the program is executing: how the (cut or mutated) program itself
            # ends - an endless loop, a runtime error, printing a container that contains itself - is not this property's concern
            return None
        m = no_panic(r)
        if m:
            return m
        if diag and marker in r.text:
            return "diagnostics were reported (%s) but the program was executed (its first statement printed)" % r.etext.strip().splitlines()[-1][:120]
    prog = 'puts("%s");\n' % marker + text
    if "\0" in prog:
        script = True        # a NUL cannot travel in argv
    return dict(id=cid, prog=prog, check=check, stdin=stdin, flags=flags or [], script=script, timeout=4)


def gen_prefixes(tier, rng):
    quick = tier == "quick"
    for ci, src in enumerate(CORPUS):
        filt = "@" in src
        cuts = list(range(len(src) + 1))
        if quick:
            special = [k for k in cuts if k > 0 and src[k - 1] in "\\\"'$@#.xbo_=|&<>!~-/*:"]
            cuts = sorted(set(rng.sample(cuts, min(len(cuts), 30)) + special + [len(src)]))
        for k in cuts:
            yield mk("prefix/%d/%d" % (ci, k), src[:k], stdin=PC if filt else b"", flags=["-s"] if filt else [])
        muts = 25 if quick else 400
        for j in range(muts):
            k = rng.randrange(len(src) + 1)
            ch = rng.choice(MUT_CHARS)
            t = src[:k] + ch + (src[k:] if rng.random() < 0.5 else src[k + 1:])
            yield mk("mut/%d/%d/%d" % (ci, j, k), t, stdin=PC if filt else b"", flags=["-s"] if filt else [])


def gen_soup(tier, rng):
    toks = MUT_CHARS + ["a", "x1", "puts", "1", "2.5", '"s"', "'c'", " ", " ", " ", "+", "a = 1", "f()", "[1]", "a[0]", "a.b", "($1)", "0x1 = 2", "a: 1", "1..=", "0b2", "0o8", "0xG", "1.2.3", "''", "'ab'", '"']
    for k in range(150 if tier == "quick" else 4000):
        n = rng.randint(1, 14)
        t = "".join(rng.choice(toks) + rng.choice(["", " ", ""]) for _ in range(n))
        yield mk("soup/%d" % k, t, script=rng.random() < 0.7)
    for d in (1, 8, 32, 63, 64):
        for (o, c) in (("(", ")"), ("[", "]"), ("{", "}"), ("f(", ")"), ("[1, ", "]"), ("-", ""), ("!", ""), ("if true { ", " }"), ("fn() { ", " }")):
            yield mk("nest/%s/%d" % (o, d), "let z = " + o * d + "1" + c * d + ";")
            yield mk("nest-open/%s/%d" % (o, d), "let z = " + o * d + "1")
            yield mk("nest-close/%s/%d" % (o, d), "let z = 1" + c * d + ";")


def gen_long_tokens(tier, rng):
    """long tokens whose multi-byte characters fall on every byte offset: diagnostics that echo, clip or slice token text"""
    quick = tier == "quick"
    offs = list(range(0, 70)) if not quick else list(range(0, 70, 3)) + [31, 32, 33, 63, 64, 65]
    for k in sorted(set(offs)):
        pad = "a" * k
        for nm, wide in (("cyr", "Привет, мир"), ("cjk", "日本語のテキスト"), ("emoji", "\U0001F600\U0001F601")):
            yield mk("long/str-open/%s/%d" % (nm, k), 'let g = "' + pad + wide + ";")                      # unterminated string
            yield mk("long/str/%s/%d" % (nm, k), 'let g = "' + pad + wide + '"; puts(g, nosuch);')          # compile error after a long literal
            yield mk("long/char/%s/%d" % (nm, k), "let c = '" + pad + wide + "';")                          # malformed char literal
            yield mk("long/byte/%s/%d" % (nm, k), "let c = b'" + pad + wide + "';")
            yield mk("long/ident/%s/%d" % (nm, k), "let " + "v" + pad + wide + " = 1; puts(v" + pad + wide + ");")
            yield mk("long/num/%s/%d" % (nm, k), "let n = 1" + "0" * k + wide + ";")
            yield mk("long/comment/%s/%d" % (nm, k), "// " + pad + wide + "\n" + "@" + pad + wide)
            yield mk("long/prop/%s/%d" % (nm, k), "let q = 1; q." + pad + wide + ";")


GROUPS = [
    dict(name="C01/prefixes-and-mutations", clause="scanning, parsing and compiling end with a run or with diagnostics for every source text - no panic, no hang - and a program with diagnostics is not executed",
         bound="12 corpus programs covering every token and statement form: every prefix (quick: every cut after a character that can start or continue a multi-character token, plus 30 random cuts per program) and 25/400 single-token mutations per program", gen=gen_prefixes),
    dict(name="C01/token-soup-and-nesting", clause="same, for random token sequences incl. Unicode and NUL, and bracket/prefix nesting up to 64 deep (balanced, unclosed, over-closed)",
         bound="150/4000 seeded token soups of <= 14 tokens; 9 nesting shapes x depths 1, 8, 32, 63, 64", gen=gen_soup),
    dict(name="C01/long-non-ascii-tokens", clause="same, for long string / char / byte / identifier / number / comment / property tokens holding multi-byte characters at every byte offset (diagnostics echo token text)",
         bound="8 token shapes x 3 scripts x byte offsets 0..69 (quick: every third offset plus 31-33, 63-65)", gen=gen_long_tokens),
]


# ---- grammar-derived programs: control-flow keywords at every structural position ------------------------------------
def gen_structured(tier, rng):
    """break / continue (plain and labelled, to existing and missing labels) / return / function literals / filters / match arms placed at
    random depths of loops, blocks, functions and conditions - the positions where the compiler keeps bookkeeping (loop stack,
    scope stack, pending jumps, last-Pop removal). Every such text either compiles (and runs) or gets a compile diagnostic."""
    n = 400 if tier == "quick" else 12000
    labels = ["a", "b", "zz"]

    def stmt(d, in_loops, in_fn, k):
        r = rng.random()
        pad = ["puts(%d);" % rng.randint(0, 9) for _ in range(rng.randint(0, 4))]
        if d <= 0 or r < 0.22:
            c = rng.choice(["break;", "continue;", "break %s;" % rng.choice(labels), "continue %s;" % rng.choice(labels), "return;", "return %d;" % k, "puts(%d);" % k, "%d" % k, "let v%d = %d;" % (k, k),
                            "v%d = 1;" % rng.randint(0, 3), "1 && 2 || 3;", "[1, 2][0];", "if 1 { 2 }", "if 0 { } else { }", "{ }", ";"])
            return " ".join(pad[:2]) + " " + c
        if r < 0.36:
            lab = rng.choice(["", "", "%s: " % rng.choice(labels)])
            return "%sloop { %s %s break; }" % (lab, block(d - 1, in_loops + 1, in_fn, k), " ".join(pad))
        if r < 0.50:
            lab = rng.choice(["", "", "%s: " % rng.choice(labels)])
            cond = rng.choice(["false", "0", "1 > 2", "if 0 { break; 1 } else { 0 }", "fn() { break; }", "n%d < 1" % k])
            return "%swhile %s { %s }" % (lab, cond, block(d - 1, in_loops + 1, in_fn, k))
        if r < 0.64:
            form = rng.choice(["let f%d = fn(x) { %s };", "fn g%d(x, y) { %s }", "fn(x) { %s }(1);", "let h%d = fn() { fn() { %s } };"])
            body = block(d - 1, 0, True, k)
            return (form % ((k, body) if "%d" in form else (body,)))
        if r < 0.76:
            return "if %s { %s } else if %s { %s } else { %s }" % (rng.choice(["1", "0", "x", "true && false"]), block(d - 1, in_loops, in_fn, k), rng.choice(["0", "1"]), block(d - 1, in_loops, in_fn, k), block(d - 1, in_loops, in_fn, k))
        if r < 0.86:
            return "let m%d = match %d { 1 | 2 => { %s } 3..=5 => { %s } _ => { %s } };" % (k, rng.randint(0, 6), block(d - 1, in_loops, in_fn, k), block(d - 1, in_loops, in_fn, k), block(d - 1, in_loops, in_fn, k))
        if r < 0.93:
            return "{ %s }" % block(d - 1, in_loops, in_fn, k)
        return "@ %s { %s }" % (rng.choice(["true", "NP > 0", "end", "1 && 0"]), block(d - 1, in_loops, in_fn, k))

    def block(d, in_loops, in_fn, k):
        return " ".join(stmt(d, in_loops, in_fn, k * 7 + j) for j in range(rng.randint(0, 3)))

    for c in range(n):
        cid = "struct/%d" % c
        body = " ".join(stmt(rng.choice([2, 3, 3, 4]), 0, False, j + 1) for j in range(rng.randint(1, 3)))
        text = 'let x = 0; let n1 = 0;\n%s\n' % body
        yield mk(cid, text, stdin=PC, flags=rng.choice([None, None, ["-s"]]))


GROUPS.append(dict(name="C01/control-flow-placement", clause="same, for grammar-derived programs that place break / continue (plain, labelled, unknown label), return, function literals, filters, match arms and blocks at every depth of loops, functions and conditions",
                   bound="400/12000 seeded programs, nesting depth <= 4, 0-3 statements per block", gen=gen_structured))
