"""Frame generator for the packet stand-ins (C15/C16/C17): layered frames with the layouts the properties quantify over -
VLAN stacking, IPv4 with options / odd IHL, IPv6 with next-header values incl. extension headers, IPv6-in-IPv4, TCP data
offsets, unknown protocols, and truncation at any length. Each frame comes with a description of its layers from which the
reference decodes the RFC fields."""
import struct
from .common import eth, vlan, ipv4, ipv6, udp, tcp, mac

ETH_TYPES = [0x0800, 0x86DD, 0x8100, 0x0806, 0x88A8, 0x0000]


def rnd_bytes(rng, n):
    return bytes(rng.getrandbits(8) for _ in range(n))


def l4(rng, kind):
    pay = rnd_bytes(rng, rng.choice([0, 1, 4, 9, 40]))
    if kind == "udp":
        return udp(pay, sport=rng.getrandbits(16), dport=rng.getrandbits(16), length=rng.choice([None, 0, 8, 65535]), csum=rng.getrandbits(16))
    doff = rng.choice([5, 5, 5, 6, 8, 15, 0, 3])
    opts = rnd_bytes(rng, max(0, doff - 5) * 4) if rng.random() < 0.8 else b""
    return tcp(pay, sport=rng.getrandbits(16), dport=rng.getrandbits(16), seq=rng.getrandbits(32), ack=rng.getrandbits(32), doff=doff,
               flags=rng.getrandbits(12), win=rng.getrandbits(16), csum=rng.getrandbits(16), urg=rng.getrandbits(16), options=opts)


def l3v6(rng, depth=0):
    nh = rng.choice([17, 6, 17, 6, 0, 43, 44, 60, 59, 58, 41, 4, 255])
    if nh == 17:
        inner = l4(rng, "udp")
    elif nh == 6:
        inner = l4(rng, "tcp")
    elif nh in (0, 43, 60):      # extension header (next header, len, 6 bytes) followed by UDP/TCP
        nn = rng.choice([17, 6])
        inner = bytes([nn, 0]) + rnd_bytes(rng, 6) + l4(rng, "udp" if nn == 17 else "tcp")
    else:
        inner = rnd_bytes(rng, rng.choice([0, 8, 24]))
    return ipv6(inner, tc=rng.getrandbits(8), fl=rng.getrandbits(20), plen=rng.choice([None, None, 0, 65535]), nh=nh, hlim=rng.getrandbits(8),
                src=rnd_bytes(rng, 16), dst=rnd_bytes(rng, 16), version=rng.choice([6, 6, 6, 0, 15]))


def l3v4(rng, depth=0):
    proto = rng.choice([17, 6, 17, 6, 41, 1, 47, 0, 255])
    ihl = rng.choice([5, 5, 5, 6, 7, 15, 0, 4, 3])
    olen = max(0, ihl - 5) * 4
    opts = rnd_bytes(rng, olen) if rng.random() < 0.85 else rnd_bytes(rng, rng.choice([0, 2]))
    if proto == 17:
        inner = l4(rng, "udp")
    elif proto == 6:
        inner = l4(rng, "tcp")
    elif proto == 41 and depth < 1:
        inner = l3v6(rng, depth + 1)
    else:
        inner = rnd_bytes(rng, rng.choice([0, 8, 20]))
    return ipv4(inner, ihl=ihl, options=opts, dscp=rng.getrandbits(6), ecn=rng.getrandbits(2), totlen=rng.choice([None, None, 0, 20, 65535]),
                ident=rng.getrandbits(16), flags=rng.getrandbits(3), frag=rng.getrandbits(13), ttl=rng.getrandbits(8), proto=proto,
                csum=rng.getrandbits(16), src=tuple(rnd_bytes(rng, 4)), dst=tuple(rnd_bytes(rng, 4)), version=rng.choice([4, 4, 4, 0, 6, 15]))


def l2payload(rng, et, vdepth=0):
    if et == 0x0800:
        return l3v4(rng)
    if et == 0x86DD:
        return l3v6(rng)
    if et == 0x8100 and vdepth < 3:
        et2 = rng.choice([0x0800, 0x86DD, 0x8100, 0x0806])
        return vlan(l2payload(rng, et2, vdepth + 1), pcp=rng.getrandbits(3), dei=rng.getrandbits(1), vid=rng.getrandbits(12), etype=et2)
    return rnd_bytes(rng, rng.choice([0, 10, 46]))


def gen_frame(rng, truncate=0.3):
    et = rng.choice([0x0800, 0x0800, 0x86DD, 0x86DD, 0x8100, 0x8100, 0x0806, 0x88A8])
    f = mac(":".join("%02x" % rng.getrandbits(8) for _ in range(6))) + mac(":".join("%02x" % rng.getrandbits(8) for _ in range(6))) + \
        struct.pack(">H", et) + l2payload(rng, et)
    if rng.random() < truncate:
        f = f[:rng.randint(0, len(f))]
    return f


# ---- reference decoding (RFC layouts), used by C16/C17 -------------------------------------------------------------
def be16(b, i):
    return (b[i] << 8) | b[i + 1]


def be32(b, i):
    return (b[i] << 24) | (b[i + 1] << 16) | (b[i + 2] << 8) | b[i + 3]


def mac_text(b):
    return ":".join("%02X" % x for x in b)


def v4_text(b):
    return ".".join(str(x) for x in b)


def v6_text(b):
    return ":".join("%x" % be16(b, i) for i in range(0, 16, 2))


def decode(frame):
    """-> list of layers along the $n descent: each dict(kind, start, fields{prop: value}, payload_off), ending with
    dict(kind='null') for an unsupported next layer or dict(kind='err') for a truncated one. $0 is the packet itself."""
    layers = []
    kind, off = "eth", 0
    for _ in range(12):
        b = frame
        n = len(b)
        if kind == "eth":
            if n < off + 14:
                layers.append(dict(kind="err")); break
            fl = dict(dst=mac_text(b[off:off + 6]), src=mac_text(b[off + 6:off + 12]), type=be16(b, off + 12))
            layers.append(dict(kind="eth", start=off, fields=fl, poff=off + 14))
            nxt = {0x8100: "vlan", 0x0800: "ipv4", 0x86DD: "ipv6"}.get(fl["type"])
            off += 14
        elif kind == "vlan":
            if n < off + 4:
                layers.append(dict(kind="err")); break
            tci = be16(b, off)
            fl = dict(priority=tci >> 13, dei=bool((tci >> 12) & 1), id=tci & 0xFFF, type=be16(b, off + 2))
            layers.append(dict(kind="vlan", start=off, fields=fl, poff=off + 4))
            nxt = {0x8100: "vlan", 0x0800: "ipv4", 0x86DD: "ipv6"}.get(fl["type"])
            off += 4
        elif kind == "ipv4":
            if n < off + 20:
                layers.append(dict(kind="err")); break
            ihl = b[off] & 0xF
            hl = max(20, ihl * 4)
            if n < off + hl:
                layers.append(dict(kind="err")); break
            w = be16(b, off + 6)
            fl = dict(version=b[off] >> 4, ihl=ihl, dscp=b[off + 1] >> 2, ecn=b[off + 1] & 3, totlen=be16(b, off + 2), id=be16(b, off + 4), flags=w >> 13,
                      fragoff=w & 0x1FFF, ttl=b[off + 8], proto=b[off + 9], checksum=be16(b, off + 10), src=v4_text(b[off + 12:off + 16]), dst=v4_text(b[off + 16:off + 20]))
            layers.append(dict(kind="ipv4", start=off, fields=fl, poff=off + hl))
            nxt = {17: "udp", 6: "tcp", 41: "ipv6"}.get(fl["proto"])
            off += hl
        elif kind == "ipv6":
            if n < off + 40:
                layers.append(dict(kind="err")); break
            w = be32(b, off)
            fl = dict(version=w >> 28, trafficclass=(w >> 20) & 0xFF, flowlabel=w & 0xFFFFF, len=be16(b, off + 4), nextheader=b[off + 6], hoplimit=b[off + 7],
                      src=v6_text(b[off + 8:off + 24]), dst=v6_text(b[off + 24:off + 40]))
            layers.append(dict(kind="ipv6", start=off, fields=fl, poff=off + 40))
            nxt = {17: "udp", 6: "tcp"}.get(fl["nextheader"])
            off += 40
        elif kind == "udp":
            if n < off + 8:
                layers.append(dict(kind="err")); break
            fl = dict(srcport=be16(b, off), dstport=be16(b, off + 2), len=be16(b, off + 4), checksum=be16(b, off + 6))
            layers.append(dict(kind="udp", start=off, fields=fl, poff=off + 8))
            nxt = None
        elif kind == "tcp":
            if n < off + 20:
                layers.append(dict(kind="err")); break
            w = be16(b, off + 12)
            fl = dict(srcport=be16(b, off), dstport=be16(b, off + 2), seq=be32(b, off + 4), ack=be32(b, off + 8), dataoff=w >> 12, flags=w & 0xFFF,
                      winsize=be16(b, off + 14), checksum=be16(b, off + 16), urgent=be16(b, off + 18))
            layers.append(dict(kind="tcp", start=off, fields=fl, poff=off + max(20, (w >> 12) * 4)))
            nxt = None
        if layers[-1]["kind"] in ("udp", "tcp"):
            layers.append(dict(kind="null")); break
        if nxt is None:
            layers.append(dict(kind="null")); break
        kind = nxt
    return layers
