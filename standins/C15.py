"""C15 bounded stand-in: captured frames of every generated layout (incl. truncated and malformed inner headers) go through
arbitrary sequences of property reads and $n accesses, with no assignment, and are written back by filter-mode output,
pcap_write and write. The bytes written must be exactly the bytes captured."""
from .common import pcap_global, pcap_record, pcap_file, no_panic, parse_pcap
from .frames import gen_frame

GRAPH = {"eth": ["vlan", "ipv4", "ipv6"], "vlan": ["vlan", "ipv4", "ipv6"], "ipv4": ["udp", "tcp", "ipv6"], "ipv6": ["udp", "tcp"], "udp": [], "tcp": []}
SCALARS = {
    "eth": ["src", "dst", "type", "payload"], "vlan": ["id", "priority", "dei", "type", "payload"],
    "ipv4": ["version", "ihl", "totlen", "id", "dscp", "ecn", "flags", "fragoff", "ttl", "proto", "checksum", "src", "dst", "payload"],
    "ipv6": ["version", "trafficclass", "flowlabel", "len", "nextheader", "hoplimit", "src", "dst", "payload"],
    "udp": ["srcport", "dstport", "len", "checksum", "payload"],
    "tcp": ["srcport", "dstport", "seq", "ack", "dataoff", "flags", "winsize", "checksum", "urgent", "payload"],
}


def chain(rng, root):
    """guarded reads along one path of named layer properties starting at the Ethernet object `root` (first access at
    every level, so the kind of each object is the kind of the property that produced it)"""
    out, kind, var, depth = [], "eth", root, 0
    closes = 0
    out.append("let c0 = %s;" % root)
    out.append("if !is_error(c0) {")
    closes += 1
    var = "c0"
    while True:
        for p in rng.sample(SCALARS[kind], rng.randint(0, 3)):
            out.append("%s.%s;" % (var, p))
        nxt = GRAPH[kind]
        if not nxt or depth >= 4 or rng.random() < 0.15:
            break
        k2 = rng.choice(nxt)
        depth += 1
        nv = "c%d" % depth
        out.append("let %s = %s.%s;" % (nv, var, k2))
        out.append("if !is_error(%s) {" % nv)
        closes += 1
        kind, var = k2, nv
    out.append("}" * closes + ";")
    return " ".join(out)


def dollars(rng):
    ks = [rng.randint(0, 7) for _ in range(rng.randint(0, 5))]
    return " ".join("$%d;" % k for k in ks)


def reads(rng, root, first=True):
    """the named-property chain must be the first access to the packet's layers (a cached layer is returned whatever
    property name asks for it, so later chains would not know the kinds they get)"""
    parts = []
    if first and rng.random() < 0.8:
        parts.append(chain(rng, root))
    parts.append(dollars(rng))
    if rng.random() < 0.3:
        parts.append("($0).sec; ($0).usec; ($0).caplen; ($0).wirelen; ($0).payload;".replace("($0)", root.replace(".eth", "") if root.endswith(".eth") else "($0)"))
    return " ".join(p for p in parts if p)


def gen_filter(tier, rng):
    n = 300 if tier == "quick" else 6000
    for c in range(n):
        k = rng.randint(1, 3)
        fr = [gen_frame(rng) for _ in range(k)]
        pc = pcap_file([(f, dict(ts_sec=rng.getrandbits(31), ts_usec=rng.randint(0, 999999), wirelen=len(f) + rng.choice([0, 0, 40, 1454]))) for f in fr],
                       magic=rng.choice([0xA1B2C3D4, 0xA1B23C4D]), snaplen=rng.choice([65535, 262144]))
        nf = rng.randint(1, 3)
        prog = "\n".join("@ { %s }" % reads(rng, "$1", first=(j == 0)) for j in range(nf)) + "\n@ true\n"
        if rng.random() < 0.3:
            prog = "@ true\n" + prog    # written before and after the reads

            def want_of(pc=pc, fr=fr):
                gh = pc[:24]
                recs = parse_pcap(pc)[1]
                return gh + b"".join(h + d + h + d for h, d in recs)
            want = want_of()
        else:
            want = pc

        def check(r, want=want, fr=fr):
            m = no_panic(r)
            if m:
                return m
            if "untime error" in r.etext:
                return None if False else "the read sequence raised a runtime error (generator assumption broken or reads fail): %s" % r.etext.strip()[:200]
            if r.out != want:
                a, b = parse_pcap(r.out), parse_pcap(want)
                if a and b and len(a[1]) == len(b[1]):
                    for i, (x, y) in enumerate(zip(a[1], b[1])):
                        if x != y:
                            return "record %d written back as %d bytes %s..., captured %d bytes %s..." % (i, len(x[1]), x[1][:48].hex(), len(y[1]), y[1][:48].hex())
                return "filter-mode output (%d bytes) differs from the captured stream (%d bytes)" % (len(r.out), len(want))
        yield dict(id="filter/%d" % c, prog=prog, stdin=pc, check=check)


def gen_file(tier, rng):
    n = 80 if tier == "quick" else 1500
    for c in range(n):
        k = rng.randint(1, 3)
        fr = [gen_frame(rng) for _ in range(k)]
        # the copy is written with the default global header, so the input uses it too; record headers vary (snapped captures)
        pc = pcap_file([(f, dict(ts_sec=rng.getrandbits(31), ts_usec=rng.randint(0, 999999), wirelen=len(f) + rng.choice([0, 0, 40, 1454]))) for f in fr])
        body = reads(rng, "p.eth")
        prog = ('let f = pcap_open("@TMP@/in.pcap"); let ps = pcap_read_all(f); let o = pcap_open("@TMP@/out.pcap", "w"); let w = open("@TMP@/w.bin", "w");\n'
                'let i = 0; while i < len(ps) { let p = ps[i]; fn rd(p) { %s } rd(p); pcap_write(o, p); write(w, p); i = i + 1; }\nflush(w);\n' % body.replace("$", "p_dollar_"))
        # $n is only meaningful in filters: drop those reads in file mode
        import re
        prog = re.sub(r"p_dollar_\d+;", "", prog)
        recs = parse_pcap(pc)[1]
        want_w = b"".join(h + d for h, d in recs)

        def check(r, pc=pc, want_w=want_w):
            m = no_panic(r)
            if m:
                return m
            if "rror" in r.etext:
                return "unexpected error: %s" % r.etext.strip()[:200]
            if r.files.get("out.pcap") != pc:
                return "pcap_write after reads wrote %s bytes, the captured file has %d" % (None if r.files.get("out.pcap") is None else len(r.files["out.pcap"]), len(pc))
            if r.files.get("w.bin") != want_w:
                return "write(f, packet) after reads wrote %s bytes, the captured records have %d" % (None if r.files.get("w.bin") is None else len(r.files["w.bin"]), len(want_w))
        yield dict(id="file/%d" % c, prog=prog, files={"in.pcap": pc}, collect=["out.pcap", "w.bin"], check=check)


GROUPS = [
    dict(name="C15/filter-output", clause="after any sequence of property reads and $n accesses, filter-mode output is exactly the captured stream",
         bound="300/6000 seeded scenarios: 1-3 generated frames (VLAN stacks, IPv4 options/odd IHL, IPv6 next headers incl. extension headers, 6in4, TCP data offsets, 30% truncated anywhere), 1-3 reading filters with guarded layer chains, scalar reads and $0..$7", gen=gen_filter),
    dict(name="C15/pcap_write-and-write", clause="pcap_write and write emit the captured bytes after reads", bound="80/1500 seeded scenarios through pcap_read_all + pcap_write + write", gen=gen_file),
]
