"""C20 bounded stand-in: filter mode on the real binary against a reference model of the documented behaviour
(non-filter statements once; per packet every filter in source order with NP/PL/WL/TSS/TSU of that packet; an action-less
filter whose pattern is true writes the packet as modified so far; end filter once with NP = packets read; output global
header = input's; with -s stdout carries only what the program prints)."""
import struct
from .common import eth, ipv4, ipv6, udp, tcp, pcap_global, pcap_record, no_panic, parse_pcap

MAC_NEW = "11:22:33:44:55:66"
MAC_NEW_B = bytes.fromhex("112233445566")


def frames(rng, k):
    out = []
    for i in range(k):
        body = bytes(rng.getrandbits(8) for _ in range(rng.choice([0, 4, 30, 70, 200])))
        kind = rng.choice(["u4", "t4", "u6", "arp"])
        if kind == "u4":
            f = eth(ipv4(udp(body)))
        elif kind == "t4":
            f = eth(ipv4(tcp(body), proto=6))
        elif kind == "u6":
            f = eth(ipv6(udp(body)), etype=0x86DD)
        else:
            f = eth(body + b"\0" * 28, etype=0x0806)
        hdr = dict(ts_sec=rng.choice([0, 1, 1700000000, 2**32 - 1]), ts_usec=rng.choice([0, 7, 999999, 123456789]),
                   wirelen=len(f) + rng.choice([0, 0, 10, 1000]))
        out.append((f, hdr))
    return out


# (source text, kind, python predicate over (np, frame, hdr))
FILTERS = [
    ("@ true", "write", lambda np, f, h: True),
    ("@ NP % 2 == 1", "write", lambda np, f, h: np % 2 == 1),
    ("@ PL > 60", "write", lambda np, f, h: len(f) > 60),
    ("@ WL != PL", "write", lambda np, f, h: h["wirelen"] != len(f)),
    ("@ false", "write", lambda np, f, h: False),
    ("@ ($1).type == 0x0800", "write", lambda np, f, h: f[12:14] == b"\x08\x00"),
    ("@ NP >= 2", "write", lambda np, f, h: np >= 2),
    ('@ { eprintln("S {} {} {} {} {}", NP, PL, WL, TSS, TSU); }', "report", None),
    ('@ NP == 2 { ($1).src = "%s"; }' % MAC_NEW, "modify", lambda np, f, h: np == 2),
    ('@ { ($1).src = "%s"; }' % MAC_NEW, "modify", lambda np, f, h: True),
    ('@ PL > 60 { let x = NP; }', "noop", None),
]


def model(gh, pk, fl, end):
    out = gh
    err = "start\n"
    for i, (f, h) in enumerate(pk, 1):
        cur = f
        for (src, kind, pred) in fl:
            if kind == "write" and pred(i, cur, h):
                out += pcap_record(cur, **h)
            elif kind == "report":
                err += "S %d %d %d %d %d\n" % (i, len(f), h["wirelen"], h["ts_sec"], h["ts_usec"])
            elif kind == "modify" and pred(i, cur, h):
                cur = cur[:6] + MAC_NEW_B + cur[12:]
    if end:
        err += "E %d\n" % len(pk)
    return out, err


def gen_pcap_out(tier, rng):
    import itertools
    n = 150 if tier == "quick" else 2500
    core = [FILTERS[0], FILTERS[9], FILTERS[8], FILTERS[7]]     # write, modify every packet, modify packet 2, report
    fixed = [list(c) for L in range(1, 4 if tier == "quick" else 5) for c in itertools.product(core, repeat=L)]
    for c in range(n + len(fixed)):
        k = rng.choice([0, 1, 2, 3, 3, 4, 6])
        if c >= n:
            k = 3
        pk = frames(rng, k)
        m = rng.randint(1, 4)
        fl = [rng.choice(FILTERS) for _ in range(m)] if c < n else fixed[c - n]
        end = rng.random() < 0.7
        gh = pcap_global(magic=rng.choice([0xA1B2C3D4, 0xA1B23C4D]), snaplen=rng.choice([65535, 262144, 1500, 96000]),
                         linktype=rng.choice([1, 1, 113, 101]), thiszone=rng.choice([0, 3600, -18000]), sigfigs=rng.choice([0, 6]),
                         minor=rng.choice([4, 3]))
        prog = 'eprintln("start");\n' + "\n".join(s for s, _, _ in fl) + ('\n@ end { eprintln("E {}", NP); }' if end else "")
        stdin = gh + b"".join(pcap_record(f, **h) for f, h in pk)
        trunc = rng.random() < 0.2 and k > 0
        if trunc:       # input cut inside a further record: exactly the k complete records are processed
            extra = pcap_record(eth(b"\0" * 50), ts_sec=5, ts_usec=5)
            stdin += extra[:rng.choice([3, 16, 20, len(extra) - 1])]
        want_out, want_err = model(gh, pk, fl, end)

        def check(r, want_out=want_out, want_err=want_err, prog=prog):
            m_ = no_panic(r)
            if m_:
                return m_
            if r.out != want_out:
                a, b = parse_pcap(r.out), parse_pcap(want_out)
                if a and b:
                    if a[0] != b[0]:
                        return "output global header %s differs from the input's %s" % (a[0].hex(), b[0].hex())
                    return "output has %d records, the model %d (first difference at record %s)" % (
                        len(a[1]), len(b[1]), next((i for i, (x, y) in enumerate(zip(a[1], b[1])) if x != y), min(len(a[1]), len(b[1]))))
                return "output pcap stream (%d bytes) differs from the model (%d bytes)" % (len(r.out), len(want_out))
            if r.etext != want_err:
                return "stderr %r, the model says %r" % (r.etext[:300], want_err[:300])
        yield dict(id="pcap/%d" % c, prog=prog, stdin=stdin, check=check)


def gen_skip(tier, rng):
    n = 40 if tier == "quick" else 600
    for c in range(n):
        k = rng.choice([0, 1, 2, 3, 5])
        pk = frames(rng, k)
        gh = pcap_global()
        fl = [rng.choice(FILTERS[:7]) for _ in range(rng.randint(0, 2))]
        prog = 'puts("start");\n' + "\n".join(s for s, _, _ in fl) + '\n@ { puts(NP, " ", PL, " ", WL, " ", TSS, " ", TSU); }\n@ end { puts("end ", NP); }'
        want = "start\n" + "".join("%d %d %d %d %d\n" % (i, len(f), h["wirelen"], h["ts_sec"], h["ts_usec"]) for i, (f, h) in enumerate(pk, 1)) + "end %d\n" % k
        stdin = gh + b"".join(pcap_record(f, **h) for f, h in pk)

        def check(r, want=want):
            m_ = no_panic(r)
            if m_:
                return m_
            if r.text != want or r.etext != "":
                return "with -s stdout must carry only what the program prints: expected %r, got stdout=%r stderr=%r" % (want[:300], r.out[:300], r.etext[:200])
        yield dict(id="skip/%d" % c, prog=prog, stdin=stdin, flags=["-s"], check=check)


GROUPS = [
    dict(name="C20/pcap-output", clause="output = input's global header + one record per (packet, action-less filter with a true pattern) in order, as modified so far; per-packet NP/PL/WL/TSS/TSU; non-filter statements once; end filter once with NP = packets read; a truncated tail ends the stream after the complete records",
         bound="every sequence of <= 3 (4) filters over {write, modify all, modify packet 2, report} on 3 packets, plus 150/2500 seeded scenarios: 0-6 packets of 4 frame kinds, 1-4 filters out of 11 templates (write/report/modify), optional end filter, 2 magics, varied global header fields", gen=gen_pcap_out),
    dict(name="C20/skip-pcap", clause="with -s stdout carries only what the program prints", bound="40/600 seeded scenarios", gen=gen_skip),
]
