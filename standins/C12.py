"""C12 bounded stand-in: println/format on the real binary against a reference renderer of the documented mini-language
{[index][:[[fill]<|>][width][b|o|x|X]]} with {{ }} escapes. Only format strings inside that grammar are generated; arguments
are non-negative integers and plain ASCII strings (the rows of the property the reference fixes)."""
import itertools
from .common import strlit, no_panic


class RefErr(Exception):
    pass


def ref_render(fmt, args):
    """reference renderer; args are python ints / strs"""
    out, i, nxt = [], 0, 0
    n = len(fmt)
    while i < n:
        c = fmt[i]
        if c == "{":
            if i + 1 < n and fmt[i + 1] == "{":
                out.append("{"); i += 2; continue
            j = fmt.index("}", i)
            spec = fmt[i + 1:j]
            i = j + 1
            idx, rest = spec, ""
            if ":" in spec:
                idx, rest = spec.split(":", 1)
            if idx == "":
                if nxt >= len(args):
                    raise RefErr("no argument")
                v = args[nxt]; nxt += 1
            else:
                k = int(idx)
                if k >= len(args):
                    raise RefErr("no argument")
                v = args[k]
            fill, align = " ", None
            if len(rest) >= 2 and rest[1] in "<>":
                fill, align, rest = rest[0], rest[1], rest[2:]
            elif len(rest) >= 1 and rest[0] in "<>":
                align, rest = rest[0], rest[1:]
            base = None
            if rest and rest[-1] in "boxX":
                base, rest = rest[-1], rest[:-1]
            width = int(rest) if rest else 0
            if base:
                if not isinstance(v, int):
                    raise RefErr("unspecified: base on non-integer")
                s = {"b": "{:b}", "o": "{:o}", "x": "{:x}", "X": "{:X}"}[base].format(v)
            else:
                s = str(v)
            pad = fill * max(0, width - len(s))
            if align is None:
                align = ">" if isinstance(v, int) else "<"
            out.append(s + pad if align == "<" else pad + s)
            continue
        if c == "}":
            assert i + 1 < n and fmt[i + 1] == "}", "generator bug: stray }"
            out.append("}"); i += 2; continue
        out.append(c); i += 1
    return "".join(out)


LIT = ["", "a", "ab ", "x:", "-"]
ESC = ["{{", "}}"]
FILLS = [" ", "0", "*", "-", "x", "<", ">", ":", "7", "b"]


def specs(nargs):
    res = ["{}"]
    for k in range(nargs + 1):        # one index beyond the arguments: must be an error
        res.append("{%d}" % k)
    for idx in ["", "0", "1"]:
        for fa in [""] + [a for a in "<>"] + [f + a for f in FILLS for a in "<>"]:
            for w in ["", "1", "6", "12"]:
                for b in ["", "b", "o", "x", "X"]:
                    if fa == "" and w == "" and b == "":
                        continue
                    res.append("{%s:%s%s%s}" % (idx, fa, w, b))
    return res


def mk_case(cid, fmt, args, fn="println"):
    argl = "".join(", " + (strlit(a) if isinstance(a, str) else str(a)) for a in args)
    prog = "let n = %s(%s%s); puts(); puts(n);" % (fn, strlit(fmt), argl) if fn in ("print", "eprint") else \
           "let n = %s(%s%s); puts(n);" % (fn, strlit(fmt), argl)
    try:
        exp = ref_render(fmt, args)
        err = False
    except RefErr as e:
        exp, err = None, ("unspecified" if "unspecified" in str(e) else True)
    to_err = fn.startswith("e")

    def check(r, exp=exp, err=err, fn=fn, to_err=to_err):
        m = no_panic(r)
        if m:
            return m
        if err == "unspecified":
            return None
        if err:
            if "untime error" not in r.etext:
                return "a specifier without a matching argument / base on a non-integer must be a runtime error; got exit=%s stdout=%r stderr=%r" % (r.rc, r.text[:200], r.etext[:200])
            return None
        if "untime error" in r.etext:
            return "reference renders %r, the interpreter raised: %s" % (exp, r.etext.strip()[:200])
        nl = 1 if fn.endswith("ln") else 0
        want_len = len(exp.encode()) + nl
        if to_err:
            body, tail = r.etext, r.text
            if nl:
                ok = body == exp + "\n" and tail == "%d\n" % want_len
            else:
                ok = body == exp and tail == "\n%d\n" % want_len
        else:
            if nl:
                ok = r.text == exp + "\n" + "%d\n" % want_len and r.etext == ""
            else:
                ok = r.text == exp + "\n" + "%d\n" % want_len and r.etext == ""
        if not ok:
            return "%s(%r, %r): reference text %r and length %d; stdout=%r stderr=%r" % (fn, fmt, args, exp, want_len, r.text[:300], r.etext[:300])
        return None
    return dict(id=cid, prog=prog, check=check, batch=(err is False))


def gen_single(tier, rng):
    """every single specifier of the table x argument kinds, surrounded by literal text / escapes"""
    args_sets = [[255, "st"], ["st", 255], [0, 7]]
    sp = specs(2)
    n = 0
    for s in sp:
        for args in args_sets:
            for pre, post in (("", ""), ("a", "}}"), ("{{", "b"), ("}}x", "{{")):
                if tier == "quick" and (n % 5) != 0 and (pre, post) != ("a", "}}"):
                    n += 1
                    continue
                n += 1
                yield mk_case("single/%s%s%s/%r" % (pre, s, post, args), pre + s + post, args)


def gen_multi(tier, rng):
    """sequences of literals, escapes and specifiers: argument consumption order, escapes next to specifiers"""
    sp = ["{}", "{0}", "{1}", "{2}", "{:4}", "{:<4}", "{:*>5x}", "{1:0>3}", "{:b}", "{0:X}"]
    pieces = LIT[1:] + ESC + sp
    count = 400 if tier == "quick" else 4000
    for k in range(count):
        m = rng.randint(1, 6)
        fmt = "".join(rng.choice(pieces) for _ in range(m))
        nargs = rng.randint(0, 3)
        args = [rng.choice([0, 5, 255, 4096, "s", "text"]) for _ in range(nargs)]
        fn = rng.choice(["println", "println", "print", "eprintln", "eprint"])
        yield mk_case("multi/%d/%s/%r/%s" % (k, fmt, args, fn), fmt, args, fn)
    # exhaustive short strings over escapes and one literal: every position of }} and {{
    alpha = ["{{", "}}", "a", "{}"]
    for L in range(1, 5 if tier == "quick" else 6):
        for combo in itertools.product(alpha, repeat=L):
            fmt = "".join(combo)
            yield mk_case("esc/%s" % fmt, fmt, [1, 2, 3, 4, 5])


def gen_format_fn(tier, rng):
    """format() returns the same text (checked through len and a second print)"""
    for k, (fmt, args) in enumerate([("{}-{}", [1, "a"]), ("{{{}}}", [5]), ("{:>4}|{:<4}|", ["r", 9]), ("}}{0}{{", [3]), ("a}}", []), ("{{a}}", [])]):
        exp = ref_render(fmt, args)
        argl = "".join(", " + (strlit(a) if isinstance(a, str) else str(a)) for a in args)
        prog = "let s = format(%s%s); puts(len(s)); println(\"{}\", s);" % (strlit(fmt), argl)

        def check(r, exp=exp):
            m = no_panic(r)
            if m:
                return m
            if r.text != "%d\n%s\n" % (len(exp), exp):
                return "format: reference %r; got stdout=%r stderr=%r" % (exp, r.text[:200], r.etext[:200])
        yield dict(id="formatfn/%d" % k, prog=prog, check=check, batch=True)


GROUPS = [
    dict(name="C12/single-specifier", clause="each specifier {[index][:[[fill]<|>][width][b|o|x|X]]} renders as the reference renderer says; println returns the byte length + 1",
         bound="the specifier table (index in {none,0,1,2}, 10 fills x 2 alignments, 4 widths, 4 bases) x 3 argument lists x 4 contexts; quick samples 1 in 5", gen=gen_single),
    dict(name="C12/sequences", clause="literal text, {{ }} escapes and several specifiers: arguments are consumed left to right, indices select, text and returned length equal the reference, on the right stream",
         bound="400 (quick) / 4000 (thorough) seeded random sequences of <= 6 pieces, plus every sequence of <= 4 (5) pieces over {{ }} a {}", gen=gen_multi),
    dict(name="C12/format-returns-text", clause="format returns the rendered text", bound="6 fixed format strings", gen=gen_format_fn),
]
