"""C13 bounded stand-in: generated multi-line programs whose only failing construct sits on a known line (single-line
construct), at top level, inside a function body, inside nested blocks or inside a filter action, preceded by
arbitrary non-failing statements of every statement form. The reported line must be that line."""
import re
from .common import eth, ipv4, udp, pcap_file, no_panic

PCAP1 = pcap_file([eth(ipv4(udp(b"abcd")))])

FAILS = [
    "let q = 1 / 0;", "let q = 1 % 0;", 'let q = -"s";', 'let q = "a" - 1;', "let q = [1] < [2];", "let q = ~1.5;", "let q = map {1: 2}[7];", "let q = 5();", "len(1);", "first(1, 2);", 'int([1]);',
    "let w = 1; w.src;", "let q = !true + 1;", 'let e = "x" * -1;', "let q = [1, 2] - [1];", "puts(1 << true);", "f_one(1, 2);",
]


def noise(rng, k):
    """one non-failing statement (possibly several lines); k makes names unique"""
    t = rng.randrange(16)
    if t == 0:
        return ["let v%d = %d;" % (k, k)]
    if t == 1:
        return ["if %d > 0 { %d } else { %d }" % (k, k, k + 1)]
    if t == 2:
        return ["if %d > 1 {" % k, "    %d" % k, "} else if %d > 0 {" % k, "    %d" % (k + 2), "} else {", "    0", "}"]
    if t == 3:
        return ["let r%d = if true { 1 } else { 2 };" % k]
    if t == 4:
        return ["match %d {" % (k % 4), "    1 => { \"one\" }", "    2 | 3 => { \"two\" }", "    _ => { \"x\" }", "}"]
    if t == 5:
        return ["fn f%d(a) {" % k, "    let b = a + 1;", "    return b;", "}", "f%d(1);" % k]
    if t == 6:
        return ["let i%d = 0;" % k, "while i%d < 2 {" % k, "    i%d = i%d + 1;" % (k, k), "}"]
    if t == 7:
        return ["// comment %d" % k, ""]
    if t == 8:
        return ["{ let z%d = 1; z%d; }" % (k, k)]
    if t == 9:
        return ["let g%d = fn(x) { x * 2 };" % k, "g%d(2);" % k]
    if t == 10:
        return ["let a%d = [1, 2, 3];" % k, "a%d[1];" % k, "a%d[0] = 5;" % k]
    if t == 11:
        return ["let m%d = map {\"k\": 1};" % k, "m%d[\"k\"];" % k]
    if t == 12:
        return ["loop {", "    if true { break; }", "}"]
    if t == 13:
        return ["true && false;", "false || 3;"]
    if t == 14:
        return ["if false { 1 }"]
    return ["match \"s\" { \"a\" => { 1 } \"s\" => { 2 } _ => { 3 } }"]


def body(rng, n, k0):
    lines = []
    for j in range(n):
        lines += noise(rng, k0 + j)
    return lines


def gen(tier, rng):
    n = 260 if tier == "quick" else 4000
    for c in range(n):
        fail = FAILS[c % len(FAILS)]
        ctx = ["top", "fn", "nested", "filter", "fn-in-filter"][(c // len(FAILS)) % 5]
        pre = body(rng, rng.randint(0, 7), 100)
        lines = ["fn f_one(a) { return a; }"] + pre
        flags, stdin = [], b""
        if ctx == "top":
            lines.append(fail); L = len(lines)
            lines += body(rng, rng.randint(0, 2), 300)
        elif ctx == "fn":
            lines.append("fn bad(p) {")
            lines += ["    " + x for x in body(rng, rng.randint(0, 5), 200)]
            lines.append("    " + fail); L = len(lines)
            lines += ["    return 1;", "}"] + body(rng, rng.randint(0, 3), 300) + ["bad(1);"]
        elif ctx == "nested":
            lines += ["let n = 0;", "while n < 3 {", "    n = n + 1;", "    if n == 2 {"]
            lines += ["        " + x for x in body(rng, rng.randint(0, 3), 200)]
            lines.append("        " + fail); L = len(lines)
            lines += ["    }", "}"]
        elif ctx == "filter":
            flags, stdin = ["-s"], PCAP1
            lines += ["@ NP == 7 { puts(1); }", "@ NP == 1 {"]
            lines += ["    " + x for x in body(rng, rng.randint(0, 5), 200)]
            lines.append("    " + fail); L = len(lines)
            lines += ["}"]
        else:
            flags, stdin = ["-s"], PCAP1
            lines.append("fn bad(p) {")
            lines += ["    " + x for x in body(rng, rng.randint(0, 4), 200)]
            lines.append("    " + fail); L = len(lines)
            lines += ["    return 1;", "}", "@ PL > 0 {", "    let u = 1;", "    bad(u);", "}"]
        prog = "\n".join(lines) + "\n"

        def check(r, L=L, fail=fail):
            m = no_panic(r)
            if m:
                return m
            mm = re.search(r"\[line (\d+)\] Runtime error", r.etext)
            if not mm:
                return "expected a runtime error on line %d (%s); stderr=%r" % (L, fail, r.etext[:300])
            if int(mm.group(1)) != L:
                return "the failing construct `%s` is on line %d, the runtime error reports line %s (%s)" % (fail, L, mm.group(1), r.etext.strip()[:160])
        yield dict(id="line/%d/%s/%s" % (c, ctx, fail), prog=prog, flags=flags, stdin=stdin, check=check)


FAIL_EXPRS = ["1 / 0", '-"s"', "len(1)", "map {1: 2}[7]", '"a" - 1', "5()", "[1] < [2]", "(1).src"]
# multi-line enclosing constructs; @F@ is a failing single-line expression standing alone on its line
SPLIT = [
    "let q =\n@F@;",
    "let q = 1 +\n@F@;",
    "puts(1,\n@F@,\n3);",
    "fn g(a, b) { return a; }\ng(\n1,\n@F@\n);",
    "let a = [\n1,\n@F@,\n3\n];",
    "let m = map {\n1: 2,\n3:\n@F@\n};",
    "if\n@F@\n{ puts(1); }",
    "if false {\n1;\n} else if\n@F@\n{ 2; }",
    "while\n@F@\n{ break; }",
    "let r = match 1 {\n1 => {\n@F@\n}\n_ => { 0 }\n};",
    "let r = match\n@F@\n{ 1 => { 1 } _ => { 0 } };",
    "let r = true &&\n@F@;",
    "let r = false ||\n@F@;",
    "let r = !\n@F@;",
    "let a = [1, 2];\na[\n@F@\n];",
    "let f = fn() {\nreturn\n@F@;\n};\nf();",
    "loop {\nif true {\n@F@;\n}\nbreak;\n}",
]
# a range / literal pattern that cannot be compared with the scrutinee: the failing comparison is the pattern's
RANGE = [
    ('match "ten" {\n@P@ |\n10..20\n=> { 1 }\n_ => { 0 }\n}', "0..10"),
    ('match "ten" {\n1 => { 1 }\n@P@\n=>\n{ 2 }\n_ => { 0 }\n}', "0..=10"),
    ("match 'c' {\n@P@\n=> { 1 }\n_ => { 0 }\n}", "0..10"),
    ('match [1] {\n@P@ => { 1 }\n_ => { 0 }\n}', "0..10"),
    ('let s = "x";\nlet r = match s {\n@P@ |\n5..7 | 8..9\n=> { 1 }\n_ => { 0 } };', "20..30"),
]


def gen_split(tier, rng):
    n = 0
    for t in SPLIT:
        for fe in (FAIL_EXPRS if tier != "quick" else rng.sample(FAIL_EXPRS, 4)):
            pre = body(rng, rng.randint(0, 4), 500)
            lines = pre + t.replace("@F@", "(" + fe + ")").split("\n")
            L = len(pre) + 1 + t.split("\n").index("@F@") if "@F@" in t.split("\n") else len(pre) + 1 + next(i for i, x in enumerate(t.split("\n")) if "@F@" in x)
            prog = "\n".join(lines) + "\n"

            def check(r, L=L, fe=fe, prog=prog):
                m = no_panic(r)
                if m:
                    return m
                mm = re.search(r"\[line (\d+)\] Runtime error", r.etext)
                if not mm:
                    return None if ("parse error" in r.etext or "compile error" in r.etext) else "expected a runtime error on line %d (%s); stderr=%r\n%s" % (L, fe, r.etext[:200], prog[:400])
                if int(mm.group(1)) != L:
                    return "the failing construct `%s` is on line %d, the runtime error reports line %s\n%s" % (fe, L, mm.group(1), prog[:500])
            n += 1
            yield dict(id="split/%d/%s" % (n, fe), prog=prog, check=check)
    for t, pat in RANGE:
        pre = body(rng, rng.randint(0, 3), 600)
        tl = t.split("\n")
        L = len(pre) + 1 + next(i for i, x in enumerate(tl) if "@P@" in x)
        prog = "\n".join(pre + t.replace("@P@", pat).split("\n")) + "\n"

        def check(r, L=L, prog=prog):
            m = no_panic(r)
            if m:
                return m
            mm = re.search(r"\[line (\d+)\] Runtime error", r.etext)
            if not mm:
                return None      # the scrutinee happened to be comparable / the form is rejected: nothing to judge
            if int(mm.group(1)) != L:
                return "the pattern that cannot be compared is on line %d, the runtime error reports line %s\n%s" % (L, mm.group(1), prog[:500])
        n += 1
        yield dict(id="range/%d" % n, prog=prog, check=check)


GROUPS = [
    dict(name="C13/reported-line", clause="the reported line is the line holding the failing operator, index, call, property access or builtin invocation, however many lines, functions and filter statements precede it",
         bound="260/4000 seeded programs: 17 failing constructs x 5 contexts (top level, function body, nested blocks, filter action, function called from a filter) after 0-7 random statements of 16 forms", gen=gen),
    dict(name="C13/split-constructs", clause="same, when the failing single-line construct stands on its own line inside an enclosing construct that spans several lines (call arguments, literals, conditions, match scrutinee / arm / pattern, operands of a binary operator)",
         bound="17 multi-line enclosing shapes x 4 (8) failing expressions, 5 match-pattern shapes", gen=gen_split),
]
