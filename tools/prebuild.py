#!/usr/bin/env python3
"""setup step: build the interpreter binary of the current /repo tree once, so that the first check does not pay for it
(every check rebuilds it by itself whenever the tree's content digest changes)."""
import os, sys
sys.path.insert(0, os.path.dirname(os.path.dirname(os.path.abspath(__file__))))
from vlib import standin, core
try:
    print(standin.binary_for_tree())
except core.Undecided as e:
    print("prebuild skipped:", e)
