#!/usr/bin/env python3
"""usage: tools/validate_evidence.py [ID ...]
Validates evidence/<ID>.json (default: every check of MANIFEST.json) against /root/.vp/EVIDENCE.schema.json and
against the proof-level rule `discharged == obligations >= 1`, `violations == 0`, nothing undecided.
Run before committing evidence: an evidence file written by a run that was not quiet must not be committed.
Needs the tooling venv for jsonschema (python3-vt); without it only the counting rules are checked."""
import json
import os
import sys

VERIF = os.path.dirname(os.path.dirname(os.path.abspath(__file__)))
SCHEMA = "/root/.vp/EVIDENCE.schema.json"


def main():
    with open(os.path.join(VERIF, "MANIFEST.json")) as f:
        man = json.load(f)
    ids = sys.argv[1:] or [c["property_id"] for c in man["checks"]]
    try:
        import jsonschema
        with open(SCHEMA) as f:
            validator = jsonschema.Draft202012Validator(json.load(f))
    except Exception as e:  # noqa: BLE001
        validator = None
        print("note: schema validation skipped (%s)" % e)
    bad = 0
    for pid in ids:
        p = os.path.join(VERIF, "evidence", "%s.json" % pid)
        errs = []
        try:
            with open(p) as f:
                ev = json.load(f)
        except (OSError, ValueError) as e:
            print("%s: BAD %s" % (pid, e))
            bad += 1
            continue
        if validator is not None:
            errs += ["schema: " + e.message[:200] for e in validator.iter_errors(ev)]
        c = ev.get("coverage", {})
        if ev.get("property_id") != pid:
            errs.append("property_id %r" % ev.get("property_id"))
        if ev.get("level") == "proof":
            if c.get("obligations", 0) < 1:
                errs.append("obligations = %r < 1" % c.get("obligations"))
            if c.get("discharged") != c.get("obligations"):
                errs.append("discharged (%r) != obligations (%r)" % (c.get("discharged"), c.get("obligations")))
        if ev.get("violations"):
            errs.append("violations = %r" % ev.get("violations"))
        if c.get("undecided"):
            errs.append("undecided: %s" % "; ".join(c["undecided"])[:300])
        print("%s: %s" % (pid, "ok (%s/%s, %.0fs)" % (c.get("discharged"), c.get("obligations"), ev.get("wall_s", 0))
                          if not errs else "BAD " + " | ".join(errs)))
        bad += bool(errs)
    return 1 if bad else 0


if __name__ == "__main__":
    sys.exit(main())
