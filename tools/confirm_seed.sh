#!/bin/bash
# usage: confirm_seed.sh <dir with patch.diff and demo.sh>   - confirms in a fresh scratch worktree of /repo HEAD:
#  tests pass with the patch; demo fails with the patch and passes without it
set -u
D=$(realpath "$1"); W=/var/tmp/p2sh-seedconfirm-$$
git -C /repo worktree add --detach $W HEAD -q || exit 2
trap 'git -C /repo worktree remove --force $W; rm -rf $W' EXIT
cd $W
cp "$D/demo.sh" $W/demo.sh 2>/dev/null; chmod +x $W/demo.sh
sed -i "s#/tmp/seed/C[0-9]*#$W#g" $W/demo.sh
echo "== demo WITHOUT patch"; (cargo build --offline -q 2>&1 | tail -2; ./demo.sh > demo_base.out 2>&1; echo "demo rc=$?")
git apply "$D/patch.diff" || { echo "PATCH DOES NOT APPLY"; exit 2; }
echo "== tests WITH patch"; cargo test --offline 2>&1 | grep -E "test result|FAILED|error" | head -5
echo "== demo WITH patch"; (cargo build --offline -q 2>&1 | tail -2; ./demo.sh > demo_patch.out 2>&1; echo "demo rc=$?"; tail -5 demo_patch.out)
