#!/usr/bin/env python3
"""usage: eval_harmless.py <dir with refactor*.diff> <name> <property>...
Behaviour-preserving refactorings: every check must stay quiet (exit 0 or 2, never a VIOLATION). Results are filed
under /verif/seeded/harmless/<name>/."""
import glob, json, os, shutil, subprocess, sys, time
VERIF = os.path.dirname(os.path.dirname(os.path.abspath(__file__)))
src, name, pids = os.path.realpath(sys.argv[1]), sys.argv[2], sys.argv[3:]
wt = "/var/tmp/p2sh-harmless-%d" % os.getpid()
def sh(cmd, **kw): return subprocess.run(cmd, shell=True, text=True, capture_output=True, **kw)
dst = os.path.join(VERIF, "seeded", "harmless", name)
os.makedirs(dst, exist_ok=True)
res = {}
for d in sorted(glob.glob(os.path.join(src, "refactor*.diff"))):
    sh("git -C /repo worktree remove --force %s" % wt); shutil.rmtree(wt, ignore_errors=True)
    assert sh("git -C /repo worktree add --detach %s HEAD" % wt).returncode == 0
    try:
        a = sh("git apply %s" % d, cwd=wt)
        key = os.path.basename(d)
        if a.returncode != 0:
            res[key] = dict(error="does not apply to the current HEAD: " + a.stderr[:200]); continue
        t = sh("cargo test --offline 2>&1 | grep -E 'test result'", cwd=wt)
        r = dict(tests=t.stdout.strip(), checks={})
        for p in pids:
            c = subprocess.run([os.path.join(VERIF, "check"), p], cwd=VERIF, env=dict(os.environ, VERIF_REPO=wt), text=True, capture_output=True)
            viol = [l for l in c.stdout.splitlines() if l.startswith("VIOLATION")]
            und = [l.strip()[:300] for l in c.stderr.splitlines() if "UNDECIDED" in l or "failed" in l]
            r["checks"][p] = dict(rc=c.returncode, violations=viol, detail=und[:4])
        r["quiet"] = all(v["rc"] != 1 and not v["violations"] for v in r["checks"].values())
        res[key] = r
        if os.path.realpath(d) != os.path.realpath(os.path.join(dst, key)): shutil.copy(d, os.path.join(dst, key))
        print(key, "quiet" if r["quiet"] else "FALSE ALARM", {p: v["rc"] for p, v in r["checks"].items()}, flush=True)
        for p, v in r["checks"].items():
            if v["rc"] == 1: print("   ", p, v["violations"][:2], v["detail"][:2], flush=True)
    finally:
        sh("git -C /repo worktree remove --force %s" % wt); shutil.rmtree(wt, ignore_errors=True)
if os.path.exists(os.path.join(src, "NOTES.md")) and os.path.realpath(src) != os.path.realpath(dst): shutil.copy(os.path.join(src, "NOTES.md"), os.path.join(dst, "NOTES.md"))
json.dump(dict(name=name, properties=pids, at=time.strftime("%Y-%m-%d %H:%M:%S"), results=res), open(os.path.join(dst, "meta.json"), "w"), indent=1)
