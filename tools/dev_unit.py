#!/usr/bin/env python3
"""developer helper: generate one Verus unit from /repo's tree and run verus with human-readable diagnostics.
usage: dev_unit.py <unit> [--probe] [extra verus args]"""
import os, subprocess, sys
sys.path.insert(0, os.path.dirname(os.path.dirname(os.path.abspath(__file__))))
from vlib import core, verus
import importlib
name = sys.argv[1]
probe = "--probe" in sys.argv
extra = [a for a in sys.argv[2:] if a != "--probe"]
if "." in name:
    mod, key = name.split(".", 1)
    spec = importlib.import_module("units.%s.unit" % mod).UNITS[key]
else:
    spec = importlib.import_module("units.%s.unit" % name).UNIT
u = verus.VerusUnit(spec)
out, ranges, ledger = u.generate(probe)
os.makedirs("/tmp/devunit", exist_ok=True)
fn = "/tmp/devunit/%s.rs" % spec["name"]
open(fn, "w").write(out)
print("generated", fn, len(out.splitlines()), "lines")
r = subprocess.run(["verus", fn, "--multiple-errors", str(spec.get("multiple_errors", 8)), "--rlimit", str(spec.get("rlimit", 10)), "--num-threads", "8"] + extra, cwd="/tmp/devunit", timeout=1500)
sys.exit(r.returncode)
