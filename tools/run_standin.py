#!/usr/bin/env python3
"""usage: run_standin.py <property> [tier] - run only the bounded stand-in of a property on the tree under check (VERIF_REPO)"""
import sys, os, time
sys.path.insert(0, os.path.dirname(os.path.dirname(os.path.abspath(__file__))))
from vlib import standin
pid = sys.argv[1]; tier = sys.argv[2] if len(sys.argv) > 2 else "quick"
t = time.time(); obs, und = standin.run_property(pid, tier, int(os.environ.get("VERIF_SEED", "1")))
for o in obs:
    print(o["id"], o["status"], "cases=%d" % o["cases"], "%.1fs" % o.get("wall_s", 0), "failing=%s" % o.get("n_failing_cases", 0))
    for f in o.get("failures", [])[:6]:
        print("    ", f["witness"]["case"].get("id"), "|", f["message"][:400])
for u in und: print("UNDECIDED", u)
print("total %.1fs" % (time.time() - t))
