#!/usr/bin/env python3
"""Checks the checks against real breakage: every 'fix:' commit in /repo is a defect that existed.
For each (commit, property) pair of known_findings.json a scratch worktree of /repo's HEAD is made,
the fix is reverted there (git revert --no-commit), the property's check is run against it
(VERIF_REPO=<worktree>) and must end with exit 1 and a VIOLATION line. The worktree is removed.

usage: tools/selftest_history.py [property ...]        (default: all fixed entries)
"""
import json
import os
import shutil
import subprocess
import sys
import time

VERIF = os.path.dirname(os.path.dirname(os.path.abspath(__file__)))
REPO = "/repo"
BASE = os.environ.get("VERIF_SCRATCH", "/var/tmp")


def sh(cmd, **kw):
    return subprocess.run(cmd, shell=True, text=True, capture_output=True, **kw)


def main():
    want = set(sys.argv[1:])
    with open(os.path.join(VERIF, "known_findings.json")) as f:
        findings = [x for x in json.load(f)["findings"] if x["status"] == "fixed"]
    import importlib
    sys.path.insert(0, VERIF)
    props = importlib.import_module("props")
    rows = []
    seen = set()
    for fnd in findings:
        key = (fnd["commit"], fnd["property"])
        if key in seen or (want and fnd["property"] not in want):
            continue
        only = [c for c in os.environ.get("SELFTEST_COMMITS", "").split(",") if c]
        if only and not any(fnd["commit"].startswith(c) for c in only):
            continue
        seen.add(key)
        if fnd["property"] not in props.PROPS:
            rows.append((fnd["commit"], fnd["property"], "SKIP (property not claimed)", 0))
            continue
        wt = os.path.join(BASE, "p2sh-selftest-%d" % os.getpid())
        sh("git -C %s worktree remove --force %s" % (REPO, wt))
        shutil.rmtree(wt, ignore_errors=True)
        r = sh("git -C %s worktree add --detach %s HEAD" % (REPO, wt))
        if r.returncode != 0:
            rows.append((fnd["commit"], fnd["property"], "ERROR worktree: " + r.stderr[-200:], 0))
            continue
        try:
            r = sh("git -C %s revert --no-commit %s" % (wt, fnd["commit"]))
            if r.returncode != 0:
                rows.append((fnd["commit"], fnd["property"], "SKIP (revert conflicts with later fixes)", 0))
                continue
            t0 = time.time()
            env = dict(os.environ, VERIF_REPO=wt)
            c = subprocess.run([os.path.join(VERIF, "check"), fnd["property"]], cwd=VERIF, env=env, text=True, capture_output=True)
            viol = [l for l in c.stdout.splitlines() if l.startswith("VIOLATION")]
            verdict = "DETECTED" if (c.returncode == 1 and viol) else ("MISSED rc=%d" % c.returncode)
            detail = "; ".join(l for l in c.stderr.splitlines() if "failed obligation" in l)[:300]
            rows.append((fnd["commit"], fnd["property"], verdict + " " + detail, time.time() - t0))
        finally:
            sh("git -C %s worktree remove --force %s" % (REPO, wt))
            shutil.rmtree(wt, ignore_errors=True)
        print("%s %s %s (%.0fs)" % rows[-1], flush=True)
    missed = [r for r in rows if r[2].startswith("MISSED")]
    print("\n%d pairs, %d detected, %d missed, %d skipped" % (
        len(rows), sum(1 for r in rows if r[2].startswith("DETECTED")), len(missed),
        sum(1 for r in rows if r[2].startswith("SKIP"))))
    return 1 if missed else 0


if __name__ == "__main__":
    sys.exit(main())
