#!/bin/bash
# run every claimed property's quick check on /repo itself, sequentially; summary to stdout
cd "$(dirname "$0")/.."
for p in $(python3 -c "
import json
print(' '.join(c['property_id'] for c in json.load(open('MANIFEST.json'))['checks']))"); do
  s=$(date +%s)
  out=$(VERIF_SEED=1 VERIF_TIER=quick ./check $p --tier quick 2>/tmp/run_all_$p.err | tail -3)
  rc=$?
  echo "$p rc=${PIPESTATUS[0]} $(( $(date +%s) - s ))s | $(echo "$out" | tail -1) | $(grep -c UNDECIDED /tmp/run_all_$p.err) undecided"
done
