#!/usr/bin/env python3
"""Re-run the property check of every seeded change under /verif/seeded/ (not the harmless ones) against a fresh scratch
worktree of /repo HEAD with the patch applied; results go to meta.json (checks_now) and seeded/SUMMARY.md.
usage: eval_all_seeds.py [name-substring ...]"""
import glob, json, os, shutil, subprocess, sys, time
VERIF = os.path.dirname(os.path.dirname(os.path.abspath(__file__)))
def sh(cmd, **kw): return subprocess.run(cmd, shell=True, text=True, capture_output=True, **kw)
wt = "/var/tmp/p2sh-seedall-%d" % os.getpid()
head = sh("git -C /repo rev-parse --short HEAD").stdout.strip()
rows = []
for d in sorted(glob.glob(os.path.join(VERIF, "seeded", "C*"))):
    name = os.path.basename(d)
    if sys.argv[1:] and not any(a in name for a in sys.argv[1:]):
        continue
    mp = os.path.join(d, "meta.json")
    meta = json.load(open(mp))
    pid = meta["property"]
    sh("git -C /repo worktree remove --force %s" % wt); shutil.rmtree(wt, ignore_errors=True)
    assert sh("git -C /repo worktree add --detach %s HEAD" % wt).returncode == 0
    try:
        a = sh("git apply %s/patch.diff" % d, cwd=wt)
        if a.returncode != 0:
            a = sh("git apply --3way %s/patch.diff" % d, cwd=wt)
        if a.returncode != 0:
            meta["checks_now"] = dict(repo_head=head, error="patch no longer applies to HEAD")
            rows.append((name, pid, "n/a", "patch no longer applies"))
            json.dump(meta, open(mp, "w"), indent=1)
            continue
        t0 = time.time()
        c = subprocess.run([os.path.join(VERIF, "check"), pid], cwd=VERIF, env=dict(os.environ, VERIF_REPO=wt, VERIF_SEED="1"), text=True, capture_output=True)
        viol = [l for l in c.stdout.splitlines() if l.startswith("VIOLATION")]
        detail = [l.strip()[:400] for l in c.stderr.splitlines() if "failed obligation" in l or "failed stand-in" in l or "UNDECIDED" in l]
        meta["checks_now"] = dict(repo_head=head, at=time.strftime("%Y-%m-%d %H:%M:%S"), rc=c.returncode, violation_lines=viol, detail=detail[:8], wall_s=round(time.time() - t0))
        by = sorted(set(("stand-in" if "standin" in v else ("kani" if any(k in v for k in ("-ops-", "-headers-", "-prec-", "-codec-", "-pcapcodec-")) else "verus")) for v in viol))
        rows.append((name, pid, {0: "MISSED (exit 0)", 1: "caught", 2: "undecided (exit 2)"}.get(c.returncode, str(c.returncode)), ", ".join(by)))
        json.dump(meta, open(mp, "w"), indent=1)
        print(rows[-1], flush=True)
    finally:
        sh("git -C /repo worktree remove --force %s" % wt); shutil.rmtree(wt, ignore_errors=True)
# SUMMARY.md is assembled from every meta.json's checks_now (so partial / parallel runs add up)
allrows = []
for d in sorted(glob.glob(os.path.join(VERIF, "seeded", "C*"))):
    m = json.load(open(os.path.join(d, "meta.json")))
    cn = m.get("checks_now")
    if not cn:
        allrows.append((os.path.basename(d), m["property"], "not re-run", "", "")); continue
    if cn.get("error"):
        allrows.append((os.path.basename(d), m["property"], "n/a", cn["error"], cn.get("repo_head", ""))); continue
    viol = cn.get("violation_lines", [])
    by = sorted(set(("stand-in (failing input)" if "standin" in v else ("kani (counterexample)" if any(k in v for k in ("-ops-", "-headers-", "-prec-", "-codec-", "-pcapcodec-")) else "verus (failed obligation)")) for v in viol))
    allrows.append((os.path.basename(d), m["property"], {0: "MISSED (exit 0)", 1: "caught", 2: "undecided (exit 2)"}.get(cn.get("rc"), str(cn.get("rc"))), ", ".join(by), cn.get("repo_head", "")))
with open(os.path.join(VERIF, "seeded", "SUMMARY.md"), "w") as f:
    f.write("# Seeded changes vs. the checks (each re-run against /repo HEAD with the change applied in a scratch worktree)\n\n| change | property | outcome | reported by | /repo |\n|---|---|---|---|---|\n")
    for r in allrows:
        f.write("| %s | %s | %s | %s | %s |\n" % r)
