// p2x: index a Rust source file — item paths → byte spans (no rewriting here).
// Output is JSON consumed by /verif/vlib. Items are found by name, never by line.
use proc_macro2::{Span, TokenStream, TokenTree};
use quote::ToTokens;
use serde_json::{json, Value};
use syn::parse::{Parse, ParseStream};
use syn::spanned::Spanned;
use syn::visit::Visit;

fn br(s: Span) -> Value {
    let r = s.byte_range();
    json!([r.start, r.end])
}

fn norm(ts: TokenStream) -> String {
    // token string without whitespace, except between two ident-like tokens
    let mut out = String::new();
    fn rec(ts: TokenStream, out: &mut String) {
        for tt in ts {
            match tt {
                TokenTree::Group(g) => {
                    let (o, c) = match g.delimiter() {
                        proc_macro2::Delimiter::Parenthesis => ("(", ")"),
                        proc_macro2::Delimiter::Brace => ("{", "}"),
                        proc_macro2::Delimiter::Bracket => ("[", "]"),
                        proc_macro2::Delimiter::None => ("", ""),
                    };
                    out.push_str(o);
                    rec(g.stream(), out);
                    out.push_str(c);
                }
                TokenTree::Ident(i) => {
                    if out
                        .chars()
                        .last()
                        .map(|c| c.is_alphanumeric() || c == '_')
                        .unwrap_or(false)
                    {
                        out.push(' ');
                    }
                    out.push_str(&i.to_string());
                }
                TokenTree::Punct(p) => out.push(p.as_char()),
                TokenTree::Literal(l) => {
                    if out
                        .chars()
                        .last()
                        .map(|c| c.is_alphanumeric() || c == '_')
                        .unwrap_or(false)
                    {
                        out.push(' ');
                    }
                    out.push_str(&l.to_string())
                }
            }
        }
    }
    rec(ts, &mut out);
    out
}

struct BodyVisitor {
    loops: Vec<Value>,
    matches: Vec<Value>,
    macros: Vec<Value>,
    match_ord: usize,
}

impl<'ast> Visit<'ast> for BodyVisitor {
    fn visit_expr_while(&mut self, e: &'ast syn::ExprWhile) {
        self.loops.push(json!({"kind":"while","span":br(e.span()),"body":br(e.body.span()),
            "cond": br(e.cond.span()),
            "label": e.label.as_ref().map(|l| l.name.ident.to_string())}));
        syn::visit::visit_expr_while(self, e);
    }
    fn visit_expr_for_loop(&mut self, e: &'ast syn::ExprForLoop) {
        self.loops.push(json!({"kind":"for","span":br(e.span()),"body":br(e.body.span()),
            "pat": br(e.pat.span()), "expr": br(e.expr.span()),
            "label": e.label.as_ref().map(|l| l.name.ident.to_string())}));
        syn::visit::visit_expr_for_loop(self, e);
    }
    fn visit_expr_loop(&mut self, e: &'ast syn::ExprLoop) {
        self.loops.push(json!({"kind":"loop","span":br(e.span()),"body":br(e.body.span()),
            "label": e.label.as_ref().map(|l| l.name.ident.to_string())}));
        syn::visit::visit_expr_loop(self, e);
    }
    fn visit_expr_match(&mut self, e: &'ast syn::ExprMatch) {
        let ord = self.match_ord;
        self.match_ord += 1;
        let arms: Vec<Value> = e
            .arms
            .iter()
            .map(|a| {
                json!({"pat": norm(a.pat.to_token_stream()), "pat_span": br(a.pat.span()),
                "guard": a.guard.as_ref().map(|g| norm(g.1.to_token_stream())),
                "span": br(a.span()), "body": br(a.body.span()),
                "body_is_block": matches!(*a.body, syn::Expr::Block(_))})
            })
            .collect();
        self.matches.push(json!({"ord": ord, "span": br(e.span()), "scrutinee": norm(e.expr.to_token_stream()),
            "scrutinee_span": br(e.expr.span()), "arms": arms}));
        syn::visit::visit_expr_match(self, e);
    }
    fn visit_macro(&mut self, m: &'ast syn::Macro) {
        self.macros.push(json!({"path": norm(m.path.to_token_stream()), "span": br(m.span()),
            "tokens": br(m.tokens.span())}));
    }
}

fn fn_entry(
    path: String,
    attrs: &[syn::Attribute],
    vis_span: Option<Span>,
    sig: &syn::Signature,
    block: &syn::Block,
    whole: Span,
) -> Value {
    let mut bv = BodyVisitor {
        loops: vec![],
        matches: vec![],
        macros: vec![],
        match_ord: 0,
    };
    bv.visit_block(block);
    let recv = sig.receiver().map(|r| norm(r.to_token_stream()));
    let inputs: Vec<Value> = sig
        .inputs
        .iter()
        .map(|a| match a {
            syn::FnArg::Receiver(r) => json!({"self": norm(r.to_token_stream()), "span": br(r.span())}),
            syn::FnArg::Typed(t) => json!({"pat": norm(t.pat.to_token_stream()),
                "ty": norm(t.ty.to_token_stream()), "span": br(t.span()), "ty_span": br(t.ty.span())}),
        })
        .collect();
    let output = match &sig.output {
        syn::ReturnType::Default => Value::Null,
        syn::ReturnType::Type(_, t) => json!({"span": br(t.span()), "ty": norm(t.to_token_stream())}),
    };
    let start_noattr = match vis_span {
        Some(v) if v.byte_range().start != v.byte_range().end => v.byte_range().start,
        _ => sig.span().byte_range().start,
    };
    let _ = attrs;
    json!({"path": path, "kind": "fn", "span": br(whole), "start_noattr": start_noattr,
        "sig": br(sig.span()), "name": sig.ident.to_string(), "name_span": br(sig.ident.span()),
        "paren": br(sig.paren_token.span.join()),
        "generics": norm(sig.generics.to_token_stream()),
        "recv": recv, "inputs": inputs, "output": output, "block": br(block.span()),
        "loops": bv.loops, "matches": bv.matches, "macros": bv.macros})
}

struct LazyStatics(Vec<(syn::Visibility, syn::Ident, syn::Type, syn::Expr)>);
impl Parse for LazyStatics {
    fn parse(input: ParseStream) -> syn::Result<Self> {
        let mut v = vec![];
        while !input.is_empty() {
            let _attrs = input.call(syn::Attribute::parse_outer)?;
            let vis: syn::Visibility = input.parse()?;
            input.parse::<syn::Token![static]>()?;
            input.parse::<syn::Token![ref]>()?;
            let name: syn::Ident = input.parse()?;
            input.parse::<syn::Token![:]>()?;
            let ty: syn::Type = input.parse()?;
            input.parse::<syn::Token![=]>()?;
            let e: syn::Expr = input.parse()?;
            input.parse::<syn::Token![;]>()?;
            v.push((vis, name, ty, e));
        }
        Ok(LazyStatics(v))
    }
}

fn walk_items(items: &[syn::Item], prefix: &str, out: &mut Vec<Value>) {
    for it in items {
        match it {
            syn::Item::Fn(f) => {
                let vs = match &f.vis {
                    syn::Visibility::Inherited => None,
                    v => Some(v.span()),
                };
                out.push(fn_entry(
                    format!("{}{}", prefix, f.sig.ident),
                    &f.attrs,
                    vs,
                    &f.sig,
                    &f.block,
                    f.span(),
                ));
            }
            syn::Item::Struct(s) => {
                let fields: Vec<Value> = s
                    .fields
                    .iter()
                    .map(|f| json!({"name": f.ident.as_ref().map(|i| i.to_string()),
                        "ty": norm(f.ty.to_token_stream()), "span": br(f.span()), "ty_span": br(f.ty.span()),
                        "vis": norm(f.vis.to_token_stream())}))
                    .collect();
                let start_noattr = match &s.vis {
                    syn::Visibility::Inherited => s.struct_token.span.byte_range().start,
                    v => v.span().byte_range().start,
                };
                out.push(json!({"path": format!("{}{}", prefix, s.ident), "kind": "struct",
                    "span": br(s.span()), "start_noattr": start_noattr, "fields": fields}));
            }
            syn::Item::Enum(e) => {
                let start_noattr = match &e.vis {
                    syn::Visibility::Inherited => e.enum_token.span.byte_range().start,
                    v => v.span().byte_range().start,
                };
                let variants: Vec<Value> = e
                    .variants
                    .iter()
                    .map(|v| json!({"name": v.ident.to_string(), "span": br(v.span()),
                        "attrs": v.attrs.iter().map(|a| br(a.span())).collect::<Vec<_>>(),
                        "fields": norm(v.fields.to_token_stream())}))
                    .collect();
                out.push(json!({"path": format!("{}{}", prefix, e.ident), "kind": "enum",
                    "span": br(e.span()), "start_noattr": start_noattr, "variants": variants}));
            }
            syn::Item::Const(c) => {
                out.push(json!({"path": format!("{}{}", prefix, c.ident), "kind": "const",
                    "span": br(c.span()), "ty": norm(c.ty.to_token_stream()), "expr": norm(c.expr.to_token_stream())}));
            }
            syn::Item::Impl(im) => {
                let self_ty = norm(im.self_ty.to_token_stream());
                let head = match &im.trait_ {
                    Some((_, p, _)) => format!("impl {} for {}", norm(p.to_token_stream()), self_ty),
                    None => self_ty.clone(),
                };
                out.push(json!({"path": format!("{}{}", prefix, head), "kind": "impl",
                    "span": br(im.span()), "generics": norm(im.generics.to_token_stream()),
                    "brace": br(im.brace_token.span.join())}));
                for ii in &im.items {
                    if let syn::ImplItem::Fn(f) = ii {
                        let vs = match &f.vis {
                            syn::Visibility::Inherited => None,
                            v => Some(v.span()),
                        };
                        let mut e = fn_entry(
                            format!("{}{}::{}", prefix, head, f.sig.ident),
                            &f.attrs,
                            vs,
                            &f.sig,
                            &f.block,
                            f.span(),
                        );
                        e["impl_generics"] = json!(norm(im.generics.to_token_stream()));
                        e["impl_head"] = json!(head);
                        e["impl_trait"] = json!(im.trait_.is_some());
                        out.push(e);
                    }
                    if let syn::ImplItem::Const(c) = ii {
                        out.push(json!({"path": format!("{}{}::{}", prefix, head, c.ident), "kind": "const",
                            "span": br(c.span()), "ty": norm(c.ty.to_token_stream()), "expr": norm(c.expr.to_token_stream())}));
                    }
                }
            }
            syn::Item::Mod(m) => {
                if let Some((_, items)) = &m.content {
                    walk_items(items, &format!("{}{}::", prefix, m.ident), out);
                }
            }
            syn::Item::Macro(m) => {
                let name = norm(m.mac.path.to_token_stream());
                if name == "lazy_static" {
                    match syn::parse2::<LazyStatics>(m.mac.tokens.clone()) {
                        Ok(ls) => {
                            for (_v, n, ty, e) in ls.0 {
                                let mut bv = BodyVisitor { loops: vec![], matches: vec![], macros: vec![], match_ord: 0 };
                                bv.visit_expr(&e);
                                out.push(json!({"path": format!("{}lazy_static::{}", prefix, n), "kind": "lazy_static",
                                    "span": br(m.span()), "ty": norm(ty.to_token_stream()), "ty_span": br(ty.span()),
                                    "init": br(e.span()), "macros": bv.macros}));
                            }
                        }
                        Err(err) => {
                            out.push(json!({"path": format!("{}lazy_static::?", prefix), "kind": "error", "error": err.to_string()}));
                        }
                    }
                }
            }
            syn::Item::Trait(t) => {
                out.push(json!({"path": format!("{}{}", prefix, t.ident), "kind": "trait", "span": br(t.span())}));
            }
            syn::Item::Type(t) => {
                out.push(json!({"path": format!("{}{}", prefix, t.ident), "kind": "type", "span": br(t.span())}));
            }
            syn::Item::Static(s) => {
                out.push(json!({"path": format!("{}{}", prefix, s.ident), "kind": "static", "span": br(s.span())}));
            }
            _ => {}
        }
    }
}

fn main() {
    let args: Vec<String> = std::env::args().collect();
    if args.len() < 3 || args[1] != "index" {
        eprintln!("usage: p2x index <file.rs>...");
        std::process::exit(2);
    }
    let mut all = serde_json::Map::new();
    for path in &args[2..] {
        let src = match std::fs::read_to_string(path) {
            Ok(s) => s,
            Err(e) => {
                eprintln!("p2x: cannot read {}: {}", path, e);
                std::process::exit(2);
            }
        };
        let file = match syn::parse_file(&src) {
            Ok(f) => f,
            Err(e) => {
                eprintln!("p2x: parse error in {}: {}", path, e);
                std::process::exit(2);
            }
        };
        let mut out = vec![];
        walk_items(&file.items, "", &mut out);
        all.insert(path.clone(), json!({"len": src.len(), "items": out}));
    }
    println!("{}", serde_json::to_string(&Value::Object(all)).unwrap());
}
