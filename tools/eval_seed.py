#!/usr/bin/env python3
"""usage: eval_seed.py <property> <dir with patch.diff, demo.sh, NOTES.md> <name> [other properties to check too]
Confirms a seeded change in a fresh scratch worktree (tests pass with it, demo passes without it and fails with it),
runs the property's check against the patched tree, and files everything under /verif/seeded/<name>/."""
import json, os, shutil, subprocess, sys, time
VERIF = os.path.dirname(os.path.dirname(os.path.abspath(__file__)))
pid, src, name = sys.argv[1], os.path.realpath(sys.argv[2]), sys.argv[3]
others = sys.argv[4:]
wt = "/var/tmp/p2sh-seedeval-%d" % os.getpid()
def sh(cmd, **kw): return subprocess.run(cmd, shell=True, text=True, capture_output=True, **kw)
sh("git -C /repo worktree remove --force %s" % wt); shutil.rmtree(wt, ignore_errors=True)
assert sh("git -C /repo worktree add --detach %s HEAD" % wt).returncode == 0
meta = dict(property=pid, name=name, confirmed_at=time.strftime("%Y-%m-%d %H:%M:%S"), repo_head=sh("git -C /repo rev-parse --short HEAD").stdout.strip())
try:
    demo = open(os.path.join(src, "demo.sh")).read()
    import re
    demo = re.sub(r"/tmp/seed\d*/C\d+", wt, demo)
    open(os.path.join(wt, "demo.sh"), "w").write(demo); os.chmod(os.path.join(wt, "demo.sh"), 0o755)
    sh("cargo build --offline -q", cwd=wt)
    r0 = sh("./demo.sh", cwd=wt); meta["demo_without_patch_rc"] = r0.returncode
    a = sh("git apply %s/patch.diff" % src, cwd=wt)
    if a.returncode != 0:
        print("patch does not apply:", a.stderr); sys.exit(2)
    t = sh("cargo test --offline 2>&1 | grep -E 'test result'", cwd=wt); meta["tests_with_patch"] = t.stdout.strip()
    sh("cargo build --offline -q", cwd=wt)
    r1 = sh("./demo.sh", cwd=wt); meta["demo_with_patch_rc"] = r1.returncode
    meta["confirmed"] = (r0.returncode == 0 and r1.returncode != 0 and "184 passed; 0 failed" in t.stdout)
    meta["checks"] = {}
    for p in [pid] + others:
        env = dict(os.environ, VERIF_REPO=wt)
        c = subprocess.run([os.path.join(VERIF, "check"), p], cwd=VERIF, env=env, text=True, capture_output=True)
        viol = [l for l in c.stdout.splitlines() if l.startswith("VIOLATION")]
        fails = [l.strip() for l in c.stderr.splitlines() if "failed obligation" in l or "UNDECIDED" in l]
        meta["checks"][p] = dict(rc=c.returncode, violation_lines=viol, detail=fails[:6])
    meta["detected_by"] = [p for p, v in meta["checks"].items() if v["rc"] == 1 and v["violation_lines"]]
finally:
    sh("git -C /repo worktree remove --force %s" % wt); shutil.rmtree(wt, ignore_errors=True)
dst = os.path.join(VERIF, "seeded", name)
os.makedirs(dst, exist_ok=True)
for f in ("patch.diff", "demo.sh", "NOTES.md"):
    if os.path.exists(os.path.join(src, f)): shutil.copy(os.path.join(src, f), os.path.join(dst, f))
notes = open(os.path.join(src, "NOTES.md")).read() if os.path.exists(os.path.join(src, "NOTES.md")) else ""
meta["needs_to_manifest"] = notes[:1500]
meta["ran"] = ["git worktree add (fresh, /repo HEAD)", "./demo.sh (without patch)", "git apply patch.diff", "cargo test --offline", "./demo.sh (with patch)"] + ["VERIF_REPO=<worktree> ./check %s" % p for p in [pid] + others]
json.dump(meta, open(os.path.join(dst, "meta.json"), "w"), indent=1)
print(json.dumps({k: meta[k] for k in ("confirmed", "tests_with_patch", "demo_without_patch_rc", "demo_with_patch_rc", "detected_by")}, indent=1))
for p, v in meta["checks"].items(): print(p, v["rc"], v["violation_lines"][:2], v["detail"][:3])
