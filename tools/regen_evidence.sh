#!/bin/bash
# usage: tools/regen_evidence.sh [property ...]   (default: the six properties the cgen unit serves)
# re-runs the quick check of each property on /repo itself so that its evidence file is rewritten; one summary line each
cd "$(dirname "$0")/.."
for p in ${@:-C14 C13 C06 C04 C09 C01}; do
  s=$(date +%s)
  out=$(VERIF_SEED=1 VERIF_TIER=quick ./check $p --tier quick 2>/tmp/regen_$p.err | tail -1)
  echo "$p rc=$? $(( $(date +%s) - s ))s | $out | $(grep -c UNDECIDED /tmp/regen_$p.err) undecided"
done
