#!/usr/bin/env python3
"""Record the shape baseline (identifier vocabulary, loop count, text hash) of every contracted item of every Verus unit
from the UNCHANGED tree (/repo at its committed HEAD). Run after every fix: commit in /repo; the result is committed."""
import os, subprocess, sys
sys.path.insert(0, os.path.dirname(os.path.dirname(os.path.abspath(__file__))))
from vlib import core, verus, baseline
import props
import importlib

assert os.path.realpath(core.REPO) == "/repo"
dirty = subprocess.run("git -C /repo status --porcelain -- src", shell=True, capture_output=True, text=True).stdout.strip()
assert not dirty, "refusing: /repo/src has uncommitted changes"
core.ensure_p2x()
units = sorted({n for v in props.PROPS.values() for k, n in v["units"] if k == "verus"})
for name in units:
    if "." in name:
        modname, key = name.split(".", 1)
        spec = importlib.import_module("units.%s.unit" % modname).UNITS[key]
    else:
        spec = importlib.import_module("units.%s.unit" % name).UNIT
    u = verus.VerusUnit(spec)
    out, ranges, ledger = u.generate(False)
    ent = {}
    for (a, b, label, meta) in ranges:
        if meta and meta.get("contracted") and meta.get("src"):
            t = baseline.item_text(meta)
            ent[label] = dict(idents=sorted(baseline.idents(t)), loops=baseline.loops(t), sha=baseline.sha(t))
    baseline.record(spec["name"], ent)
    print(spec["name"], len(ent))
