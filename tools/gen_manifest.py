#!/usr/bin/env python3
"""Regenerate /verif/MANIFEST.json from props.py (claimed properties) and NOT_APPLICABLE below."""
import json, os, sys
sys.path.insert(0, os.path.dirname(os.path.dirname(os.path.abspath(__file__))))
import props

NOT_APPLICABLE = props.NOT_APPLICABLE

m = dict(
    version=1,
    setup_cmd="cargo build --offline --release --manifest-path tools/extract/Cargo.toml && python3 tools/prebuild.py",
    hooks=dict(
        guard="cfg(kani)",
        enable="no hook lives in /repo: contracts and harness modules are spliced onto a scratch copy of /repo's working tree on every run (cargo kani sets cfg(kani); verus reads functions extracted by tools/extract)",
        baseline_off_cmd="cd /repo && cargo test --workspace --no-fail-fast --offline",
        source_commits=[],
        add_only=True,
    ),
    engines=[
        dict(name="verus-splice", path="vlib/verus.py", serves_properties=sorted(p for p, v in props.PROPS.items() if any(k == "verus" for k, _ in v["units"])),
             kind_free_text="deductive verification (Verus/Z3) of functions extracted mechanically from /repo on every run, contracts spliced from units/*/unit.py"),
        dict(name="kani-append", path="vlib/kani.py", serves_properties=sorted(p for p, v in props.PROPS.items() if any(k == "kani" for k, _ in v["units"])),
             kind_free_text="Kani/CBMC harness-contracts appended to a scratch copy of the real crate; loop-free full-domain harnesses are complete, others labelled bounded"),
        dict(name="standin", path="vlib/standin.py", serves_properties=sorted(props.PROPS),
             kind_free_text="bounded stand-ins: executable forms of the top-level postconditions run against the interpreter binary built from the tree under check (standins/<ID>.py); labelled bounded, never counted as discharged; they supply the failing input a failed Verus obligation lacks and stand in where a changed function is outside the verifier's reach"),
    ],
    checks=[],
    notes="exit 2 = undecided (tool limit, lost anchor, rewrite mismatch, timeout); never printed as VIOLATION. See DESIGN.md.",
    not_applicable=[dict(property_id=k, reason=v) for k, v in sorted(NOT_APPLICABLE.items()) if k not in props.PROPS],
)
for pid in sorted(props.PROPS):
    P = props.PROPS[pid]
    m["checks"].append(dict(
        property_id=pid,
        quick_cmd="./check %s --tier quick" % pid,
        thorough_cmd="./check %s --tier thorough" % pid,
        evidence_file="/verif/evidence/%s.json" % pid,
        replay_cmd_template="./check %s --replay {path}" % pid,
        engine="+".join(sorted(set("verus-splice" if k == "verus" else "kani-append" for k, _ in P["units"])) + ["standin"]),
        level_claimed=dict(category="proof", text=P.get("level_text", P.get("explanation", "")), design_ref="DESIGN.md §5/%s" % pid),
        level_note="Not covered by a contract: " + "; ".join(P.get("not_covered", [])) + ". Assumed: " + "; ".join(P.get("assumptions", [])) +
                   ". Bounded stand-in (standins/%s.py, reported under bounded_checks): the property's own postcondition on the real binary over a finite generated input set; a failing input is replayed on the real code before any VIOLATION line." % pid,
        technique=P.get("technique", "contract-based deductive verification: Verus on mechanically extracted real functions + Kani harness contracts on the real crate; bounded stand-in (labelled bounded, not counted as proved): the property's postcondition executed on the real binary over a stated finite input set"),
    ))
with open(os.path.join(os.path.dirname(os.path.dirname(os.path.abspath(__file__))), "MANIFEST.json"), "w") as f:
    json.dump(m, f, indent=1)
print("MANIFEST.json: %d checks, %d not applicable" % (len(m["checks"]), len(m["not_applicable"])))
