"""Splice-and-verify for Verus: extract real items from /repo, splice contracts, run verus."""
import json
import time
import os
import re

from . import core
from .core import Undecided

FAIL_PATTERNS = [
    "postcondition not satisfied",
    "precondition not satisfied",
    "possible arithmetic underflow/overflow",
    "invariant not satisfied",
    "assertion failed",
    "possible division by zero",
    "index out of bounds",
    "decreases not satisfied",
    "loop invariant not preserved",
    "unreachable",
    "possible bit shift underflow/overflow",
    "failed precondition",
    "cannot show invariant holds",
    "recommendation not met",
    "could not prove termination",
]
# messages that mean "the tool gave up", never a property failure
LIMIT_PATTERNS = ["Resource limit (rlimit) exceeded", "rlimit", "timed out", "cancelled"]

TRUST_MARKERS = ["assume(", "admit(", "external_body", "assume_specification",
                 "verifier::external", "#[verifier(external", "verifier::exec_allows_no_decreases_clause",
                 "no_decreases", "accept_recursive_types", "reject_recursive_types"]


STRICT_RULES = {"R7", "R9"}


def _mk(s):
    return "/*@%s@*/" % s


class Ledger:
    def __init__(self):
        self.entries = []

    def add(self, **kw):
        self.entries.append(kw)


def _apply_rewrites(txt, rewrites, ledger, where):
    for rw in rewrites:
        if rw.get("func"):
            # a structural rule that a regular expression cannot express (needs brace matching): func(text) -> (text, [(before, after)])
            txt, changes = rw["func"](txt)
            for b, a in changes:
                ledger.add(where=where, rule=rw.get("rule", "?"), before=b[:200], after=a[:200], why=rw.get("why", ""))
            continue
        rx = re.compile(rw["re"], rw.get("flags", re.M | re.S))
        matches = list(rx.finditer(txt))
        exp = rw.get("expect")
        if exp is not None and len(matches) != exp and not (exp == "+" and matches):
            # A rule that inserts a proof obligation or identifies a callback must match exactly (otherwise an
            # obligation would silently disappear): undecided. Any other rule only adapts a construct Verus cannot
            # type; when the construct is not there (the code changed shape) the real code goes to Verus as it is,
            # which either verifies it, refutes it, or rejects it as unsupported (exit 2).
            if rw.get("rule") in STRICT_RULES or rw.get("strict"):
                raise Undecided("rewrite mismatch: rule %s `%s` matched %d times in %s (expected %s)"
                                % (rw.get("rule", "?"), rw["re"], len(matches), where, exp))
            ledger.add(where=where, rule=rw.get("rule", "?"), before="(pattern matched %d times, expected %s)" % (len(matches), exp),
                       after="(rule applied to the matches found)", why="code shape differs from the one the rule was written for")
        if not matches:
            continue
        if rw.get("nth") is not None:
            # the rule applies to one occurrence only (counted from 0; negative: from the end)
            k = rw["nth"]
            if not (-len(matches) <= k < len(matches)):
                ledger.add(where=where, rule=rw.get("rule", "?"), before="(occurrence %d of %d)" % (k, len(matches)), after="(absent)", why="code shape differs from the one the rule was written for")
                continue
            m = matches[k]
            ledger.add(where=where, rule=rw.get("rule", "?"), before=m.group(0)[:200], after=m.expand(rw["to"])[:200], why=rw.get("why", ""))
            txt = txt[:m.start()] + m.expand(rw["to"]) + txt[m.end():]
            continue
        for m in matches:
            ledger.add(where=where, rule=rw.get("rule", "?"), before=m.group(0)[:200],
                       after=m.expand(rw["to"])[:200] if isinstance(rw["to"], str) else "<fn>",
                       why=rw.get("why", ""))
        txt = rx.sub(rw["to"], txt)
    return txt


def _clauses(kw, lst, indent="    "):
    if not lst:
        return ""
    if isinstance(lst, str):
        lst = [lst]
    return "%s%s\n%s\n" % (indent, kw, "".join("%s    %s,\n" % (indent, c) for c in lst))


def emit_fn(item, ledger, global_rewrites, probe=False):
    """Return (impl_head or None, text) for a function item spliced with its contract."""
    idx, it = core.find_item(item["file"], item["path"], "fn", item.get("nth", 0))
    src = idx["src"]
    s0 = it["start_noattr"]
    e0 = it["span"][1]
    ins = []  # (abs offset, text)
    blk = it["block"]
    # output wrap
    retname = item.get("ret", "ret")
    if it["output"] is not None:
        o = it["output"]["span"]
        ins.append((o[0], _mk("RS")))
        ins.append((o[1], _mk("RE")))
    ins.append((blk[0], _mk("CONTRACT")))
    ins.append((blk[0] + 1, _mk("PROLOGUE")))
    if item.get("epilogue"):
        ins.append((blk[1] - 1, _mk("EPILOGUE")))
    for n, lp in enumerate(it["loops"]):
        ins.append((lp["body"][0], _mk("L%d" % n)))
        ins.append((lp["body"][0] + 1, _mk("LB%d" % n)))
        ins.append((lp["span"][1], _mk("LA%d" % n)))
        ins.append((lp["body"][1] - 1, _mk("LE%d" % n)))
    ins.sort(key=lambda x: -x[0])
    txt = src[s0:e0]
    for off, m in ins:
        txt = txt[:off - s0] + m.encode() + txt[off - s0:]
    txt = txt.decode()
    where = "%s::%s" % (item["file"], item["path"])
    txt = _apply_rewrites(txt, item.get("rewrites", []) + global_rewrites, ledger, where)
    # R0: pub
    if not txt.lstrip().startswith("pub"):
        txt = "pub " + txt
    if item.get("rename"):
        txt = re.sub(r"\bfn\s+%s\b" % re.escape(it["name"]), "fn " + item["rename"], txt, count=1)
    if item.get("mode"):  # e.g. turn into `proof fn`/ keep exec
        pass
    # contract
    contract = "\n"
    contract += _clauses("requires", item.get("requires"))
    contract += _clauses("ensures", item.get("ensures"))
    if item.get("decreases"):
        contract += "    decreases %s,\n" % item["decreases"]
    if item.get("no_unwind"):
        contract += "    no_unwind\n"
    txt = txt.replace(_mk("CONTRACT"), contract)
    prologue = item.get("prologue", "")
    if probe:
        prologue = " proof { assert(false); } " + prologue
    if item.get("epilogue"):
        # proof-only text placed after the body: the body becomes the initialiser of one binding, the proof block follows it,
        # the binding is the function's value (early returns inside the body do not pass through the proof block)
        prologue = prologue + " let verif_ret = {"
        txt = txt.replace(_mk("EPILOGUE"), "}; proof { " + item["epilogue"] + " } verif_ret ")
        ledger.add(where=where, rule="R9", before="{ <body> }", after="{ let verif_ret = { <body> }; proof { ... } verif_ret }", why="proof-only block after the body")
    txt = txt.replace(_mk("PROLOGUE"), prologue)
    if it["output"] is not None:
        txt = txt.replace(_mk("RS"), "(%s: " % retname).replace(_mk("RE"), ")")
    loops = item.get("loops", {})
    for n, lp in enumerate(it["loops"]):
        spec = loops.get(n, {})
        c = "\n"
        c += _clauses("invariant_except_break", spec.get("invariant_except_break"), "        ")
        c += _clauses("invariant", spec.get("invariant"), "        ")
        c += _clauses("ensures", spec.get("ensures"), "        ")
        if spec.get("decreases"):
            c += "            decreases %s,\n" % spec["decreases"]
        txt = txt.replace(_mk("L%d" % n), c if c.strip() else "")
        txt = txt.replace(_mk("LB%d" % n), spec.get("body_prologue", ""))
        after = spec.get("after", "")
        txt = txt.replace(_mk("LA%d" % n), (";" + after) if after else "")
        txt = txt.replace(_mk("LE%d" % n), spec.get("body_epilogue", ""))
    for n in loops:
        if n >= len(it["loops"]):
            # the function no longer has that loop (code changed shape): its invariant has nothing to attach to;
            # the function goes to Verus as it is and is verified, refuted or rejected on its own merits
            ledger.add(where=where, rule="L", before="loop #%d" % n, after="(absent)", why="loop contract not applied: the function has fewer loops than the unit expects")
    # auxiliary functions cut out of the item's own text (e.g. the body of a closure passed to a std adapter that
    # Verus cannot type): the captured expression is verified as a function of its own, next to the item
    orig = src[s0:e0].decode()
    for aux in item.get("aux", []):
        am = re.search(aux["re"], orig, re.M | re.S)
        if not am:
            raise Undecided("lost anchor: auxiliary pattern `%s` not found in %s" % (aux["re"], where))
        atxt = am.expand(aux["template"])
        atxt = _apply_rewrites(atxt, aux.get("rewrites", []) + global_rewrites, ledger, where + "[aux]")
        ledger.add(where=where, rule="R7", before=am.group(0)[:200], after=atxt[:200], why=aux.get("why", "closure body verified as a function"))
        txt = txt + "\n" + atxt
    attrs = "".join(a + "\n" for a in item.get("attrs", []))
    head = None if item.get("free") else it.get("impl_head")
    if head and it.get("impl_trait") and not item.get("keep_trait"):
        raise Undecided("trait method %s needs free=True or keep_trait" % where)
    gen = it.get("impl_generics", "")
    return head, gen, attrs + txt, (idx, it)


def emit_type(item, ledger, global_rewrites):
    idx, it = core.find_item(item["file"], item["path"], item["kind"], item.get("nth", 0))
    src = idx["src"]
    s0 = it["start_noattr"]
    txt = src[s0:it["span"][1]]
    ins = []
    if it["kind"] == "struct":
        for f in it["fields"]:
            if f["vis"] == "" and f["name"]:
                # skip field attributes (#[...]) so that `pub` lands in front of the field name
                pos = f["span"][0]
                ftxt = src[pos:f["span"][1]]
                while True:
                    mm = re.match(rb"\s*#\[[^\]]*\]\s*", ftxt)
                    if not mm:
                        break
                    pos += mm.end()
                    ftxt = ftxt[mm.end():]
                ins.append((pos, b"pub "))
    if it["kind"] == "enum":
        # strip variant attributes such as #[default]
        for v in it["variants"]:
            for a in v["attrs"]:
                ins.append((a, None))
    out = bytearray(txt)
    for x in sorted(ins, key=lambda x: -(x[0][0] if isinstance(x[0], list) else x[0])):
        if x[1] is None:
            a = x[0]
            ledger.add(where=item["path"], rule="R1", before=src[a[0]:a[1]].decode(), after="", why="attribute dropped")
            out[a[0] - s0:a[1] - s0] = b""
        else:
            out[x[0] - s0:x[0] - s0] = x[1]
    txt = out.decode()
    where = "%s::%s" % (item["file"], item["path"])
    txt = _apply_rewrites(txt, item.get("rewrites", []) + global_rewrites, ledger, where)
    if not txt.lstrip().startswith("pub"):
        txt = "pub " + txt
    attrs = "".join(a + "\n" for a in item.get("attrs", []))
    return attrs + txt, (idx, it)


def emit_lazy(item, ledger, global_rewrites, probe=False):
    """R6: `static ref T: Ty = INIT;` -> `fn T_init() -> (r: Ty) ensures.. { INIT }`"""
    idx, it = core.find_item(item["file"], item["path"], "lazy_static")
    src = idx["src"]
    init = src[it["init"][0]:it["init"][1]].decode()
    ty = item.get("ty") or src[it["ty_span"][0]:it["ty_span"][1]].decode()
    where = "%s::%s" % (item["file"], item["path"])
    init = _apply_rewrites(init, item.get("rewrites", []) + global_rewrites, ledger, where)
    ledger.add(where=where, rule="R6", before="lazy_static! static ref", after="fn %s()" % item["fn_name"],
               why="initializer verified as a function; lazy_static evaluates it once")
    contract = "\n" + _clauses("ensures", item.get("ensures"))
    pro = item.get("prologue", "")
    if probe:
        pro = " proof { assert(false); } " + pro
    if not init.lstrip().startswith("{"):
        init = "{ " + init + " }"
    init = init.lstrip()
    init = "{" + pro + init[1:]
    txt = "pub fn %s() -> (%s: %s)%s%s\n" % (item["fn_name"], item.get("ret", "ret"), ty, contract, init)
    return txt, (idx, it)


def emit_arm(item, ledger, global_rewrites, probe=False):
    """R8: one arm of a match inside a function becomes a function of its own."""
    idx, it = core.find_item(item["file"], item["path"], "fn", item.get("nth", 0))
    src = idx["src"]
    arm = None
    for m in it["matches"]:
        if item.get("scrutinee") and m["scrutinee"] != item["scrutinee"]:
            continue
        for a in m["arms"]:
            if a["pat"] == item["arm"]:
                arm = a
                break
        if arm:
            break
    if arm is None:
        raise Undecided("lost anchor: arm `%s` in %s::%s" % (item["arm"], item["file"], item["path"]))
    body = src[arm["body"][0]:arm["body"][1]].decode()
    where = "%s::%s[%s]" % (item["file"], item["path"], item["arm"])
    # loops inside the arm: ordinal relative to the arm
    inner = [l for l in it["loops"] if arm["body"][0] <= l["span"][0] and l["span"][1] <= arm["body"][1]]
    ins = []
    for n, lp in enumerate(inner):
        ins.append((lp["body"][0] - arm["body"][0], _mk("L%d" % n)))
    for off, m in sorted(ins, key=lambda x: -x[0]):
        b = body.encode()
        body = (b[:off] + m.encode() + b[off:]).decode()
    body = _apply_rewrites(body, item.get("rewrites", []) + global_rewrites, ledger, where)
    loops = item.get("loops", {})
    for n, lp in enumerate(inner):
        spec = loops.get(n, {})
        c = "\n" + _clauses("invariant", spec.get("invariant"), "        ")
        if spec.get("decreases"):
            c += "            decreases %s,\n" % spec["decreases"]
        body = body.replace(_mk("L%d" % n), c if c.strip() else "")
    ledger.add(where=where, rule="R8", before="match arm", after="fn %s" % item["fn_name"],
               why="arm body verified as a function; loop header and dispatch match are outside")
    contract = "\n" + _clauses("requires", item.get("requires")) + _clauses("ensures", item.get("ensures"))
    pro = item.get("prologue", "")
    if probe:
        pro = " proof { assert(false); } " + pro
    if not arm["body_is_block"]:
        body = "{ " + body + " }"
    tail = item.get("tail", "")
    if item.get("wrap"):   # the arm is an expression whose value the enclosing function wraps, e.g. Ok(<arm value>)
        body = item["wrap"] % body
    body = "{" + pro + " " + body + tail + " }"
    txt = "pub fn %s(%s) -> (%s: %s)%s%s\n" % (item["fn_name"], item["params"], item.get("ret", "ret"),
                                             item["ret_ty"], contract, body)
    return txt, (idx, it, arm)


class VerusUnit:
    def __init__(self, spec):
        self.spec = spec
        self.name = spec["name"]

    def generate(self, probe=False):
        spec = self.spec
        ledger = Ledger()
        gl = spec.get("global_rewrites", [])
        parts = []  # (label, text, meta)
        prelude_path = spec.get("prelude")
        if prelude_path:
            for pp in ([prelude_path] if isinstance(prelude_path, str) else prelude_path):
                with open(os.path.join(core.VERIF, pp)) as f:
                    parts.append(("prelude", f.read(), None))
        cur_head = None
        for item in spec["items"]:
            k = item.get("kind", "fn")
            if k == "raw":
                if cur_head is not None:
                    parts.append(("close", "}\n", None))
                    cur_head = None
                txt = item["text"]
                if item.get("file_text"):
                    with open(os.path.join(core.VERIF, item["file_text"])) as f:
                        txt = f.read()
                parts.append((item.get("label", "raw"), txt, None))
                continue
            if k in ("struct", "enum"):
                if cur_head is not None:
                    parts.append(("close", "}\n", None))
                    cur_head = None
                txt, meta = emit_type(item, ledger, gl)
                parts.append((item["path"], txt + "\n", dict(item=item, src=meta)))
                continue
            if k == "lazy":
                if cur_head is not None:
                    parts.append(("close", "}\n", None))
                    cur_head = None
                txt, meta = emit_lazy(item, ledger, gl, probe and not item.get("no_probe"))
                parts.append((item["fn_name"], txt, dict(item=item, src=meta, contracted=True)))
                continue
            if k == "arm":
                head = item.get("impl")
                if head != cur_head:
                    if cur_head is not None:
                        parts.append(("close", "}\n", None))
                    if head:
                        parts.append(("open", "impl %s {\n" % head, None))
                    cur_head = head
                txt, meta = emit_arm(item, ledger, gl, probe and not item.get("no_probe"))
                parts.append((item["fn_name"], txt, dict(item=item, src=meta, contracted=True)))
                continue
            head, gen, txt, meta = emit_fn(item, ledger, gl, probe and not item.get("no_probe"))
            if item.get("impl"):
                head = item["impl"]
            if head != cur_head:
                if cur_head is not None:
                    parts.append(("close", "}\n", None))
                if head:
                    parts.append(("open", "impl%s %s {\n" % (gen, head), None))
                cur_head = head
            parts.append((item.get("rename") or item["path"], txt + "\n",
                          dict(item=item, src=meta, contracted=True)))
        if cur_head is not None:
            parts.append(("close", "}\n", None))
        header = ("// GENERATED by /verif from %s's working tree — do not edit.\n"
                  "#![allow(unused_imports, unused_variables, unused_mut, dead_code, unused_assignments, unreachable_code, unused_parens, non_snake_case, non_camel_case_types, unused_braces)]\n"
                  "use vstd::prelude::*;\n%s\nverus! {\n" % (core.REPO, spec.get("uses", "")))
        out = header
        ranges = []
        for label, txt, meta in parts:
            start = len(out.encode())
            out += txt
            ranges.append((start, len(out.encode()), label, meta))
        out += "\n} // verus!\nfn main() {}\n"
        return out, ranges, ledger

    def run(self, tier="quick", probe=False, seed=0, extra_args=None):
        os.makedirs(core.GEN, exist_ok=True)
        out, ranges, ledger = self.generate(probe)
        fn = os.path.join(core.GEN, "%s%s.rs" % (self.name, "_probe" if probe else ""))
        with open(fn, "w") as f:
            f.write(out)
        rlimit = self.spec.get("rlimit", 10) * (4 if tier == "thorough" else 1)
        cmd = ["verus", fn, "--output-json", "--time-expanded", "--multiple-errors", str(self.spec.get("multiple_errors", 20)),
               "--rlimit", str(rlimit), "--num-threads", "8"]
        if seed:
            cmd += ["--smt-option", "smt.random_seed=%d" % (seed % 1000)]
        cmd += (extra_args or [])
        cmd += ["--", "--error-format=json"]
        # The verifier is deterministic for a given input text, options and seed: when the text generated from the tree under
        # check is byte-identical to one already verified (the same unit serving several properties), the verifier's own
        # output is reused instead of being recomputed (VERIF_NO_CACHE=1 turns this off). Nothing is reused across different texts.
        import hashlib
        key = hashlib.sha256(("verus 0.2026.09.13\n" + " ".join(cmd) + "\n" + out).encode()).hexdigest()
        cdir = os.path.join(core.VERIF, ".cache", "verus-results")
        cpath = os.path.join(cdir, key + ".json")
        cached = None
        if not os.environ.get("VERIF_NO_CACHE") and os.path.exists(cpath):
            try:
                with open(cpath) as f:
                    cached = json.load(f)
            except Exception:
                cached = None
        if cached:
            rc, so, se, wall = cached["rc"], cached["so"], cached["se"], cached["wall"]
        else:
            rc, so, se, wall = core.run(cmd, cwd=core.GEN, timeout=self.spec.get("timeout", 600))
            if rc != -9 and wall > 20:
                try:
                    os.makedirs(cdir, exist_ok=True)
                    with open(cpath + ".tmp%d" % os.getpid(), "w") as f:
                        json.dump(dict(rc=rc, so=so, se=se, wall=wall, unit=self.name, at=time.strftime("%Y-%m-%d %H:%M:%S")), f)
                    os.replace(cpath + ".tmp%d" % os.getpid(), cpath)
                except Exception:
                    pass
        if rc == -9:
            raise Undecided("verus timeout on unit %s" % self.name)
        try:
            js = json.loads(so)
        except Exception:
            raise Undecided("verus produced no JSON for unit %s: %s" % (self.name, se[-3000:]))
        diags = []
        for line in se.splitlines():
            line = line.strip()
            if not line.startswith("{"):
                continue
            try:
                d = json.loads(line)
            except Exception:
                continue
            if d.get("level") not in ("error",):
                continue
            if d["message"].startswith("aborting due to"):
                continue
            diags.append(d)
        res = VerusResult(self, fn, out, ranges, ledger, js, diags, wall, " ".join(cmd) + (" [verifier output reused: byte-identical input verified at %s in %.0f s]" % (cached.get("at"), cached.get("wall", 0)) if cached else ""), probe)
        return res


class VerusResult:
    def __init__(self, unit, path, text, ranges, ledger, js, diags, wall, cmd, probe):
        self.unit, self.path, self.text, self.ranges = unit, path, text, ranges
        self.ledger, self.js, self.diags, self.wall, self.cmd = ledger, js, diags, wall, cmd
        self.probe = probe
        self.fn_status = {}   # verus function name -> dict(success,time,rlimit,mode)
        for m in js.get("times-ms", {}).get("smt", {}).get("smt-run-module-times", []):
            for fb in m.get("function-breakdown", []):
                self.fn_status[fb["function"]] = dict(success=fb["success"], time_ms=fb["time-micros"] / 1000.0,
                                                      rlimit=fb["rlimit"], mode=fb.get("mode:", "?"))
        self.failures = []     # dict(label, message, clause, line, rendered, item)
        self.tool_errors = []  # undecided reasons
        tb = text.encode()
        for d in diags:
            msg = d["message"]
            prim = [s for s in d.get("spans", []) if s.get("is_primary")] or d.get("spans", [])
            label, meta, clause, line = "?", None, "", 0
            alllabels = []
            for s in d.get("spans", []):
                for (a, b, lab, m) in ranges:
                    if a <= s["byte_start"] < b:
                        alllabels.append((lab, m, s))
            if prim:
                s = prim[0]
                line = s["line_start"]
                clause = tb[s["byte_start"]:s["byte_end"]].decode(errors="replace")
                for (a, b, lab, m) in ranges:
                    if a <= s["byte_start"] < b:
                        label, meta = lab, m
            # an error is attributed to the contracted function whose body/contract it lies in;
            # for precondition failures the primary span is the callee's requires clause, the
            # secondary span is the call site (which is the function that failed)
            owner, ometa = label, meta
            is_fail = any(p in msg for p in FAIL_PATTERNS)
            is_limit = any(p in msg for p in LIMIT_PATTERNS)
            rec = dict(label=owner, message=msg, clause=" ".join(clause.split())[:300], gen_line=line,
                       rendered=d.get("rendered", ""), meta=ometa, clause_in=label)
            if is_limit or not is_fail:
                self.tool_errors.append(rec)
            else:
                self.failures.append(rec)
        vr = js.get("verification-results", {})
        self.verified = vr.get("verified", 0)
        self.errors = vr.get("errors", 0)
        if vr.get("encountered-vir-error") or (not vr.get("success") and not diags):
            self.tool_errors.append(dict(label="?", message="verus error without diagnostics", clause="", gen_line=0,
                                         rendered="", meta=None))

    def status_of(self, label):
        """verus function-breakdown entry whose name ends with ::label (label = fn name)"""
        name = label.split("::")[-1]
        hits = {k: v for k, v in self.fn_status.items() if k.split("::")[-1] == name}
        return hits

    def trusted_scan(self):
        found = []
        lines = self.text.splitlines()
        for i, ln in enumerate(lines, 1):
            s = ln.strip()
            if s.startswith("//"):
                continue
            for m in TRUST_MARKERS:
                if m in ln:
                    ctx = s
                    if "fn " not in s:
                        for nx in lines[i:i + 3]:
                            if "fn " in nx:
                                ctx = s + " " + nx.strip()
                                break
                    found.append((i, m, ctx[:200]))
        return found
