"""Shared plumbing for /verif checks: paths, process running, source index, ledger."""
import json
import os
import re
import shutil
import subprocess
import sys
import tempfile
import time

VERIF = os.path.dirname(os.path.dirname(os.path.abspath(__file__)))
REPO = os.environ.get("VERIF_REPO", "/repo")
P2X = os.path.join(VERIF, "tools/extract/target/release/p2x")
# generated files of a run against /repo itself go to gen/; runs against another tree (seeded changes, self-tests) get a
# directory of their own so that concurrent runs cannot overwrite each other's generated files
GEN = os.path.join(VERIF, "gen") if os.path.realpath(REPO) == "/repo" else os.path.join(VERIF, ".cache", "gen-other", "%d" % os.getpid())
# evidence/ describes /repo itself; runs against another tree (selftest, seeded changes) write elsewhere
EVIDENCE = os.path.join(VERIF, "evidence") if os.path.realpath(REPO) == "/repo" else os.path.join(VERIF, ".cache", "evidence-other-tree")
REPLAY = os.path.join(VERIF, "replay")
CACHE = os.path.join(VERIF, ".cache")


class Undecided(Exception):
    """Tool limit, lost anchor, rewrite mismatch, timeout: exit 2, never an alarm."""


def log(*a):
    print(*a, file=sys.stderr, flush=True)


def run(cmd, cwd=None, timeout=None, env=None, stdin=None):
    """Run a command in its own process group; on timeout the whole group is killed."""
    import signal
    t0 = time.time()
    e = dict(os.environ)
    e["CARGO_NET_OFFLINE"] = "true"
    if env:
        e.update(env)
    p = subprocess.Popen(cmd, cwd=cwd, env=e, stdin=subprocess.PIPE if stdin is not None else subprocess.DEVNULL,
                         stdout=subprocess.PIPE, stderr=subprocess.PIPE, text=True, errors="replace",
                         start_new_session=True)
    try:
        out, err = p.communicate(input=stdin, timeout=timeout)
        return p.returncode, out, err, time.time() - t0
    except subprocess.TimeoutExpired:
        try:
            os.killpg(p.pid, signal.SIGKILL)
        except Exception:
            pass
        try:
            out, err = p.communicate(timeout=10)
        except Exception:
            out, err = "", ""
        return -9, out or "", (err or "") + "\nTIMEOUT", time.time() - t0


def ensure_p2x():
    if not os.path.exists(P2X):
        rc, out, err, _ = run(["cargo", "build", "--offline", "--release", "--manifest-path",
                               os.path.join(VERIF, "tools/extract/Cargo.toml")])
        if rc != 0:
            raise Undecided("cannot build p2x: " + err[-2000:])


_index_cache = {}


def index(relfile):
    """Index one source file of the repo's current working tree."""
    path = os.path.join(REPO, relfile)
    if path in _index_cache:
        return _index_cache[path]
    ensure_p2x()
    if not os.path.exists(path):
        raise Undecided("lost anchor: file %s missing" % relfile)
    rc, out, err, _ = run([P2X, "index", path])
    if rc != 0:
        raise Undecided("p2x failed on %s: %s" % (relfile, err.strip()))
    d = json.loads(out)[path]
    with open(path, "rb") as f:
        src = f.read()
    items = {}
    for it in d["items"]:
        items.setdefault(it["path"], []).append(it)
    res = {"src": src, "items": items, "list": d["items"], "file": relfile}
    _index_cache[path] = res
    return res


def find_item(relfile, path, kind=None, nth=0):
    idx = index(relfile)
    cands = [i for i in idx["items"].get(path, []) if kind is None or i["kind"] == kind]
    if len(cands) <= nth:
        raise Undecided("lost anchor: %s `%s` not found in %s" % (kind or "item", path, relfile))
    return idx, cands[nth]


def text(idx, span):
    return idx["src"][span[0]:span[1]].decode()


def line_of(idx, byte):
    return idx["src"][:byte].count(b"\n") + 1


def scratch_root():
    base = os.environ.get("VERIF_SCRATCH", "/var/tmp")
    os.makedirs(base, exist_ok=True)
    return tempfile.mkdtemp(prefix="p2sh-verif.", dir=base)


def repo_src_digest():
    import hashlib
    h = hashlib.sha256()
    for root, dirs, files in os.walk(os.path.join(REPO, "src")):
        dirs.sort()
        for f in sorted(files):
            p = os.path.join(root, f)
            h.update(p.encode())
            with open(p, "rb") as fh:
                h.update(fh.read())
    for f in ("Cargo.toml", "Cargo.lock"):
        p = os.path.join(REPO, f)
        if os.path.exists(p):
            with open(p, "rb") as fh:
                h.update(fh.read())
    return h.hexdigest()[:16]
