"""Shape baseline of the contracted items (recorded from the unchanged tree by tools/mk_baseline.py).

A Verus obligation that fails gives no counterexample. When the function it belongs to has kept its vocabulary (only
operators, constants, conditions or the order of known calls changed) a failure is reported as a violation: the proof
that went through before no longer does, and nothing new needs a specification. When the function has acquired NEW
vocabulary (a std method the unit has no specification for, a new helper, a new field) or a different loop structure,
the failure may just as well be a proof gap (missing spec or invariant for the new shape). Such a failure needs
corroboration by an input that fails on the real code (bounded stand-in or Kani); without one it is undecided (exit 2),
never an alarm."""
import hashlib
import json
import os
import re

from . import core

BASEDIR = os.path.join(core.VERIF, "baseline")


def item_text(meta):
    src = meta["src"]
    idx, it = src[0], src[1]
    if len(src) > 2:          # arm
        arm = src[2]
        return idx["src"][arm["body"][0]:arm["body"][1]].decode(errors="replace")
    if it.get("kind") == "lazy_static":
        return idx["src"][it["init"][0]:it["init"][1]].decode(errors="replace")
    return idx["src"][it.get("start_noattr", it["span"][0]):it["span"][1]].decode(errors="replace")


def strip(text):
    text = re.sub(r"//[^\n]*", "", text)
    text = re.sub(r"/\*.*?\*/", "", text, flags=re.S)
    text = re.sub(r'"(?:[^"\\]|\\.)*"', '""', text)
    return text


def idents(text):
    return set(re.findall(r"\b[A-Za-z_][A-Za-z0-9_]*\b", strip(text)))


def loops(text):
    return len(re.findall(r"\b(?:for|while|loop)\b", strip(text)))


def sha(text):
    return hashlib.sha256(" ".join(strip(text).split()).encode()).hexdigest()[:16]


def record(unit_name, entries):
    os.makedirs(BASEDIR, exist_ok=True)
    with open(os.path.join(BASEDIR, "%s.json" % unit_name), "w") as f:
        json.dump(entries, f, indent=0, sort_keys=True)


def load(unit_name):
    p = os.path.join(BASEDIR, "%s.json" % unit_name)
    if not os.path.exists(p):
        return None
    with open(p) as f:
        return json.load(f)


def needs_corroboration(unit_name, label, meta):
    """None: the item kept its shape (or is unchanged); else the reason a failed proof may be a proof gap."""
    if meta is None or not meta.get("src"):
        return None
    base = load(unit_name)
    if base is None or label not in base:
        return "no shape baseline recorded for %s::%s" % (unit_name, label)
    b = base[label]
    cur = item_text(meta)
    if sha(cur) == b["sha"]:
        return None
    new = sorted(idents(cur) - set(b["idents"]))
    if new:
        return "the function uses vocabulary it did not use before (%s)" % ", ".join(new[:8])
    if loops(cur) != b["loops"]:
        return "the function's loop structure changed (%d -> %d loops)" % (b["loops"], loops(cur))
    return None
