"""R4s: `match <string expr> { "a" | "b" => ..., _ => ... }` -> `match () { _ if str_is(S, "a") || str_is(S, "b") => ..., _ => ... }`.
Verus has no string-literal patterns; the guards test the same equalities in the same order (first matching arm wins in both)."""
import re

HEAD = re.compile(r"match\s+((?:\*|&)?\w+(?:\.\w+)*?)(\.as_ref\(\)|\.as_str\(\))?\s*\{")
ARM = re.compile(r'\s*("(?:[^"\\]|\\.)*"(?:\s*\|\s*"(?:[^"\\]|\\.)*")*)\s*=>')


def _close(txt, i):
    """index of the brace closing the one at txt[i] (strings and char literals skipped)"""
    depth = 0
    k = i
    n = len(txt)
    while k < n:
        c = txt[k]
        if c == '"':
            k += 1
            while txt[k] != '"':
                k += 2 if txt[k] == "\\" else 1
        elif c == "/" and txt[k:k + 2] == "//":
            k = txt.index("\n", k)
        elif c == "{":
            depth += 1
        elif c == "}":
            depth -= 1
            if depth == 0:
                return k
        k += 1
    raise ValueError("unbalanced")


def rewrite(txt):
    changes = []
    pos = 0
    while True:
        m = HEAD.search(txt, pos)
        if not m:
            break
        ob = m.end() - 1
        cb = _close(txt, ob)
        body = txt[ob + 1:cb]
        # top-level arms of this match: scan at depth 0
        arms = []
        depth = 0
        k = 0
        at_arm_start = True
        while k < len(body):
            c = body[k]
            if at_arm_start and depth == 0:
                am = ARM.match(body, k)
                if am:
                    arms.append(am)
                    k = am.end()
                    at_arm_start = False
                    continue
                if not c.isspace():
                    at_arm_start = False
            if c == '"':
                k += 1
                while body[k] != '"':
                    k += 2 if body[k] == "\\" else 1
            elif c == "/" and body[k:k + 2] == "//":
                k = body.index("\n", k)
                continue
            elif c in "{([":
                depth += 1
            elif c in "})]":
                depth -= 1
                if depth == 0 and c == "}":
                    at_arm_start = True
            elif c == "," and depth == 0:
                at_arm_start = True
            k += 1
        if not arms:
            pos = m.end()
            continue
        scrut = m.group(1)
        if m.group(2):
            sexpr = "string_as_str(&%s)" % scrut
        else:
            sexpr = scrut
        new_body = body
        for am in reversed(arms):
            lits = re.findall(r'"(?:[^"\\]|\\.)*"', am.group(1))
            guard = " || ".join("str_is(%s, %s)" % (sexpr, l) for l in lits)
            lead = re.match(r"\s*", am.group(0)).group(0)
            new_body = new_body[:am.start()] + lead + "_ if " + guard + " =>" + new_body[am.end():]
        new = "match () {" + new_body + "}"
        changes.append((txt[m.start():m.end()] + " " + " / ".join(a.group(1) for a in arms), "match () { _ if str_is(%s, ..) .. }" % sexpr))
        txt = txt[:m.start()] + new + txt[cb + 1:]
        pos = m.start() + len("match () {")
    return txt, changes
