"""Bounded stand-ins: executable forms of the top-level postconditions, run against the real interpreter binary built
from the tree under check. They are labelled *bounded* (stated case counts), never counted as discharged, and serve
 (a) as the stand-in where a changed function can no longer be brought within Verus's reach (code shape outside the
     splice rules: the Verus unit is then undecided, and only a failing input found here turns that into a VIOLATION);
 (b) as the witness finder for a failed Verus obligation (Verus gives no counterexample);
 (c) as a regression net for the parts of a property that no contract reaches (listed under not_covered).
A stand-in never alarms without an input that fails on the real code twice in a row."""
import concurrent.futures as cf
import fcntl
import hashlib
import importlib
import json
import os
import random
import shutil
import subprocess
import tempfile
import time

from . import core
from .core import Undecided, log

CASE_TIMEOUT = 10.0
import threading
_ALONE = threading.Lock()


def _tree_digest():
    return core.repo_src_digest()


def binary_for_tree():
    """Build p2sh (optimised, but with overflow checks and debug assertions on, as in the test profile) from the current working tree
    of the repo under check. Cached by content digest of src/ + Cargo.*; the build happens in a scratch copy."""
    dg = _tree_digest()
    bdir = os.path.join(core.CACHE, "e2e-bin", dg)
    binp = os.path.join(bdir, "p2sh")
    if os.path.exists(binp):
        return binp
    base = os.path.join(os.environ.get("VERIF_SCRATCH", "/var/tmp"), "p2sh-verif-e2e")
    os.makedirs(base, exist_ok=True)
    lockf = open(os.path.join(base, "build.lock"), "w")
    fcntl.flock(lockf, fcntl.LOCK_EX)
    try:
        if os.path.exists(binp):
            return binp
        tree = os.path.join(base, "tree")
        shutil.rmtree(tree, ignore_errors=True)
        os.makedirs(tree)
        rc, so, se, _ = core.run(["rsync", "-r", "--links", "--exclude", "target", "--exclude", ".git", core.REPO + "/", tree + "/"])
        if rc != 0:
            raise Undecided("rsync failed: " + se)
        tdir = os.path.join(core.CACHE, "e2e-target-rel")
        os.makedirs(tdir, exist_ok=True)
        # optimised build with the dev profile's panic semantics (overflow checks and debug assertions on)
        rc, so, se, wall = core.run(["cargo", "build", "--release", "--offline", "--target-dir", tdir], cwd=tree, timeout=900,
                                    env={"CARGO_PROFILE_RELEASE_OVERFLOW_CHECKS": "true", "CARGO_PROFILE_RELEASE_DEBUG_ASSERTIONS": "true"})
        if rc != 0:
            raise Undecided("the tree under check does not build: " + se[-1500:])
        os.makedirs(bdir, exist_ok=True)
        tmp = binp + ".tmp%d" % os.getpid()
        shutil.copy2(os.path.join(tdir, "release", "p2sh"), tmp)
        os.replace(tmp, binp)
        shutil.rmtree(tree, ignore_errors=True)
        # keep the cache small: at most 6 binaries
        root = os.path.join(core.CACHE, "e2e-bin")
        ds = sorted((os.path.getmtime(os.path.join(root, d)), d) for d in os.listdir(root))
        for _, d in ds[:-6]:
            shutil.rmtree(os.path.join(root, d), ignore_errors=True)
        return binp
    finally:
        fcntl.flock(lockf, fcntl.LOCK_UN)
        lockf.close()


class Run:
    """Outcome of one interpreter invocation."""
    def __init__(self, rc, out, err, timed_out, files):
        self.rc, self.out, self.err, self.timed_out, self.files = rc, out, err, timed_out, files

    @property
    def panicked(self):
        return self.rc == 101 or b"panicked at" in self.err or self.rc in (-6, -11, 134, 139)

    @property
    def text(self):
        return self.out.decode("utf-8", "replace")

    @property
    def etext(self):
        return self.err.decode("utf-8", "replace")


def invoke(binp, case, keep=None):
    """case: dict(prog=str | None, script=bool, args=[..], flags=[..], stdin=bytes, files={name: bytes}, collect=[names],
    stdin_chunks=[bytes..] (fed through a pipe with pauses))"""
    tmp = tempfile.mkdtemp(prefix="p2sh-si.", dir=os.environ.get("VERIF_SCRATCH", "/var/tmp"))
    try:
        for n, b in (case.get("files") or {}).items():
            p = os.path.join(tmp, n)
            if b is None:
                os.makedirs(p, exist_ok=True)
            else:
                with open(p, "wb") as f:
                    f.write(b)
        argv = [binp] + list(case.get("flags") or [])
        if case.get("repl") is not None:
            import sys as _sys
            argv = [_sys.executable, os.path.join(core.VERIF, "standins", "repl_drive.py"), binp] + list(case["repl"])
        prog = case.get("prog")
        if prog is not None:
            prog = prog.replace("@TMP@", tmp)
            if case.get("script", True):
                sp = os.path.join(tmp, "prog.p2sh")
                with open(sp, "w", encoding="utf-8", errors="surrogatepass") as f:
                    f.write(prog)
                argv += [sp]
            else:
                argv += ["-c", prog]
        argv += [a.replace("@TMP@", tmp) for a in (case.get("args") or [])]
        chunks = case.get("stdin_chunks")
        try:
            if chunks is not None:
                p = subprocess.Popen(argv, cwd=tmp, stdin=subprocess.PIPE, stdout=subprocess.PIPE, stderr=subprocess.PIPE)
                import threading

                def feed():
                    try:
                        for c in chunks:
                            p.stdin.write(c)
                            p.stdin.flush()
                            time.sleep(0.02)
                        p.stdin.close()
                    except Exception:
                        pass
                th = threading.Thread(target=feed, daemon=True)
                th.start()
                out = p.stdout.read()
                err = p.stderr.read()
                p.wait(timeout=case.get("timeout", CASE_TIMEOUT))
                r = Run(p.returncode, out, err, False, {})
            else:
                cp = subprocess.run(argv, cwd=tmp, input=case.get("stdin", b""), capture_output=True,
                                    timeout=case.get("timeout", CASE_TIMEOUT))
                r = Run(cp.returncode, cp.stdout, cp.stderr, False, {})
        except subprocess.TimeoutExpired as e:
            try:
                p.kill()
            except Exception:
                pass
            r = Run(-9, e.stdout or b"", e.stderr or b"", True, {})
        for n in case.get("collect") or []:
            pth = os.path.join(tmp, n)
            r.files[n] = open(pth, "rb").read() if os.path.isfile(pth) else None
        return r
    finally:
        shutil.rmtree(tmp, ignore_errors=True)


def _enc(case):
    d = {}
    for k, v in case.items():
        if k == "check":
            continue
        if isinstance(v, bytes):
            d[k] = {"hex": v.hex()}
        elif k == "files":
            d[k] = {n: (None if b is None else {"hex": b.hex()}) for n, b in v.items()}
        elif k == "stdin_chunks":
            d[k] = [{"hex": c.hex()} for c in v]
        else:
            d[k] = v
    return d


def _dec(d):
    c = {}
    for k, v in d.items():
        if isinstance(v, dict) and set(v.keys()) == {"hex"}:
            c[k] = bytes.fromhex(v["hex"])
        elif k == "files":
            c[k] = {n: (None if b is None else bytes.fromhex(b["hex"])) for n, b in v.items()}
        elif k == "stdin_chunks":
            c[k] = [bytes.fromhex(x["hex"]) for x in v]
        else:
            c[k] = v
    return c


def load(pid):
    try:
        return importlib.import_module("standins.%s" % pid)
    except ModuleNotFoundError:
        return None


def run_property(pid, tier, seed):
    """Returns (bounded_obligations, undecided_reasons). Each obligation: dict(id, backend, kind='bounded', bound, status,
    cases, failures=[dict(message, clause, witness)])."""
    mod = load(pid)
    if mod is None:
        return [], []
    try:
        binp = binary_for_tree()
    except Undecided as e:
        return [], ["stand-in: %s" % e]
    obs, und = [], []
    for g in mod.GROUPS:
        rng = random.Random("%s/%s/%d" % (pid, g["name"], seed))
        t0 = time.time()
        try:
            cases = list(g["gen"](tier, rng))
        except Exception as e:   # a generator bug is a /verif problem, never an alarm
            und.append("stand-in %s::%s: generator error %r" % (pid, g["name"], e))
            continue
        fails, errors = [], []
        confirmed_hangs = [0]

        def one(c):
            try:
                r = invoke(binp, c)
                msg = c["check"](r)
                if msg and r.timed_out and confirmed_hangs[0] >= 2:
                    return None      # two inputs that never end are already on record for this group: no more minute-long re-runs
                if msg and r.timed_out:
                    # a time-out under load proves nothing: run the case again alone, with eight times the limit
                    with _ALONE:
                        c2 = dict(c, timeout=max(60.0, 8 * c.get("timeout", CASE_TIMEOUT)))
                        r = invoke(binp, c2)
                    msg = c["check"](r)
                if msg:
                    # a failing input must fail twice (no flaky alarms)
                    r2 = invoke(binp, c if not r.timed_out else dict(c, timeout=max(60.0, 8 * c.get("timeout", CASE_TIMEOUT))))
                    msg2 = c["check"](r2)
                    if msg2:
                        if r2.timed_out:
                            confirmed_hangs[0] += 1
                        return (c, r2, msg2)
                return None
            except subprocess.TimeoutExpired:
                return ("timeout", c)
            except Exception as e:
                return ("error", c, repr(e))
        # cases marked batch=True are pure computations that end normally: many of them run in one interpreter process
        # (each in its own block, separated by marker lines on both streams); a batch that shows any anomaly is re-run
        # case by case, so a batch can hide nothing and blame nobody wrongly
        solo = [c for c in cases if not c.get("batch")]
        batchable = [c for c in cases if c.get("batch")]
        BN = 40
        batches = [batchable[i:i + BN] for i in range(0, len(batchable), BN)]

        def run_batch(b):
            parts = []
            for k, c in enumerate(b):
                parts.append("{\n%s\n}\nputs(\"<<@%d@>>\"); eprintln(\"<<@%d@>>\");" % (c["prog"], k, k))
            r = invoke(binp, dict(prog="\n".join(parts)))
            outs, errs = r.text, r.etext
            ok = (r.rc == 0 and not r.timed_out)
            so, se = [], []
            if ok:
                for k in range(len(b)):
                    mk = "<<@%d@>>\n" % k
                    i, j = outs.find(mk), errs.find(mk)
                    if i < 0 or j < 0:
                        ok = False
                        break
                    so.append(outs[:i]); outs = outs[i + len(mk):]
                    se.append(errs[:j]); errs = errs[j + len(mk):]
            res = []
            for k, c in enumerate(b):
                if ok:
                    msg = c["check"](Run(0, so[k].encode(), se[k].encode(), False, {}))
                    if not msg:
                        continue
                x = one(c)
                if x is not None:
                    res.append(x)
            return res
        with cf.ThreadPoolExecutor(max_workers=int(os.environ.get("VERIF_JOBS", "12"))) as ex:
            futs = [ex.submit(one, c) for c in solo] + [ex.submit(run_batch, b) for b in batches]
            for fu in futs:
                res = fu.result()
                if res is None:
                    continue
                for one_res in (res if isinstance(res, list) else [res]):
                    if one_res[0] == "error":
                        errors.append(one_res[2])
                    elif one_res[0] == "timeout":
                        errors.append("timeout")
                    else:
                        fails.append(one_res)
        oid = "standin::%s" % g["name"]
        ob = dict(id=oid, backend="native/p2sh-binary", kind="bounded", bound=g["bound"], cases=len(cases),
                  status="discharged" if not fails else "failed", clauses=[g["clause"]], source=g.get("source"),
                  wall_s=round(time.time() - t0, 2))
        if errors:
            und.append("stand-in %s: %d cases could not be run (%s)" % (oid, len(errors), errors[0][:200]))
        if not cases:
            und.append("stand-in %s generated no cases" % oid)
        if fails:
            ob["failures"] = []
            for c, r, msg in fails[:5]:
                ob["failures"].append(dict(message=msg[:600], clause=g["clause"],
                                           witness=dict(case=_enc(c), exit=r.rc, stdout=r.text[-1500:], stderr=r.etext[-1500:]),
                                           rendered=""))
            ob["n_failing_cases"] = len(fails)
        obs.append(ob)
    return obs, und


def replay(pid, rec):
    """Re-run the stored witnesses of a stand-in obligation on the current tree."""
    mod = load(pid)
    gname = rec["obligation"].split("::", 1)[1]
    g = [x for x in mod.GROUPS if x["name"] == gname]
    if not g:
        log("UNDECIDED: stand-in group %s no longer exists" % gname)
        return 2
    binp = binary_for_tree()
    bad = 0
    for f in rec.get("failures", []):
        c = _dec(f["witness"]["case"])
        # the check function is rebuilt by regenerating the case with the same id
        chk = None
        for tier in ("quick", "thorough"):
            for seed in (rec.get("seed", 0),):
                rng = random.Random("%s/%s/%d" % (pid, gname, seed))
                for cand in g[0]["gen"](tier, rng):
                    if cand.get("id") == c.get("id"):
                        chk = cand["check"]
                        break
                if chk:
                    break
            if chk:
                break
        if chk is None:
            log("UNDECIDED: case %s not regenerated" % c.get("id"))
            return 2
        r = invoke(binp, c)
        msg = chk(r)
        print("case %s: %s" % (c.get("id"), msg or "holds now"))
        if c.get("prog"):
            print("  program: %s" % c["prog"][:400])
        print("  exit=%s stdout=%r stderr=%r" % (r.rc, r.text[-300:], r.etext[-300:]))
        if msg:
            bad += 1
    if bad:
        print("REPLAY: %d stored input(s) still fail on the real code" % bad)
        print("VIOLATION property=%s replay=%s" % (pid, rec.get("_path", "?")))
        return 1
    print("REPLAY: the stored inputs no longer fail")
    return 0
