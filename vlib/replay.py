"""Replay: run a verifier counterexample (Kani concrete playback) against the real code,
or re-run the named obligation for verus failures (no concrete input exists)."""
import importlib
import json
import os
import re
import shutil

from . import core, kani
from .core import Undecided, log


def run_playback(rec):
    """Return (confirmed, output): confirmed=True when the concrete values make the real code
    violate the harness assertion / panic when run natively (cargo kani playback)."""
    unit = rec["unit"]
    mod = importlib.import_module("units.%s.unit" % unit)
    spec = mod.UNIT
    test = rec["playback"]
    m = re.search(r"fn (kani_concrete_playback_\w+)\(", test)
    if not m:
        raise Undecided("no playback test in replay record")
    tname = m.group(1)
    hname = rec["obligation"].split("::")[-1]
    import fcntl
    base = os.path.join(os.environ.get("VERIF_SCRATCH", "/var/tmp"), "p2sh-verif-kani")
    os.makedirs(base, exist_ok=True)
    scratch = os.path.join(base, "playback")
    lockf = open(scratch + ".lock", "w")
    fcntl.flock(lockf, fcntl.LOCK_EX)
    shutil.rmtree(scratch, ignore_errors=True)
    os.makedirs(scratch)
    try:
        u = kani.KaniUnit(spec)
        dst = u.prepare(scratch)
        placed = False
        for rel, hfile in spec["appends"]:
            with open(os.path.join(core.VERIF, hfile)) as f:
                h = f.read()
            if re.search(r"fn %s\s*\(" % re.escape(hname), h):
                p = os.path.join(dst, rel)
                with open(p) as f:
                    s = f.read()
                i = s.rstrip().rfind("}")
                s = s[:i] + "\n" + test + "\n}\n"
                with open(p, "w") as f:
                    f.write(s)
                placed = True
                break
        if not placed:
            raise Undecided("harness %s not found in unit %s" % (hname, unit))
        tdir = os.path.join(core.CACHE, "kani-target")
        cmd = ["cargo", "kani", "playback", "-Z", "concrete-playback", "--", tname, "--nocapture"]
        rc, so, se, wall = core.run(cmd, cwd=dst, timeout=900,
                                    env={"CARGO_TARGET_DIR": os.path.join(core.CACHE, "kani-playback-target")})
        out = so + "\n" + se
        if "test result: FAILED" in out or "panicked at" in out:
            return True, out
        if "test result: ok" in out and "1 passed" in out:
            return False, out
        raise Undecided("playback did not run: " + out[-1500:])
    finally:
        shutil.rmtree(scratch, ignore_errors=True)
        fcntl.flock(lockf, fcntl.LOCK_UN)
        lockf.close()


def replay(pid, path):
    with open(path) as f:
        rec = json.load(f)
    print("replay of %s obligation %s (%s)" % (rec["property"], rec["obligation"], rec["backend"]))
    if rec["backend"].startswith("native/"):
        from . import standin
        rec["_path"] = path
        return standin.replay(pid, rec)
    if rec.get("playback"):
        try:
            confirmed, out = run_playback(rec)
        except Undecided as e:
            log("UNDECIDED: %s" % e)
            return 2
        print(out[-3000:])
        if confirmed:
            print("REPLAY: the counterexample fails on the real code (/repo working tree)")
            print("VIOLATION property=%s replay=%s" % (pid, path))
            return 1
        print("REPLAY: the counterexample no longer fails on the real code")
        return 0
    # verus obligation: no concrete input; show the obligation and re-run it
    print("no concrete input (verus gives none); obligation and verifier output follow")
    print(json.dumps(rec.get("contract"), indent=1))
    for f in rec.get("failures", []):
        print(f.get("rendered") or f.get("message"))
    from . import verus
    unit = rec["unit"]
    if unit.startswith("hdrser_"):
        spec = importlib.import_module("units.hdrser.unit").UNITS[unit[len("hdrser_"):]]
    else:
        spec = importlib.import_module("units.%s.unit" % unit).UNIT
    try:
        res = verus.VerusUnit(spec).run()
    except Undecided as e:
        log("UNDECIDED: %s" % e)
        return 2
    label = rec["obligation"].split("::", 1)[1]
    fails = [f for f in res.failures if f["label"] == label]
    if fails:
        for f in fails:
            print(f["rendered"])
        print("REPLAY: obligation %s still fails on /repo's working tree" % rec["obligation"])
        print("VIOLATION property=%s replay=%s no-failing-input-found" % (pid, path))
        return 1
    print("REPLAY: obligation %s is discharged on /repo's working tree" % rec["obligation"])
    return 0
