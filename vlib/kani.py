"""Kani runs on a scratch copy of the real crate with harness modules appended (nothing edited)."""
import os
import re
import shutil

from . import core
from .core import Undecided


class KaniUnit:
    def __init__(self, spec):
        self.spec = spec
        self.name = spec["name"]

    def prepare(self, scratch):
        dst = os.path.join(scratch, "crate")
        rc, so, se, _ = core.run(["rsync", "-r", "--links", "--exclude", "target", "--exclude", ".git", core.REPO + "/", dst + "/"])
        if rc != 0:
            raise Undecided("rsync failed: " + se)
        os.makedirs(os.path.join(dst, ".cargo"), exist_ok=True)
        with open(os.path.join(dst, ".cargo/config.toml"), "w") as f:
            f.write("[net]\noffline = true\n")
        for rel, hfile in self.spec["appends"]:
            p = os.path.join(dst, rel)
            if not os.path.exists(p):
                raise Undecided("lost anchor: %s missing" % rel)
            with open(os.path.join(core.VERIF, hfile)) as f:
                h = f.read()
            with open(p, "a") as f:
                f.write("\n// ---- appended by /verif (cfg(kani) only) ----\n" + h)
        # optional crate-level feature gates (prepended to main.rs as inner attributes)
        if self.spec.get("crate_attrs"):
            p = os.path.join(dst, "src/main.rs")
            with open(p) as f:
                s = f.read()
            with open(p, "w") as f:
                f.write(self.spec["crate_attrs"] + "\n" + s)
        return dst

    def run(self, tier="quick", only=None, playback=True, jobs=None):
        # fixed scratch path per unit (stable cargo package id: artifacts are overwritten, not accumulated),
        # serialised by a lock; the copy is recreated from /repo's working tree on every run
        import fcntl
        base = os.path.join(os.environ.get("VERIF_SCRATCH", "/var/tmp"), "p2sh-verif-kani")
        os.makedirs(base, exist_ok=True)
        scratch = os.path.join(base, self.name)
        lockf = open(scratch + ".lock", "w")
        fcntl.flock(lockf, fcntl.LOCK_EX)
        shutil.rmtree(scratch, ignore_errors=True)
        os.makedirs(scratch)
        try:
            dst = self.prepare(scratch)
            hs = [h for h in self.spec["harnesses"]
                  if (tier == "thorough" or not h.get("thorough_only")) and (only is None or h["name"] in only)]
            if not hs:
                return KaniResult(self, [], "", "", 0.0, "")
            tdir = os.path.join(core.CACHE, "kani-target-%s" % self.name)
            os.makedirs(tdir, exist_ok=True)
            cmd = ["cargo", "kani", "--target-dir", tdir, "-Z", "function-contracts", "-Z", "stubbing"]
            cmd += self.spec.get("flags", [])
            ht = int(os.environ.get("VERIF_KANI_HARNESS_TIMEOUT", self.spec.get("harness_timeout", 600))) * (4 if tier == "thorough" else 1)
            cmd += ["-Z", "unstable-options", "--harness-timeout", "%ds" % ht]
            base = list(cmd)
            for h in hs:
                cmd += ["--harness", h["name"]]
            j = jobs or self.spec.get("jobs", 8)
            cmd += ["-j", str(j), "--output-format=terse"]
            to = int(os.environ.get("VERIF_KANI_TIMEOUT", self.spec.get("timeout", 2700))) * (3 if tier == "thorough" else 1)
            rc, so, se, wall = core.run(cmd, cwd=dst, timeout=to)
            if rc == -9:
                raise Undecided("kani timeout on unit %s after %ds" % (self.name, to))
            res = KaniResult(self, hs, so, se, wall, " ".join(cmd), rc)
            failed = [k for k, v in res.status.items() if v["result"] == "FAILED"]
            if playback and failed:
                # second pass (single job) to obtain concrete counterexamples for the failed harnesses
                cmd2 = base + ["-Z", "concrete-playback", "--concrete-playback=print", "--output-format=terse"]
                # serial pass: keep it short, the remaining failures are reported without a concrete input
                for k in failed[:int(os.environ.get("VERIF_KANI_PLAYBACK_MAX", "3"))]:
                    cmd2 += ["--harness", k]
                rc2, so2, se2, wall2 = core.run(cmd2, cwd=dst, timeout=to)
                res2 = KaniResult(self, hs, so2, se2, wall2, " ".join(cmd2), rc2)
                for k, v in res2.status.items():
                    if v.get("playback") and k in res.status:
                        res.status[k]["playback"] = v["playback"]
                res.wall += wall2
            return res
        finally:
            shutil.rmtree(scratch, ignore_errors=True)
            fcntl.flock(lockf, fcntl.LOCK_UN)
            lockf.close()


class KaniResult:
    def __init__(self, unit, hs, so, se, wall, cmd, rc=0):
        self.unit, self.hs, self.so, self.se, self.wall, self.cmd, self.rc = unit, hs, so, se, wall, cmd, rc
        self.status = {}   # harness -> dict(result, failed_checks, time, playback, cover)
        text = so
        # parallel mode: "Thread N: Checking harness X..." then later "Thread N: \nVERIFICATION RESULT..." blocks;
        # serial mode: "Checking harness X..." followed directly by its result
        chunks = []  # (harness, blocktext)
        cur = {}
        pieces = re.split(r"(?m)^(Thread \d+: )", text)
        if len(pieces) > 1:
            i = 1
            while i < len(pieces):
                th, body = pieces[i], pieces[i + 1]
                m = re.match(r"Checking harness (\S+?)\.\.\.", body)
                if m:
                    cur[th] = m.group(1)
                elif th in cur:
                    chunks.append((cur[th], body))
                i += 2
        else:
            blocks = re.split(r"(?m)^Checking harness ", text)
            for b in blocks[1:]:
                chunks.append((b.split("...")[0].strip(), b))
        for name, b in chunks:
            b = b.split("Manual Harness Summary")[0]
            short = name.split("::")[-1]
            st = dict(result="UNKNOWN", failed=[], time=None, playback=None, cover_ok=None, raw=b[-6000:])
            m = re.search(r"VERIFICATION:- (SUCCESSFUL|FAILED)", b)
            if m:
                st["result"] = m.group(1)
            st["failed"] = re.findall(r"Failed Checks: (.*)", b)
            # Kani's NaN-production check ("NaN on addition" ...) is not a Rust panic: IEEE arithmetic is total
            nan_only = [f for f in st["failed"] if f.startswith("NaN on ")]
            st["failed"] = [f for f in st["failed"] if not f.startswith("NaN on ")]
            if nan_only and not st["failed"] and m and m.group(1) == "FAILED":
                st["result"] = "SUCCESSFUL"
                st["nan_checks_ignored"] = len(nan_only)
            tm = re.search(r"Verification Time: ([0-9.]+)s", b)
            if tm:
                st["time"] = float(tm.group(1))
            cov = re.search(r"(\d+) of (\d+) cover properties satisfied", b)
            if cov:
                st["cover_ok"] = (cov.group(1) == cov.group(2))
            pb = re.search(r"Concrete playback unit test for `[^`]*`:\n```\n(.*?)```", b, re.S)
            if pb:
                st["playback"] = pb.group(1)
            if "unwinding assertion" in " ".join(st["failed"]):
                st["result"] = "UNWIND"
            if "CBMC timed out" in b or ("CBMC failed" in b and not st["failed"]):
                st["result"] = "TIMEOUT"
            self.status[short] = st
        self.compile_error = None
        if not self.status and hs:
            self.compile_error = (se[-4000:] or so[-4000:])
